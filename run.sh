#!/bin/bash
# usage: run.sh <property|replay> <quick|thorough|path>
# Rebuilds nothing of orb: the checker loads /repo's working tree on every run.
set -u
cd "$(dirname "$0")"
export GOPROXY=off GOSUMDB=off GOTOOLCHAIN=local GOFLAGS=-mod=mod
unset GOWORK
REPO="${ORB_REPO:-/repo}"
if [ ! -x bin/orbcheck ] || [ -n "$(find checker -name '*.go' -newer bin/orbcheck -not -path '*/vendor/*' -print -quit 2>/dev/null)" ]; then
  (cd checker && GOFLAGS=-mod=vendor go build -o ../bin/orbcheck .) || { echo "cannot build orbcheck" >&2; exit 2; }
fi
if [ "$1" = "build" ]; then exit 0; fi
if [ "$1" = "replay" ]; then
  exec bin/orbcheck replay "$2" "$REPO"
fi
TIER="${2:-quick}"
bin/orbcheck -repo "$REPO" -verif "$(pwd)" -prop "$1" -tier "$TIER"
rc=$?
if [ "$TIER" = "thorough" ] && [ $rc -eq 0 ]; then
  # checker self-test: every mutant and every detected seeded change of this property must still fire
  # (on scratch copies outside /repo and /verif); a silent rule is a checker defect: exit 2, never a VIOLATION
  tools/runmut.sh "$1" || exit 2
fi
exit $rc
