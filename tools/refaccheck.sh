#!/bin/bash
# refaccheck.sh <refac-dir> <name> : confirm a behaviour-preserving refactoring (applies to /repo HEAD, builds, full
# suite passes), store it under /verif/refactors/<name>/ and run EVERY property's quick check on a scratch copy
# with it applied. Every check must stay silent.
set -u
SRC="$1"; NAME="$2"
export GOFLAGS=-mod=mod GOPROXY=off GOSUMDB=off GOTOOLCHAIN=local; unset GOWORK
cd /verif; ./run.sh build || exit 2
W=$(mktemp -d /tmp/orbrefac.XXXXXX); trap 'rm -rf "$W"' EXIT
(cd /repo && git ls-files -z | xargs -0 cp --parents -t "$W")
cd "$W"
if ! patch -p1 -s --no-backup-if-mismatch < "$SRC/patch.diff" >/dev/null 2>&1; then echo "REFAC $NAME: patch does not apply to current HEAD"; exit 7; fi
go build ./... >/dev/null 2>&1 || { echo "REFAC $NAME: does not compile"; exit 6; }
if ! go test -vet=off -count=1 ./... >"$W/.suite" 2>&1; then echo "REFAC $NAME: suite fails: $(grep -m2 '^--- FAIL\|^FAIL' "$W/.suite" | tr '\n' ' ')"; exit 5; fi
mkdir -p /verif/refactors/$NAME; cp "$SRC/patch.diff" /verif/refactors/$NAME/; [ -f "$SRC/notes.txt" ] && cp "$SRC/notes.txt" /verif/refactors/$NAME/
cd /verif
alarms=""
for p in ${PROPS:-$(bin/orbcheck -list)}; do
  [ "$p" = "DBG" ] && continue
  out=$(bin/orbcheck -repo "$W" -verif /verif -prop $p -tier quick -no-evidence 2>&1); rc=$?
  if [ $rc -ne 0 ]; then alarms="$alarms $p[$(echo "$out" | grep -A1 '^VIOLATION' | grep 'kind=' | head -2 | sed 's/^ *//' | cut -c1-150 | tr '\n' ';')]"; fi
done
if [ -z "$alarms" ]; then echo "REFAC $NAME: all checks silent"; echo silent > /verif/refactors/$NAME/result.txt
else echo "REFAC $NAME: ALARMS $alarms"; echo "alarms:$alarms" > /verif/refactors/$NAME/result.txt; fi
