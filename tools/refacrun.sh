#!/bin/bash
# refacrun.sh [filter]: re-run every property's quick check against each stored behaviour-preserving
# refactoring (scratch copies, 4 at a time); all must stay silent.  exit 2 if any check raises an alarm.
set -u
cd /verif; ./run.sh build || exit 2
OC="${ORBCHECK_BIN:-}"; if [ -z "$OC" ]; then OC=$(mktemp /tmp/orbcheck-snap.XXXXXX); cp bin/orbcheck "$OC"; chmod 755 "$OC"; SNAP="$OC"; fi; export OC
export GOFLAGS=-mod=mod GOPROXY=off GOSUMDB=off GOTOOLCHAIN=local; unset GOWORK
W=$(mktemp -d /tmp/orbrefac.XXXXXX); trap 'rm -rf "$W" "${SNAP:-}"' EXIT
one() {
  name="$1"; d="$W/$name"; mkdir -p "$d"
  (cd /repo && git ls-files -z | xargs -0 cp --parents -t "$d")
  if ! (cd "$d" && patch -p1 -s --no-backup-if-mismatch < /verif/refactors/$name/patch.diff >/dev/null 2>&1); then echo "REFAC $name: SKIP (does not apply to the current tree)"; rm -rf "$d"; return; fi
  if ! (cd "$d" && go build ./... >/dev/null 2>&1); then echo "REFAC $name: SKIP (does not compile)"; rm -rf "$d"; return; fi
  alarms=""
  for p in $("$OC" -list); do
    [ "$p" = "DBG" ] && continue
    out=$("$OC" -repo "$d" -verif /verif -prop $p -tier quick -no-evidence 2>&1); rc=$?
    [ $rc -ne 0 ] && alarms="$alarms $p[$(echo "$out" | grep -A1 '^VIOLATION' | grep 'kind=' | head -2 | sed 's/^ *//' | cut -c1-140 | tr '\n' ';')]"
  done
  rm -rf "$d"
  if [ -z "$alarms" ]; then echo "REFAC $name: all checks silent"; echo silent > /verif/refactors/$name/result.txt
  else echo "REFAC $name: ALARMS $alarms"; echo "alarms:$alarms" > /verif/refactors/$name/result.txt; fi
}
export -f one; export W
ls /verif/refactors | grep "${1:-}" | xargs -P 4 -I{} bash -c 'one {}' | sort
n=$(grep -l "^alarms" /verif/refactors/*/result.txt 2>/dev/null | wc -l)
[ "$n" -eq 0 ] || exit 2
