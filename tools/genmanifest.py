#!/usr/bin/env python3
"""Regenerates /verif/MANIFEST.json from the table below (one row per claimed property)."""
import json

CLAIMS = {
 "C01": ("static analysis: float-purity lint over go/ssa (H1), writer/reader table extraction from SSA (T1 type words, member SRID; T1c scanner coercion guard; T2 byte-order arms and order byte; T3 member-size forms of the byte decoders vs GeomLength), loop-completeness lint (D2), no-shared-result points-to check (B2g)",
         "Decided statically: coordinates are only moved/bit-cast on the WKB/EWKB path (H1, for all float64 bit patterns); reader(writer(K)) = K on type words for the seven WKB kinds with both readers identical, members carry SRID 0, a multi geometry is coerced to its member only under len == 1 (T1c), byte-order arms are pure and the order byte is inverse between writer and readers (T1/T2), each byte-slice multi decoder steps over a member by exactly the size GeomLength states for that member kind (T3), Marshal results reference no package-level buffer (B2g); writer member loops cover all members (D2). NOT decided: shapes larger than the enumerated ones; nil members inside multi geometries (outside the stated domain).",
         "DESIGN.md §4 C01"),
 "C02": ("static analysis: type-name/tag/depth table extraction (T5), kind typestate at the coordinates stores, loop lints (D2 member loops, D4 member delegation, L3 container reset), abstract interpretation of the constructors (A)",
         "Decided statically: JSON and BSON decoders map each RFC 7946 type name to a type whose GeoJSONType() and nesting depth match, identically in both; marshal/unmarshal documents name the same members; Ring/Bound/Collection never reach \"coordinates\"; member loops complete; NewGeometry/NewFeature total. NOT decided: float text round trip, properties/ids/foreign members, byte-identical re-marshal.",
         "DESIGN.md §4 C02"),
 "C03": ("static analysis: map-order determinism dataflow (F), run-once/member loop lints (D1, D2), loop-carried alias lint (L1)",
         "Decided statically for all inputs and all map orders: no map iteration order reaches Marshal's output (F). Every collection member/feature loop is complete (D1/D2; addFeature's first-iteration return is the recorded known finding). NOT decided: zigzag arithmetic, ring regrouping, value widening.",
         "DESIGN.md §4 C03"),
 "C04": ("static analysis: keyword/offset/EMPTY/format table extraction from the syntax tree (T4), abstract interpretation of the writer (A), loop lint (D2), no-shared-result points-to check (B2g)",
         "Decided statically: writer and parsers agree on keyword, keyword offset and EMPTY literal for every kind; Ring/Bound written as POLYGON; floats printed with %g/%v and parsed with 64 bits; the writer is total on every kind/shape; Marshal results reference no package-level buffer (B2g). NOT decided: the text grammar (collection splitting on exponents/nesting/EMPTY members, whitespace tolerance) - a round-trip failure there is known and out of reach of this family.",
         "DESIGN.md §4 C04"),
 "C05": ("static analysis: bit-width tracking of decoded counts (E2); path-sensitive abstract interpretation of every decoder entry over hostile byte/string lengths with symbolic decoded counts, modelled protoscan/hex/json primitives and an allocation bound (A)",
         "Decided statically: guard arithmetic on decoded counts cannot wrap in a narrow unsigned type (E2); for every WKB/EWKB byte, scanner and stream decoder, the WKT parsers, the GeoJSON geometry decoders and the MVT decoder, and every input length 0..24 (thorough 0..64): no certain index/slice/nil fault on a path whose branches depend only on attacker-chosen values, and no make() sized by a decoded count beyond 4 x input + 65536 (A). NOT decided: termination, long inputs, total allocation as a number.",
         "DESIGN.md §4 C05"),
 "C06": ("static analysis: inclusion-based points-to (fresh-result B2, no-write B1), abstract interpretation over kinds x degenerate shapes (A), loop lint (D2), closed-box predicate table (T10)",
         "Decided statically: every Clone result is fresh at every nesting level and Clone never writes its argument (B1/B2, all inputs); no certain fault for nil/empty/singleton receivers of the core methods (A); element loops complete (D2); Bound.IsEmpty/Contains/Intersects compare the same axis, strictly and in the rejecting direction (a one-point bound is not empty, the boundary is inside, touching boxes intersect) (T10). NOT decided: symmetry/transitivity of Equal, associativity and absorption of Union beyond the tight-box clause, the sign of Orientation (shoelace arithmetic), shapes larger than the enumerated ones.",
         "DESIGN.md §4 C06"),
 "C07": ("static analysis: points-to effects (B1 no-write, B2 fresh-result) for the line-clipping entries, abstract interpretation over line shapes (A), segment-loop lint (D3), region-code table extraction and open-flag flow (T7)",
         "Decided statically for all inputs: clip.LineString/MultiLineString/MultiPoint never write their argument and the returned pieces never alias it (B1/B2); no certain fault for nil/empty/1..4-vertex lines (A); the clipping loop visits every segment (D3); region codes: closed variant strict (boundary inside), open variant non-strict, same bit per edge everywhere, intersect returns the box edge coordinate unmodified, the open option reaches the open code (T7). NOT decided: where exactly a cut segment meets the box (the interpolated coordinate) and hence total length and idempotence; segments that cross the box without a vertex inside; the strictness of the open-box comparison beyond the region-code table (T7).",
         "DESIGN.md §4 C07"),
 "C08": ("static analysis: abstract interpretation over kinds x degenerate shapes with shape-decided postconditions (A, A-post/H4), loop lints (D1-D3, D5 no early exit from accumulating loops), region-code tables (T7)",
         "Decided statically: no certain fault through any clip entry for any kind x degenerate shape; clip.Geometry yields a nil interface for nil/empty input and never a typed nil inside a non-nil interface (the form mvt Layer.Clip tests); member loops complete. NOT decided: that the clipped ring encloses exactly the inside region (interpolated coordinates, area additivity); rings larger than the enumerated ones.",
         "DESIGN.md §4 C08"),
 "C09": ("static analysis: abstract interpretation of the composing functions with their callees uninterpreted (A-comp: every call of rayIntersect / RingContains / PolygonContains forks the path per possible answer and is logged with argument identities; the result of every path is compared with the stated combination of the logged answers)",
         "Decided statically, for all coordinates and rings of 1..5 vertices, polygons of 1..4 rings, multi-polygons of 0..3 members: RingContains consults every edge of the implicitly closed ring exactly once (consecutive pairs and the closing pair), a boundary hit on any edge gives true, otherwise the result is the parity of the crossings; PolygonContains = outer ring and no hole, MultiPolygonContains = any member, and no answer is returned before the consulted members determine it. NOT decided: what rayIntersect answers for a single segment (degenerate alignments, one-ulp nudge, slope comparison), hence not the numerical independence from start vertex and direction; sizes beyond those enumerated.",
         "DESIGN.md §4 C09"),
 "C10": ("static analysis: segment/member loop-completeness lint (D2, D3), abstract interpretation over kinds x shapes (A)",
         "Decided statically: every segment loop visits every consecutive pair, member loops every member (D2/D3); no certain fault on any kind/shape (A). NOT decided: the shoelace, segment-distance and point-distance formulas themselves, floating-point rounding, shapes larger than the enumerated ones.",
         "DESIGN.md §4 C10"),
 "C11": ("static analysis: abstract interpretation of every public quadtree method over receiver states x boundary arguments with postconditions (A, A-post), reject-before-write dominance on points-to effects (B3), quadtree cell tables (T9), closed-box predicate tables (T10)",
         "Decided statically: no certain fault in Add/Remove/Find/Matching/KNearest*/InBound* on a never-populated, one-point, two-level or emptied tree with k in 0..3, short/long buffers, nil/non-nil filters; empty-tree queries return nil, Remove reports false, k=0 returns nothing (A-post); every write of Add is dominated by the passing edge of the bound test, so a rejected add changes nothing (B3); add/childIndex/visit agree on the child-index bits, comparators and sub-cells (T9); cell pruning and the in-bound filter are strict closed-box tests (T10). NOT decided: coincident points; histories longer than the enumerated ones; k > 2; floating-point rounding of the distance comparisons.",
         "DESIGN.md §4 C11"),
 "C12": ("static analysis: abstract interpretation over kinds x shapes (A), loop lint (D2), points-to no-write analysis of the simplifier configuration (B1)",
         "Decided statically: no certain fault for any kind x degenerate shape through every simplify entry (A); wrappers visit every member (D2); no simplify method writes its receiver, so a simplifier can be reused (B1). NOT decided: the Douglas-Peucker error bound and idempotence, monotonicity in the threshold, lines longer than the enumerated ones.",
         "DESIGN.md §4 C12"),
 "C13": ("static analysis: abstract interpretation of the tile methods with bit-level symbolic integers (each bit a constant, bit i of an unknown input, its negation, or unknown; shifts, masks, or/xor, conversions, +1 on even values, LeadingZeros exact) plus linear symbolic forms, judged against the quadtree identities (A-comp); outward-rounded float interval analysis of the point-to-tile mapping",
         "Decided statically for every X and Y at each zoom (quick: 7 zooms, thorough: 0..30): Quadkey interleaves the bits of X and Y and FromQuadkey inverts it; Children are the four distinct quadrants 2X+dx, 2Y+dy one zoom deeper, Parent and Siblings undo that; Valid is X,Y < 2^zoom; Contains is exactly the ancestor-or-self relation; SharedParent is the deepest common ancestor (first differing level of X or Y); Range and ChildrenInZoomRange are exactly the descendants; At returns X,Y < 2^zoom for every longitude in [-180,180] and every latitude (interval analysis). NOT decided: that At's tile contains the point, Center/Bound round trips, exact sharing of edge coordinates (float identities through the mercator formulas); zooms above 30.",
         "DESIGN.md §4 C13"),
 "C14": ("static analysis: run-once/member/segment loop lints (D1-D3), no early exit from accumulating loops (D5), abstract interpretation over kinds x shapes (A)",
         "Decided statically: every member contributes and the line walk visits every segment (D1-D3); no certain fault for any kind/shape (A). NOT decided: DDA, scan fill, merge arithmetic.",
         "DESIGN.md §4 C14"),
 "C15": ("static analysis: index-preserving-map dataflow over go/ssa (H3), tile-rounding sibling check (H6), discarded-result lint (R1), loop lint (D2), abstract interpretation over kinds x shapes (A)",
         "Decided statically: every projection helper stores f(x[i]) to x[i] for the same index value and from no other element, the bound helper projects exactly its two corners, every member/feature loop is complete, no projected member result is dropped (R1), both tile projections floor each coordinate (H6), no certain fault for any kind/shape. NOT decided: every numeric inverse/rounding claim (mercator closed forms, half-pixel offsets, non-power-of-two extents).",
         "DESIGN.md §4 C15"),
 "C16": ("static analysis: abstract interpretation over 2-d kinds x shapes x orientations (A), loop lint (D2), region-code and corner-table extraction (T7, T8)",
         "Decided statically: no certain fault for any kind x degenerate shape x both orientations (A); member loops complete (D2); smartclip's region code agrees with clip's and treats the boundary as outside (T7); nexts/pointFor corner tables decided completely: single 8-cycles, mutually inverse, correctly oriented, on their edges (T8). NOT decided: that the wrapped rings enclose the same region as plain clipping (smartWrap, the endpoint walk), and the arithmetic of the containment test (polygonContains).",
         "DESIGN.md §4 C16"),
 "C17": ("static analysis: abstract interpretation over line shapes x enumerated counts with postconditions (A, A-post), segment loop lint (D3), last-iteration-wins lint (L2)",
         "Decided statically: no certain fault (negative make, index) for nil/empty/1..4-vertex lines x N in {-1,0,1,2,3,free} (A); non-positive N returns nil and a line of fewer than two vertices comes back as it is (A-post); distance loops visit every segment (D3); the all-equal scan accumulates over every vertex (L2). NOT decided: ToInterval\'s count floor(length/d)+1, zero-length segments (segment lengths are taken positive), floating-point rounding, lines longer than the enumerated ones.",
         "DESIGN.md §4 C17"),
 "C18": ("static analysis: member/segment loop lints (D2, D3), abstract interpretation over kinds x shapes (A)",
         "Decided statically: area/length loops cover every member/segment (D2/D3); no certain fault on any kind/shape (A). NOT decided: the spherical formulas themselves (distance, haversine, bearing, midpoint, ring area), floating-point rounding.",
         "DESIGN.md §4 C18"),
 "C19": ("static analysis: sound may-write analysis (inclusion-based, field-sensitive points-to over go/ssa) of the six query methods",
         "Decided statically for all schedules, all trees, all arguments: every store reachable from Find/Matching/KNearest/KNearestMatching/InBound/InBoundMatching targets a per-call allocation or the caller's buffer; no package-level variable is written. With no shared write there is no race and the tree is unchanged. Assumes the user's FilterFunc and Pointer.Point() are pure and buf is per-goroutine.",
         "DESIGN.md §4 C19"),
 "C20": ("static analysis: kind typestate over go/ssa (K1-K3), sealed-interface compile-fail witness (H5), run-once loop lint (D1), abstract interpretation of every generic entry over kinds x shapes (A), points-to no-write analysis of the read-only generic entries (B1), discarded-result / member-delegation / early-exit / last-iteration lints (R1, D4, D5, L2)",
         "Decided statically: every type switch/assertion over orb.Geometry handles every kind and nil that can reach it; the interface is sealed; no collection loop is cut after its first member; no certain fault in any exported function taking orb.Geometry for nil, all nine kinds and degenerate members at every nesting level; the read-only generic entries (measures, predicates, encoders, covers, Clone, Equal) never write their argument (B1, all inputs). NOT decided: numeric agreement with the typed functions.",
         "DESIGN.md §4 C20"),
}


EXTRA = {  # rules added after seeded changes were missed (DESIGN.md §11/§12); appended to technique and text
 "C01": ("scanner-state must-assign dataflow (G2), capacity-hint use check (T1g), abstract interpretation of encoder then decoders on byte-precise symbolic output (A-comp with bit-level byte provenance: each output byte is a constant or eight identified bits of one coordinate / of the SRID; multi-step: Marshal, then Unmarshal / stream Decode / Scanner.Scan in the same abstract state)", "a reused scanner publishes every field for every row (G2); GeomLength only sizes allocations (T1g); for the enumerated shapes (all nine kinds, empty and nil values, nested collections), every coordinate and the SRID unknown, both byte orders: the byte-slice decoder, the stream decoder and the SQL scanner return the kind, nesting, lengths and the very coordinates that were encoded (ring/bound as one-ring polygon) and the SRID that was written; nil encodes to no bytes; the scanner, for each of its ten destination types, applies exactly the documented coercions and returns the wrong-geometry error otherwise; hex, \\x-hex and SRID-prefix framings decode to the same value (A-comp)"),
 "C02": ("make-then-append lint (L4), points-to no-write analysis of the Marshal methods (B1)", "no slice made with a length is then appended to (L4); Marshal methods do not write the value they encode (B1)"),
 "C03": ("protobuf field/accessor table (T6), plural-method delegation (D4b), no early exit from effectful member loops (D5)", "decoder accessors fit the wire and Go type of each vectortile field (T6); Layers methods delegate per layer (D4b); feature loops do not break out early (D5)"),
 "C05": ("quadratic-copy lint (E3), decoded-non-nil postcondition (A-post), unit-level decoder entries", "no accumulator is re-copied per iteration (E3); a successful WKB decode never returns a typed nil (A-post)"),
 "C06": ("Equal same-kind check (K4), composition over identities and float terms (A-comp: Reverse permutation, Clone content, Bound/Extend/Union tight box with min/max selection and the path's order facts)", "orb.Equal compares g1.(K) only with g2.(K) (K4); for all coordinates and the enumerated small shapes: Reverse puts the vertex from position n-1-i at position i (so twice is the identity), a clone has the kind, nesting, lengths and the very coordinates of the original, and the Min/Max of every kind's Bound (and of Bound.Extend/Union) are selected among the vertices' coordinates and ordered against all of them, the empty bound exactly without vertices (A-comp)"),
 "C08": ("box-intersection table (T11), composition with the member clipper uninterpreted and vertex/order-fact judge of the ring clipper (A-comp)", "clip.Bound is max-of-mins / min-of-maxes of both operands on both axes (T11); MultiPolygon/Polygon/Collection are the members' non-empty clips in order, each member clipped once against the box; for rings of up to 3 (thorough 4) unknown vertices every result vertex that is an input vertex is placed inside the box by the path's comparisons, every other result vertex lies on a box line, and every input vertex the path places inside is in the result (A-comp)"),
 "C07": ("composition with the line clipper uninterpreted and vertex/order-fact judge of the line clipper (A-comp)", "MultiLineString/Collection are the concatenation of the members' clipped pieces in order; for lines of up to 2 (thorough 3) unknown vertices, closed and open box: every result vertex that is an input vertex is placed inside the box by the path's comparisons, every other result vertex lies on a box line, every input vertex the path places inside is in the result, travel order kept (A-comp; interpolated coordinates are left unknown)"),
 "C11": ("multi-step abstract interpretation of Add/Remove histories with a list model per path and order facts over terms (A-comp)", "for 15 (thorough 22) histories of up to 6 operations over points with unknown coordinates in a tree with an unknown bound: Remove answers true exactly for a stored pointer, InBound over the tree's bound returns exactly the pointers added and not removed, InBound over an unknown box returns exactly the stored pointers the path's comparisons place inside it, Find returns nil exactly on an empty tree and otherwise a stored pointer such that every other stored pointer is no closer - by the comparisons made on the path or, when it was pruned without a look, because the path places it outside the square of half-width sqrt(D) around the query for a D that is at least the answer's squared distance; KNearest (k = 1, 2, with and without a distance limit) returns min(k, stored) stored pointers, nearest first, each strictly within the limit, and every stored pointer left out is no closer than the last one returned or outside the limit, by the same two arguments (A-comp; two different inputs are taken to be different points)"),
 "C04": ("trim-before-test sibling rule over SSA (T4b)", "every typed wkt.Unmarshal* hands only trimmed text to the keyword test and the parser (T4b)"),
 "C12": ("area-flag sibling table (T12), compaction-index lint (H7), abstract interpretation of the three simplifiers with the distance/area measures uninterpreted (A-comp)", "rings are simplified with area=true and lines with area=false (T12); kept rings/polygons are stored at the write counter (H7); for lines and rings of up to 5 (thorough 6) unknown vertices, open and closed: the result is a subsequence of the input keeping the first and last vertex, radial neighbours were measured farther apart than the threshold, Visvalingam never returns fewer than the minimum count and keep-N exactly N (A-comp)"),
 "C14": ("range-grow lint (L5), dispatch-delegation check over SSA (K6)", "no loop appends to the slice it ranges over (L5); tilecover.Geometry hands a value of kind K to tilecover.K and to no other kind's function (K6); Collection, MultiPolygon and MultiLineString cover every member exactly once into the result (A-comp)"),
 "C15": ("plural-method delegation (D4b)", "Layers.ProjectTo* call the per-layer method, the projected bound is the box of the two corners (H3)"),
 "C16": ("endpoint-order table (T8b), compaction-index lint (H7), composition with clipRings/smartWrap/polygonContains uninterpreted (A-comp)", "sortableEndpoints.Less orders each side along its varying axis counter-clockwise with an identical tie-break (T8b); Polygon/MultiPolygon assemble wrapped polygons, untouched outer rings and untouched holes in that order, each hole attached through the containment test against the complete list; addToMultiPolygon attaches a ring to the first polygon that contains it (A-comp)"),
 "C17": ("interval enumeration with postcondition (A-post), abstract interpretation of Resample with the distance function uninterpreted and results as rational functions (A-comp)", "a non-positive interval returns nil (A-post); for lines of 2..3 (thorough 4) unknown vertices and N = 1..4 (6): N points, first and last vertex kept, the k-th point is the point of the ORIGINAL line at k/(N-1) of its length as a rational function of coordinates and segment lengths (segment lengths taken positive) (A-comp)"),
 "C18": ("bound-as-polygon check (K5), composition with ringArea/distance uninterpreted and results as rational functions of the parts (A-comp)", "every generic measure handles a Bound through ToRing()/ToPolygon() (K5); polygon area = |outer| - sum |hole|, multi-polygon and collection area = sum over members, geodesic length = the distance function summed over every segment once, as rational functions of the uninterpreted parts (A-comp)"),
 "C10": ("composition with the parts' formulas uninterpreted and results as rational functions of the parts (A-comp)", "polygon area = |outer| - sum |hole| with the matching area-weighted centroid, multi-polygon/collection area = sum over (top-dimensional) members with the area-weighted centroid, length = distance summed over every segment once, distance-from = a measured segment/point distance that the path's comparisons establish as the smallest, every segment measured once; line and multi-line centroids are the length-weighted means of segment midpoints / member centroids, the multi-point centroid the mean of the points (A-comp)"),
 "C20": ("bound-as-polygon (K5), dispatch-delegation (K6), compaction-index (H7), make-then-append (L4), range-grow (L5) lints", "the generic Geometry functions of clip, smartclip, project and tilecover hand kind K to the package's function K (K6); Bound arms of measures/encoders delegate to the polygon form (K5)"),
}

NOT_APPLICABLE = [
]

PENDING = {  # properties whose checks are still being built; listed as not applicable until registered
 "C02": "check under construction (T5 GeoJSON type/tag tables); no static clause armed yet",
 "C04": "check under construction (T4 WKT keyword/format tables); no static clause armed yet",
 "C07": "check under construction (B1 no-write for line clipping, T7 region codes); no static clause armed yet",
 "C08": "check under construction (T7 region codes, H4 typed-nil); no static clause armed yet",
 "C11": "check under construction (G1 nil-root guard, B3 reject-before-write, A on quadtree methods); no static clause armed yet",
 "C15": "check under construction (H3 index-preserving projection, D2); no static clause armed yet",
}

checks = []
for pid in sorted(CLAIMS):
    tech, text, ref = CLAIMS[pid]
    if pid in EXTRA:
        tech = tech + ", " + EXTRA[pid][0]
        text = text.replace(". NOT decided", "; also: " + EXTRA[pid][1] + ". NOT decided", 1) if ". NOT decided" in text else text + " Also: " + EXTRA[pid][1] + "."
    checks.append({
        "property_id": pid,
        "quick_cmd": "./run.sh %s quick" % pid,
        "thorough_cmd": "./run.sh %s thorough" % pid,
        "evidence_file": "evidence/%s.json" % pid,
        "replay_cmd_template": "./run.sh replay {path}",
        "engine": "orbcheck",
        "level_claimed": {"category": "other", "text": text, "design_ref": ref},
        "level_note": "Structural necessary conditions decided statically from /repo's working tree; trusted base: go/types, go/ssa (x/tools v0.29.0) and this checker. The behaviour itself (numeric results, round-trip equality) is not decided.",
        "technique": tech,
    })

na = [{"property_id": p, "reason": r} for p, r in NOT_APPLICABLE]
for p in sorted(PENDING):
    if p not in CLAIMS:
        na.append({"property_id": p, "reason": PENDING[p]})

manifest = {
 "version": 1,
 "setup_cmd": "cd /verif/checker && GOFLAGS=-mod=vendor GOPROXY=off GOSUMDB=off GOTOOLCHAIN=local go build -o /verif/bin/orbcheck .",
 "hooks": {
  "guard": "verif",
  "enable": "none needed: the checks are static analyses of /repo's working tree (go/packages + go/types + go/ssa); nothing is compiled into orb and no orb code is executed",
  "baseline_off_cmd": "cd /repo && GOFLAGS=-mod=mod GOPROXY=off GOSUMDB=off go test -vet=off -count=1 ./...",
  "source_commits": [],
  "add_only": True,
 },
 "engines": [
  {"name": "orbcheck", "path": "checker", "serves_properties": sorted(CLAIMS),
   "kind_free_text": "custom static analyser over go/types + go/ssa of /repo's working tree: typestate, points-to effects, loop lints, table extraction, bit-width tracking, path-sensitive abstract interpretation; mutant corpus under mutants/ (tools/runmut.sh)"}
 ],
 "checks": checks,
 "not_applicable": na,
 "notes": "Every check reloads /repo's working tree (go/packages, GOFLAGS=-mod=mod, offline). Exit 0 held / 1 violation or undecided (VIOLATION line) / 2 checker self-test failure (thorough tier only, never on the unchanged tree). Known findings: known_findings.json. Mutant corpus: mutants/index.json, run with tools/runmut.sh.",
}
json.dump(manifest, open("/verif/MANIFEST.json", "w"), indent=1)
print("claimed:", " ".join(sorted(CLAIMS)), "| not applicable:", " ".join(x["property_id"] for x in na))
