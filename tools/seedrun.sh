#!/bin/bash
# seedrun.sh [name-filter]: for each kept seeded change, apply it to /repo, run the property's quick
# check (or the tier named in meta.json), undo it, and report DETECTED/MISSED (updates seeded/<name>/.detected and .rule).
cd /verif
export GOFLAGS=-mod=mod GOPROXY=off GOSUMDB=off GOTOOLCHAIN=local; unset GOWORK
./run.sh build || exit 2
[ -z "$(git -C /repo status --porcelain)" ] || { echo "/repo has uncommitted changes; refusing"; exit 2; }
for d in seeded/*/; do
  name=$(basename $d)
  case "$name" in *"${1:-}"*) ;; *) continue;; esac
  prop=${name%%-*}
  if ! git -C /repo apply /verif/$d/patch.diff 2>/dev/null; then echo "SEED $name: patch does not apply"; continue; fi
  tier=$(python3 -c "import json,sys; print(json.load(open(sys.argv[1])).get('tier','quick'))" "$d/meta.json" 2>/dev/null || echo quick)
  out=$(bin/orbcheck -repo /repo -verif /verif -prop $prop -tier "$tier" -no-evidence 2>&1); rc=$?
  git -C /repo checkout -- .
  det="MISSED"; [ $rc -eq 1 ] && det="DETECTED"
  rule=$(echo "$out" | grep -A1 "^VIOLATION" | grep "kind=" | head -2 | sed 's/^ *//' | cut -c1-200 | tr '\n' '|')
  python3 - "$d" "$det" "$rule" <<PY
import json,sys
p=sys.argv[1]+"/meta.json"
try:
    m=json.load(open(p))
except Exception:
    m={}
m["check_result"]=sys.argv[2]; m["rules_fired"]=sys.argv[3]
json.dump(m,open(p,"w"),indent=1)
PY
  echo "SEED $name: $det $rule"
done
