#!/bin/bash
# seedcheck.sh <seed-dir> <property> <name>
# Confirms a seeded change independently (fresh worktree of /repo HEAD: applies, builds, suite passes,
# demonstration fails with it and passes without), stores it under /verif/seeded/<name>/ and runs the
# property's quick check against /repo with the change applied (undone straight afterwards).
set -u
SEED="$1"; PROP="$2"; NAME="$3"
export GOFLAGS=-mod=mod GOPROXY=off GOSUMDB=off GOTOOLCHAIN=local; unset GOWORK
WT=/tmp/sv-$NAME
rm -rf "$WT"; git -C /repo worktree prune
git -C /repo worktree add -q --detach "$WT" HEAD || exit 9
cleanup() { git -C /repo worktree remove --force "$WT" 2>/dev/null; rm -rf "$WT"; }
trap cleanup EXIT
place=$(head -1 "$SEED/demo_test.go" | sed -n 's#.*place in: *\([^ ]*\).*#\1#p')
[ -n "$place" ] || { echo "RESULT $NAME: no 'place in:' comment"; exit 8; }
cd "$WT"
if ! git apply "$SEED/patch.diff" 2>/tmp/sv-$NAME.err; then echo "RESULT $NAME: patch does not apply to current HEAD: $(head -c 200 /tmp/sv-$NAME.err)"; exit 7; fi
go build ./... >/dev/null 2>&1 || { echo "RESULT $NAME: does not compile"; exit 6; }
if ! go test -vet=off -count=1 ./... >/tmp/sv-$NAME.suite 2>&1; then echo "RESULT $NAME: existing suite FAILS with the change"; grep -m3 "^--- FAIL\|^FAIL" /tmp/sv-$NAME.suite; exit 5; fi
cp "$SEED/demo_test.go" "$place"
pkgdir=$(dirname "$place")
if go test -vet=off -count=1 ./$pkgdir/ -run . >/tmp/sv-$NAME.demo1 2>&1; then echo "RESULT $NAME: demo PASSES with the change (not a demonstration)"; exit 4; fi
git apply -R "$SEED/patch.diff"
if ! go test -vet=off -count=1 ./$pkgdir/ >/tmp/sv-$NAME.demo2 2>&1; then echo "RESULT $NAME: demo fails WITHOUT the change"; tail -5 /tmp/sv-$NAME.demo2; exit 3; fi
rm -f "$place"
mkdir -p /verif/seeded/$NAME
cp "$SEED/patch.diff" "$SEED/demo_test.go" /verif/seeded/$NAME/
[ -f "$SEED/notes.txt" ] && cp "$SEED/notes.txt" /verif/seeded/$NAME/
cd /verif
if [ -n "${SEED_SCRATCH:-}" ]; then
  # other runs are copying /repo's working tree right now: check the confirmed worktree instead of touching /repo
  (cd "$WT" && git apply "$SEED/patch.diff") || { echo "RESULT $NAME: cannot re-apply in the worktree"; exit 2; }
  out=$(bin/orbcheck -repo "$WT" -verif /verif -prop $PROP -tier quick -no-evidence 2>&1); rc=$?
else
  git -C /repo apply "$SEED/patch.diff" || { echo "RESULT $NAME: cannot apply to /repo"; exit 2; }
  out=$(./run.sh $PROP quick 2>&1); rc=$?
  git -C /repo checkout -- .
fi
det="MISSED"; [ $rc -eq 1 ] && det="DETECTED"
rule=$(echo "$out" | grep -A1 "^VIOLATION" | grep "kind=" | head -3 | sed 's/^ *//' | tr '\n' '|')
python3 - "$NAME" "$PROP" "$det" "$rule" <<'PY'
import json,sys,os,re
name,prop,det,rule=sys.argv[1:5]
p='/verif/seeded/'+name
notes=open(p+'/notes.txt').read() if os.path.exists(p+'/notes.txt') else ''
meta={"name":name,"property":prop,"source":"independent sub-agent given only the property text and a scratch worktree",
 "files_changed":sorted(set(re.findall(r'^\+\+\+ b/(\S+)',open(p+'/patch.diff').read(),re.M))),
 "demonstration":open(p+'/demo_test.go').readline().strip(),
 "needs_to_manifest":notes.strip().split('\n\n')[0][:900],
 "confirmed_by":"tools/seedcheck.sh: fresh worktree of /repo HEAD; git apply; go build ./...; go test -vet=off -count=1 ./... passes; demonstration fails with the change and passes without it",
 "check_result":det,"rules_fired":rule}
json.dump(meta,open(p+'/meta.json','w'),indent=1)
PY
echo "RESULT $NAME: confirmed (applies, builds, suite passes, demo fails with / passes without); $PROP quick => $det $rule"


