module interpdiff

go 1.15

require github.com/paulmach/orb v0.0.0

replace github.com/paulmach/orb => /repo
