// interpdiff prints, as JSON lines, what the real library returns for a fixed
// pseudo-random set of concrete calls.  The checker's abstract interpreter is
// then run on the same calls with known values (orbcheck -concrete <file>) and
// must return the same results: a differential self-test of the interpreter,
// not a check of any property.
package main

import (
	"encoding/json"
	"fmt"
	"math/rand"
	"os"

	"github.com/paulmach/orb"
	"github.com/paulmach/orb/clip"
	"github.com/paulmach/orb/maptile"
	"github.com/paulmach/orb/planar"
	"github.com/paulmach/orb/geo"
	"github.com/paulmach/orb/quadtree"
	"github.com/paulmach/orb/resample"
	"github.com/paulmach/orb/simplify"
)

type val map[string]interface{}

func geom(g orb.Geometry) interface{} {
	if g == nil {
		return val{"kind": "nil"}
	}
	switch x := g.(type) {
	case orb.Point:
		return val{"kind": "Point", "c": []float64{x[0], x[1]}}
	case orb.MultiPoint:
		return val{"kind": "MultiPoint", "c": pts([]orb.Point(x)), "nil": x == nil}
	case orb.LineString:
		return val{"kind": "LineString", "c": pts([]orb.Point(x)), "nil": x == nil}
	case orb.Ring:
		return val{"kind": "Ring", "c": pts([]orb.Point(x)), "nil": x == nil}
	case orb.MultiLineString:
		var m []interface{}
		for _, l := range x {
			m = append(m, geom(l))
		}
		return val{"kind": "MultiLineString", "m": m, "nil": x == nil}
	case orb.Polygon:
		var m []interface{}
		for _, l := range x {
			m = append(m, geom(l))
		}
		return val{"kind": "Polygon", "m": m, "nil": x == nil}
	case orb.MultiPolygon:
		var m []interface{}
		for _, l := range x {
			m = append(m, geom(l))
		}
		return val{"kind": "MultiPolygon", "m": m, "nil": x == nil}
	case orb.Bound:
		return val{"kind": "Bound", "c": [][]float64{{x.Min[0], x.Min[1]}, {x.Max[0], x.Max[1]}}}
	}
	return val{"kind": "?"}
}

func pts(ps []orb.Point) [][]float64 {
	out := [][]float64{}
	for _, p := range ps {
		out = append(out, []float64{p[0], p[1]})
	}
	return out
}

var r = rand.New(rand.NewSource(7))

func rpt() orb.Point { return orb.Point{float64(r.Intn(41) - 15), float64(r.Intn(41) - 15)} }
func rline(n int) orb.LineString {
	l := make(orb.LineString, n)
	for i := range l {
		l[i] = rpt()
	}
	return l
}
func rring(n int, closed bool) orb.Ring {
	l := orb.Ring(rline(n))
	if closed && n > 0 {
		l[n-1] = l[0]
	}
	return l
}

func emit(fn string, args []interface{}, res ...interface{}) {
	b, _ := json.Marshal(val{"fn": fn, "args": args, "res": res})
	fmt.Println(string(b))
}

func main() {
	box := orb.Bound{Min: orb.Point{0, 0}, Max: orb.Point{10, 10}}
	n := 40
	if len(os.Args) > 1 {
		fmt.Sscan(os.Args[1], &n)
	}
	for i := 0; i < n; i++ {
		rg := rring(r.Intn(6), r.Intn(2) == 0)
		emit("clip.Ring", []interface{}{geom(box), geom(rg.Clone())}, geom(clip.Ring(box, rg)))
		ls := rline(r.Intn(5))
		emit("clip.LineString", []interface{}{geom(box), geom(ls.Clone()), val{"kind": "nilslice"}}, geom(clip.LineString(box, ls)))
		pg := orb.Polygon{rring(4, true), rring(4, true)}
		emit("clip.Polygon", []interface{}{geom(box), geom(pg.Clone())}, geom(clip.Polygon(box, pg)))
		rg2 := rring(3+r.Intn(4), true)
		c, a := planar.CentroidArea(rg2)
		emit("planar.CentroidArea", []interface{}{geom(rg2)}, geom(c), a)
		qp := rpt()
		emit("planar.RingContains", []interface{}{geom(rg2), geom(qp)}, planar.RingContains(rg2, qp))
		l2 := rline(2 + r.Intn(5))
		emit("orb.(LineString).Bound", []interface{}{geom(l2)}, geom(l2.Bound()))
		thr := float64(r.Intn(8))
		l3 := rline(3 + r.Intn(5))
		emit("simplify.(*DouglasPeuckerSimplifier).LineString", []interface{}{val{"kind": "dp", "thr": thr}, geom(l3.Clone())}, geom(simplify.DouglasPeucker(thr).LineString(l3)))
		t := maptile.New(uint32(r.Intn(1<<10)), uint32(r.Intn(1<<10)), 10)
		emit("maptile.(Tile).Quadkey", []interface{}{val{"kind": "tile", "x": t.X, "y": t.Y, "z": t.Z}}, t.Quadkey())
		l4 := rline(2 + r.Intn(4))
		np := 1 + r.Intn(6)
		emit("resample.Resample", []interface{}{geom(l4.Clone()), val{"kind": "func", "name": "planar.Distance"}, val{"kind": "int", "v": np}}, geom(resample.Resample(l4, planar.Distance, np)))
		l5 := rline(3 + r.Intn(5))
		emit("simplify.(*VisvalingamSimplifier).LineString", []interface{}{val{"kind": "vis", "thr": thr, "keep": 0}, geom(l5.Clone())}, geom(simplify.VisvalingamThreshold(thr).LineString(l5.Clone())))
		emit("simplify.(*RadialSimplifier).LineString", []interface{}{val{"kind": "radial", "thr": thr}, geom(l5.Clone())}, geom(simplify.Radial(planar.Distance, thr).LineString(l5.Clone())))
		pg2 := orb.Polygon{rring(5, true), rring(4, true)}
		emit("planar.Area", []interface{}{geom(pg2)}, planar.Area(pg2))
		emit("planar.Length", []interface{}{geom(pg2)}, planar.Length(pg2))
		qp2 := rpt()
		emit("planar.DistanceFrom", []interface{}{geom(pg2), geom(qp2)}, planar.DistanceFrom(pg2, qp2))
		emit("geo.Area", []interface{}{geom(pg2)}, geo.Area(pg2))
		emit("geo.Distance", []interface{}{geom(qp2), geom(rg2[0])}, geo.Distance(qp2, rg2[0]))
		b1, b2 := rline(2).Bound(), rline(3).Bound()
		emit("orb.(Bound).Union", []interface{}{geom(b1), geom(b2)}, geom(b1.Union(b2)))
		at := maptile.At(orb.Point{float64(r.Intn(360) - 180), float64(r.Intn(170) - 85)}, 7)
		_ = at
		u := maptile.New(uint32(r.Intn(1<<10)), uint32(r.Intn(1<<10)), 10)
		sp := t.SharedParent(u)
		emit("maptile.(Tile).SharedParent", []interface{}{val{"kind": "tile", "x": t.X, "y": t.Y, "z": t.Z}, val{"kind": "tile", "x": u.X, "y": u.Y, "z": u.Z}}, val{"kind": "tile", "x": sp.X, "y": sp.Y, "z": sp.Z})
	}
	// quadtree: add k points, query a box
	for i := 0; i < n/2; i++ {
		qt := quadtree.New(orb.Bound{Min: orb.Point{-20, -20}, Max: orb.Point{30, 30}})
		var ps []interface{}
		k := 1 + r.Intn(6)
		for j := 0; j < k; j++ {
			p := rpt()
			qt.Add(p)
			ps = append(ps, geom(p))
		}
		b := orb.Bound{Min: orb.Point{float64(r.Intn(20) - 15), float64(r.Intn(20) - 15)}, Max: orb.Point{float64(r.Intn(20) + 5), float64(r.Intn(20) + 5)}}
		var out []interface{}
		for _, p := range qt.InBound(nil, b) {
			out = append(out, geom(p.Point()))
		}
		emit("quadtree:add*,InBound", []interface{}{ps, geom(b)}, out)
	}
	// quadtree: add k points, remove one (or none), nearest / k-nearest from a point
	for i := 0; i < n/2; i++ {
		qt := quadtree.New(orb.Bound{Min: orb.Point{-20, -20}, Max: orb.Point{30, 30}})
		var ps []interface{}
		var pts []orb.Point
		k := 1 + r.Intn(7)
		for j := 0; j < k; j++ {
			p := rpt()
			qt.Add(p)
			ps = append(ps, geom(p))
			pts = append(pts, p)
		}
		rm := r.Intn(k+1) - 1
		if rm >= 0 {
			qt.Remove(pts[rm], nil)
		}
		q := rpt()
		kk := 1 + r.Intn(3)
		var out []interface{}
		for _, p := range qt.KNearest(nil, q, kk) {
			out = append(out, geom(p.Point()))
		}
		if out == nil {
			out = []interface{}{}
		}
		emit("quadtree:add*,remove,KNearest", []interface{}{ps, rm, geom(q), kk}, out)
		if f := qt.Find(q); f != nil {
			emit("quadtree:add*,remove,Find", []interface{}{ps, rm, geom(q), 0}, geom(f.Point()))
		} else {
			emit("quadtree:add*,remove,Find", []interface{}{ps, rm, geom(q), 0}, nil)
		}
	}
	for i := 0; i < n; i++ {
		rg := rring(3+r.Intn(4), r.Intn(2) == 0)
		emit("orb.(Ring).Orientation", []interface{}{geom(rg)}, int(rg.Orientation()))
		a, b, q := rpt(), rpt(), rpt()
		if r.Intn(4) == 0 {
			b = a
		}
		emit("planar.DistanceFromSegmentSquared", []interface{}{geom(a), geom(b), geom(q)}, planar.DistanceFromSegmentSquared(a, b, q))
		emit("planar.Distance", []interface{}{geom(a), geom(q)}, planar.Distance(a, q))
	}
}
