#!/bin/bash
# runmut.sh [name-substring]: apply each mutant to a scratch copy of /repo's working tree and
# require the expected rule to fire (or, for silent mutants, the property to stay quiet).
# exit 0 all as expected, 2 a rule stayed silent on its mutant / fired on a silent rewrite.
set -u
cd "$(dirname "$0")/.."
export GOPROXY=off GOSUMDB=off GOTOOLCHAIN=local GOFLAGS=-mod=mod; unset GOWORK
REPO="${ORB_REPO:-/repo}"
FILTER="${1:-}"
./run.sh build || exit 2
OC="${ORBCHECK_BIN:-}"; if [ -z "$OC" ]; then OC=$(mktemp /tmp/orbcheck-snap.XXXXXX); cp bin/orbcheck "$OC"; chmod 755 "$OC"; SNAP="$OC"; fi; export OC
WORK=$(mktemp -d /tmp/orbmut.XXXXXX)
trap 'rm -rf "$WORK" "${SNAP:-}"' EXIT
fail=0; n=0; skipped=0
run_one() {
  local name="$1" prop="$2" expect="$3" silent="$4" tier="${5:-quick}"
  local d="$WORK/$(basename $name)"
  local patchfile="/verif/mutants/$name.patch"
  case "$name" in seeded/*) patchfile="/verif/$name/patch.diff";; esac
  mkdir -p "$d"
  (cd "$REPO" && git ls-files -z | xargs -0 cp --parents -t "$d" 2>/dev/null)
  if ! (cd "$d" && patch -p1 -s --no-backup-if-mismatch < "$patchfile" >/dev/null 2>&1); then
    echo "SKIP $name (patch does not apply to the current tree)"; rm -rf "$d"; return 3
  fi
  if ! (cd "$d" && go build ./... >/dev/null 2>"$d/.builderr"); then
    echo "SKIP $name (mutant does not compile: $(head -c 200 "$d/.builderr"))"; rm -rf "$d"; return 3
  fi
  if [ "$silent" = "true" ]; then
    out=$("$OC" -repo "$d" -verif "$(pwd)" -prop "$prop" -tier "$tier" -no-evidence 2>&1); rc=$?
    rm -rf "$d"
    if [ $rc -eq 0 ]; then echo "OK   $name: $prop silent on behaviour-preserving rewrite"; return 0; fi
    echo "FAIL $name: $prop raised an alarm on a behaviour-preserving rewrite"; echo "$out" | grep -A2 VIOLATION | head -12; return 1
  fi
  if [ "$expect" = "ANY" ]; then
    out=$("$OC" -repo "$d" -verif "$(pwd)" -prop "$prop" -tier "$tier" -no-evidence 2>&1); rc=$?
    rm -rf "$d"
    if [ $rc -eq 1 ]; then echo "OK   $name: $(echo "$out" | grep -A1 '^VIOLATION' | grep kind= | head -1 | cut -c1-200)"; return 0; fi
    echo "FAIL $name: $prop no longer reports the seeded change"; return 1
  fi
  out=$("$OC" -repo "$d" -verif "$(pwd)" -prop "$prop" -tier "$tier" -expect "$expect" -no-evidence 2>&1); rc=$?
  rm -rf "$d"
  if [ $rc -eq 0 ]; then echo "OK   $name: $(echo "$out" | grep FIRED | head -1 | cut -c1-220)"; return 0; fi
  echo "FAIL $name: $prop/$expect stayed silent"; echo "$out" | head -5; return 1
}
export -f run_one; export WORK REPO
python3 -c "
import json,os,glob
for m in json.load(open('mutants/index.json')):
    if '$FILTER' in m['name'] or '$FILTER' == m['property']:
        print(m['name'], m['property'], m['expect'] or '-', 'true' if m.get('silent') else 'false', m.get('tier','quick'))
for mp in sorted(glob.glob('seeded/*/meta.json')):
    m=json.load(open(mp))
    if m.get('check_result')=='DETECTED' and ('$FILTER' in m['name'] or '$FILTER' == m['property']):
        print('seeded/'+m['name'], m['property'], 'ANY', 'false', m.get('tier','quick'))
" > "$WORK/list"
[ -s "$WORK/list" ] || { echo "no mutant matches '$FILTER'"; exit 0; }
res=$(cat "$WORK/list" | xargs -P 8 -L 1 bash -c 'run_one "$0" "$1" "$2" "$3" "$4"; echo "RC $?"' )
echo "$res" | grep -v '^RC '
nfail=$(echo "$res" | grep -c '^FAIL')
nok=$(echo "$res" | grep -c '^OK')
nskip=$(echo "$res" | grep -c '^SKIP')
echo "mutants: $nok ok, $nfail failed, $nskip skipped"
[ "$nfail" -eq 0 ] || { echo "CHECKER-SELFTEST-FAILED"; exit 2; }
exit 0
