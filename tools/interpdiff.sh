#!/bin/bash
# interpdiff.sh [n]: differential self-test of the checker's abstract interpreter (engine A).
# tools/interpdiff (a scratch Go module importing the library from /repo) records what the real
# library returns for n rounds of pseudo-random concrete calls; `orbcheck concrete` runs the same
# calls in the interpreter with known values and must agree on every result.  This tests the
# checker, it decides no property, and it is not part of any registered command.
set -u
cd "$(dirname "$0")/.."
export GOFLAGS=-mod=mod GOPROXY=off GOSUMDB=off GOTOOLCHAIN=local; unset GOWORK
./run.sh build || exit 2
T=$(mktemp /tmp/interpdiff.XXXXXX)
trap 'rm -f "$T"' EXIT
(cd tools/interpdiff && cp /repo/go.sum . && go run . "${1:-150}") > "$T" || exit 2
bin/orbcheck concrete "$T" "${ORB_REPO:-/repo}"
