#!/usr/bin/env python3
"""mkmut.py NAME PROP EXPECT FILE OLD NEW [FILE OLD NEW ...] [--note TEXT] [--silent]
Creates /verif/mutants/NAME.patch (a single-site source change to /repo, produced by
exact string replacement on the current tree) and registers it in mutants/index.json.
EXPECT is rule[/construct-substring] that must be reported as violated for PROP;
with --silent the mutant is a behaviour-preserving rewrite and PROP must stay silent."""
import sys, os, json, difflib
args = sys.argv[1:]
note = ""
silent = False
if "--silent" in args:
    silent = True; args.remove("--silent")
if "--note" in args:
    i = args.index("--note"); note = args[i+1]; del args[i:i+2]
name, prop, expect = args[:3]
edits = args[3:]
assert len(edits) % 3 == 0 and edits
patch = ""
for i in range(0, len(edits), 3):
    f, old, new = edits[i:i+3]
    old = old.encode().decode('unicode_escape'); new = new.encode().decode('unicode_escape')
    src = open(os.path.join("/repo", f)).read()
    if src.count(old) != 1:
        sys.exit("%s: OLD occurs %d times in %s" % (name, src.count(old), f))
    dst = src.replace(old, new)
    patch += "".join(difflib.unified_diff(src.splitlines(True), dst.splitlines(True), "a/"+f, "b/"+f))
open("/verif/mutants/%s.patch" % name, "w").write(patch)
idx_path = "/verif/mutants/index.json"
idx = json.load(open(idx_path)) if os.path.exists(idx_path) else []
idx = [m for m in idx if m["name"] != name]
idx.append({"name": name, "property": prop, "expect": expect, "silent": silent, "note": note})
idx.sort(key=lambda m: (m["property"], m["name"]))
json.dump(idx, open(idx_path, "w"), indent=1)
print("wrote", name)
