package main

// H3 — index-preserving map.  A projection helper applies the point function
// to every vertex in place: each loop over the geometry stores f(x[i]) back to
// x[i] for the loop's own i, exactly once; the bound helper projects exactly
// its two corners.  Kind, nesting and vertex order are then preserved by
// construction.

import (
	"fmt"
	"go/ast"
	"go/token"
	"go/types"

	"golang.org/x/tools/go/ssa"

	"golang.org/x/tools/go/packages"
)

func ruleIndexPreserving(pkgPrefix string, floor int) ruleFunc {
	return func(c *Ctx) {
		c.R.Rule("H3: in every projection helper, each loop over the geometry consists of one assignment x[i] = f(x[i], ...) with the loop's own index on both sides; project.Bound applies the projection to exactly bound.Min and bound.Max")
		n := 0
		c.P.eachFuncDecl(func(pkg *packages.Package, fd *ast.FuncDecl) {
			key := ShortKey(funcDeclKey(pkg, fd))
			if !inPkgs(pkgPrefix)(key) {
				return
			}
			// bound helper
			if fd.Name.Name == "Bound" && fd.Recv == nil {
				var args []string
				ast.Inspect(fd.Body, func(nd ast.Node) bool {
					call, ok := nd.(*ast.CallExpr)
					if !ok || len(call.Args) != 1 {
						return true
					}
					if id, ok := call.Fun.(*ast.Ident); ok {
						if v, ok := pkg.TypesInfo.Uses[id].(*types.Var); ok {
							if _, isSig := v.Type().Underlying().(*types.Signature); isSig {
								args = append(args, types.ExprString(call.Args[0]))
							}
						}
					}
					return true
				})
				n++
				want := map[string]bool{}
				for _, a := range args {
					want[a] = true
				}
				par := ""
				if fd.Type.Params != nil && len(fd.Type.Params.List) > 0 && len(fd.Type.Params.List[0].Names) > 0 {
					par = fd.Type.Params.List[0].Names[0].Name
				}
				extends := false
				ast.Inspect(fd.Body, func(nd ast.Node) bool {
					if call, ok := nd.(*ast.CallExpr); ok {
						if se, ok := call.Fun.(*ast.SelectorExpr); ok && (se.Sel.Name == "Extend" || se.Sel.Name == "Union") {
							extends = true
						}
						if se, ok := call.Fun.(*ast.SelectorExpr); ok && (se.Sel.Name == "Min" || se.Sel.Name == "Max") {
							if id, ok := se.X.(*ast.Ident); ok && id.Name == "math" {
								extends = true
							}
						}
					}
					return true
				})
				if len(args) == 2 && want[par+".Min"] && want[par+".Max"] && !extends {
					c.R.Bad("H3-bound-corners", key, c.P.Pos(fd.Pos()), "the two projected corners are used as Min and Max as they are: a projection that reverses an axis (tile y grows south) yields an inverted, empty bound; the result must be the box of the two corners (Extend / min-max)")
				} else if len(args) == 2 && want[par+".Min"] && want[par+".Max"] {
					c.R.OK("H3-bound-corners", key, c.P.Pos(fd.Pos()), "projects exactly "+par+".Min and "+par+".Max")
				} else {
					c.R.Bad("H3-bound-corners", key, c.P.Pos(fd.Pos()), fmt.Sprintf("the projected bound must be built from the two projected corners; the projection is applied to %v", args))
				}
			}
		})
		// element stores, on SSA: the value stored to x[i] must be computed from x[i] (same index value) and from no other element of x
		for _, fn := range c.P.Funcs() {
			key := ShortKey(FuncKey(fn))
			if !inPkgs(pkgPrefix)(key) {
				continue
			}
			ord := 0
			for _, b := range fn.Blocks {
				for _, in := range b.Instrs {
					st, ok := in.(*ssa.Store)
					if !ok {
						continue
					}
					ia, ok := st.Addr.(*ssa.IndexAddr)
					if !ok || !c.P.memberSlice(ia.X.Type()) {
						continue
					}
					if _, isPar := ia.X.(*ssa.Parameter); !isPar {
						continue
					}
					n++
					cons := fmt.Sprintf("%s#store(%s[i])", key, ia.X.Name())
					if ord > 0 {
						cons += fmt.Sprintf("#%d", ord)
					}
					ord++
					same, other := 0, ""
					seen := map[ssa.Value]bool{}
					var walk func(v ssa.Value, d int)
					walk = func(v ssa.Value, d int) {
						if v == nil || seen[v] || d > 8 {
							return
						}
						seen[v] = true
						if ld, ok := v.(*ssa.UnOp); ok && ld.Op == token.MUL {
							if la, ok := ld.X.(*ssa.IndexAddr); ok && la.X == ia.X {
								if la.Index == ia.Index {
									same++
								} else {
									other = operandText(la.Index)
								}
								return
							}
						}
						if ins, ok := v.(ssa.Instruction); ok {
							for _, op := range ins.Operands(nil) {
								if *op != nil {
									walk(*op, d+1)
								}
							}
						}
					}
					walk(st.Val, 0)
					pos := c.P.InstrPos(st)
					switch {
					case other != "":
						c.R.Bad("H3-index-preserving", cons, pos, fmt.Sprintf("the value stored to %s[i] is computed from another element (%s[%s]): vertices are not mapped one to one", ia.X.Name(), ia.X.Name(), other))
					case same == 0:
						c.R.Bad("H3-index-preserving", cons, pos, fmt.Sprintf("the value stored to %s[i] does not depend on %s[i]", ia.X.Name(), ia.X.Name()))
					default:
						c.R.OK("H3-index-preserving", cons, pos, fmt.Sprintf("%s[i] = f(%s[i]) for the same index value", ia.X.Name(), ia.X.Name()))
					}
				}
			}
		}
		c.R.Floor("H3-index-preserving", n, floor)
	}
}

// ruleTileRounding (H6): both tile projections (power-of-two and general
// extents) turn planar coordinates into tile integers the same way - math.Floor
// of each coordinate - so that negative (buffer) coordinates round down, not
// toward zero.  Read from the closures stored in the ToTile member.
func ruleTileRounding(c *Ctx) {
	p := c.P
	c.R.Rule("H6: every closure stored in the ToTile member of the MVT projection returns math.Floor(...) for each coordinate (sibling implementations agree; truncation toward zero would shift negative tile coordinates)")
	pk := p.Pkgs[orbPath+"/encoding/mvt"]
	if pk == nil {
		c.R.Unknown("H6-tile-rounding", "encoding/mvt", "", "package not found")
		return
	}
	n := 0
	for _, f := range pk.Syntax {
		ast.Inspect(f, func(nd ast.Node) bool {
			kv, ok := nd.(*ast.KeyValueExpr)
			if !ok {
				return true
			}
			id, ok := kv.Key.(*ast.Ident)
			if !ok || id.Name != "ToTile" {
				return true
			}
			fl, ok := kv.Value.(*ast.FuncLit)
			if !ok {
				return true
			}
			n++
			cons := fmt.Sprintf("encoding/mvt.ToTile#%d", n)
			bad := ""
			ast.Inspect(fl.Body, func(m ast.Node) bool {
				rs, ok := m.(*ast.ReturnStmt)
				if !ok || len(rs.Results) != 1 {
					return true
				}
				cl, ok := ast.Unparen(rs.Results[0]).(*ast.CompositeLit)
				if !ok {
					bad += " the result is not a point literal;"
					return true
				}
				for i, el := range cl.Elts {
					call, ok := ast.Unparen(el).(*ast.CallExpr)
					okFloor := false
					if ok {
						if se, ok := call.Fun.(*ast.SelectorExpr); ok && se.Sel.Name == "Floor" {
							if fn, ok := pk.TypesInfo.Uses[se.Sel].(*types.Func); ok && fn.Pkg().Path() == "math" {
								okFloor = true
							}
						}
					}
					if !okFloor {
						bad += fmt.Sprintf(" coordinate %d is %s, not math.Floor(...);", i, types.ExprString(el))
					}
				}
				return true
			})
			if bad != "" {
				c.R.Bad("H6-tile-rounding", cons, p.Pos(fl.Pos()), "tile coordinates must be rounded down:"+bad)
			} else {
				c.R.OK("H6-tile-rounding", cons, p.Pos(fl.Pos()), "math.Floor on both coordinates")
			}
			return true
		})
	}
	c.R.Floor("H6-tile-rounding", n, 2)
}

// ruleVertexProvenance (H2): a simplifier only drops vertices.  In every
// simplify method, each store into an element of the line stores a value loaded
// from an element of the same line (vertices are moved, never computed), and
// every returned line is the input or a reslice of it.
func ruleVertexProvenance(c *Ctx) {
	p := c.P
	c.R.Rule("H2: in each simplifier's simplify method every store to ls[k] stores a value loaded from ls[j] of the same slice (SSA dataflow through phis), and the returned line is ls or a reslice of ls: outputs are input vertices in input order storage")
	n := 0
	for _, fn := range p.FuncsIn(orbPath + "/simplify") {
		if fn.Name() != "simplify" || fn.Signature.Recv() == nil || len(fn.Params) < 2 {
			continue
		}
		key := ShortKey(FuncKey(fn))
		var ls ssa.Value
		for _, par := range fn.Params {
			if p.KindOf(par.Type()) == "LineString" {
				ls = par
			}
		}
		if ls == nil {
			continue
		}
		fromLine := func(v ssa.Value) bool {
			seen := map[ssa.Value]bool{}
			var ok func(v ssa.Value) bool
			ok = func(v ssa.Value) bool {
				if seen[v] {
					return true
				}
				seen[v] = true
				switch x := v.(type) {
				case *ssa.UnOp:
					if x.Op == token.MUL {
						if ia, isIA := x.X.(*ssa.IndexAddr); isIA && ia.X == ls {
							return true
						}
					}
				case *ssa.Phi:
					for _, e := range x.Edges {
						if !ok(e) {
							return false
						}
					}
					return true
				}
				return false
			}
			return ok(v)
		}
		ord := 0
		for _, b := range fn.Blocks {
			for _, in := range b.Instrs {
				switch x := in.(type) {
				case *ssa.Store:
					ia, isIA := x.Addr.(*ssa.IndexAddr)
					if !isIA || ia.X != ls {
						continue
					}
					n++
					cons := fmt.Sprintf("%s#store#%d", key, ord)
					ord++
					if fromLine(x.Val) {
						c.R.OK("H2-vertex-provenance", cons, p.InstrPos(x), "an input vertex is moved")
					} else {
						c.R.Bad("H2-vertex-provenance", cons, p.InstrPos(x), "a value that is not one of the line's own vertices is stored into the line: the output is no longer a subsequence of the input")
					}
				case *ssa.Return:
					if len(x.Results) == 0 {
						continue
					}
					r := x.Results[0]
					n++
					cons := fmt.Sprintf("%s#return@%d", key, b.Index)
					okRet := r == ls
					if sl, isSl := r.(*ssa.Slice); isSl && sl.X == ls {
						okRet = true
					}
					if okRet {
						c.R.OK("H2-vertex-provenance", cons, p.InstrPos(x), "returns the input line or a reslice of it")
					} else {
						c.R.Bad("H2-vertex-provenance", cons, p.InstrPos(x), "the returned line is not the input or a reslice of it")
					}
				}
			}
		}
	}
	c.R.Floor("H2-vertex-provenance", n, 9)
}
