package main

// H3 — index-preserving map.  A projection helper applies the point function
// to every vertex in place: each loop over the geometry stores f(x[i]) back to
// x[i] for the loop's own i, exactly once; the bound helper projects exactly
// its two corners.  Kind, nesting and vertex order are then preserved by
// construction.

import (
	"fmt"
	"go/ast"
	"go/token"
	"go/types"

	"golang.org/x/tools/go/ssa"

	"golang.org/x/tools/go/packages"
)

func ruleIndexPreserving(pkgPrefix string, floor int) ruleFunc {
	return func(c *Ctx) {
		c.R.Rule("H3: in every projection helper, each loop over the geometry consists of one assignment x[i] = f(x[i], ...) with the loop's own index on both sides; project.Bound applies the projection to exactly bound.Min and bound.Max")
		n := 0
		c.P.eachFuncDecl(func(pkg *packages.Package, fd *ast.FuncDecl) {
			key := ShortKey(funcDeclKey(pkg, fd))
			if !inPkgs(pkgPrefix)(key) {
				return
			}
			// bound helper
			if fd.Name.Name == "Bound" && fd.Recv == nil {
				var args []string
				ast.Inspect(fd.Body, func(nd ast.Node) bool {
					call, ok := nd.(*ast.CallExpr)
					if !ok || len(call.Args) != 1 {
						return true
					}
					if id, ok := call.Fun.(*ast.Ident); ok {
						if v, ok := pkg.TypesInfo.Uses[id].(*types.Var); ok {
							if _, isSig := v.Type().Underlying().(*types.Signature); isSig {
								args = append(args, types.ExprString(call.Args[0]))
							}
						}
					}
					return true
				})
				n++
				want := map[string]bool{}
				for _, a := range args {
					want[a] = true
				}
				par := ""
				if fd.Type.Params != nil && len(fd.Type.Params.List) > 0 && len(fd.Type.Params.List[0].Names) > 0 {
					par = fd.Type.Params.List[0].Names[0].Name
				}
				if len(args) == 2 && want[par+".Min"] && want[par+".Max"] {
					c.R.OK("H3-bound-corners", key, c.P.Pos(fd.Pos()), "projects exactly "+par+".Min and "+par+".Max")
				} else {
					c.R.Bad("H3-bound-corners", key, c.P.Pos(fd.Pos()), fmt.Sprintf("the projected bound must be built from the two projected corners; the projection is applied to %v", args))
				}
			}
		})
		// element stores, on SSA: the value stored to x[i] must be computed from x[i] (same index value) and from no other element of x
		for _, fn := range c.P.Funcs() {
			key := ShortKey(FuncKey(fn))
			if !inPkgs(pkgPrefix)(key) {
				continue
			}
			ord := 0
			for _, b := range fn.Blocks {
				for _, in := range b.Instrs {
					st, ok := in.(*ssa.Store)
					if !ok {
						continue
					}
					ia, ok := st.Addr.(*ssa.IndexAddr)
					if !ok || !c.P.memberSlice(ia.X.Type()) {
						continue
					}
					if _, isPar := ia.X.(*ssa.Parameter); !isPar {
						continue
					}
					n++
					cons := fmt.Sprintf("%s#store(%s[i])", key, ia.X.Name())
					if ord > 0 {
						cons += fmt.Sprintf("#%d", ord)
					}
					ord++
					same, other := 0, ""
					seen := map[ssa.Value]bool{}
					var walk func(v ssa.Value, d int)
					walk = func(v ssa.Value, d int) {
						if v == nil || seen[v] || d > 8 {
							return
						}
						seen[v] = true
						if ld, ok := v.(*ssa.UnOp); ok && ld.Op == token.MUL {
							if la, ok := ld.X.(*ssa.IndexAddr); ok && la.X == ia.X {
								if la.Index == ia.Index {
									same++
								} else {
									other = operandText(la.Index)
								}
								return
							}
						}
						if ins, ok := v.(ssa.Instruction); ok {
							for _, op := range ins.Operands(nil) {
								if *op != nil {
									walk(*op, d+1)
								}
							}
						}
					}
					walk(st.Val, 0)
					pos := c.P.InstrPos(st)
					switch {
					case other != "":
						c.R.Bad("H3-index-preserving", cons, pos, fmt.Sprintf("the value stored to %s[i] is computed from another element (%s[%s]): vertices are not mapped one to one", ia.X.Name(), ia.X.Name(), other))
					case same == 0:
						c.R.Bad("H3-index-preserving", cons, pos, fmt.Sprintf("the value stored to %s[i] does not depend on %s[i]", ia.X.Name(), ia.X.Name()))
					default:
						c.R.OK("H3-index-preserving", cons, pos, fmt.Sprintf("%s[i] = f(%s[i]) for the same index value", ia.X.Name(), ia.X.Name()))
					}
				}
			}
		}
		c.R.Floor("H3-index-preserving", n, floor)
	}
}
