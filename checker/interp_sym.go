package main

// Engine A — symbolic integers decoded from hostile input (stage 2).
// A decoded count is a symbol with an interval; values derived from it by
// constant multiplication/addition stay linear in the symbol; comparisons
// against known values refine the interval on each side of the branch.

import (
	"golang.org/x/tools/go/ssa"
)

type symInfo struct {
	Lo, Hi int64
	Bits   int
}

func (it *Interp) symBinop(s *State, x *ssa.BinOp, a, b IntV) (AV, bool) { return nil, false }

func (it *Interp) symIndexCheck(s *State, x *ssa.IndexAddr, idx IntV, n int) bool { return false }

func (it *Interp) symSliceCheck(s *State, x *ssa.Slice, lo, hi IntV, lok, hok bool, l, h int64, n, c int) bool {
	return false
}

func (it *Interp) symConvert(s *State, x *ssa.Convert, v IntV) (AV, bool) { return nil, false }

func (it *Interp) symRefine(s *State, fr *Frame, x *ssa.BinOp, taken bool) {}

func (it *Interp) symLen(s *State, v AV) (AV, bool) { return nil, false }

func (it *Interp) symRequireLen(s *State, call *ssa.Call, sv SliceV, n int, what string) {}

func (it *Interp) freshFreeInt(s *State, bits int) AV { return IntV{} }

func (it *Interp) allocCheck(s *State, x *ssa.MakeSlice, sz, cp IntV) string { return "" }

func (it *Interp) modelDecoders(s *State, fr *Frame, call *ssa.Call, name string, args []AV) (AV, bool) {
	return nil, false
}
