package main

// Engine A — symbolic integers decoded from hostile input.
//
// A decoded count is a symbol with an interval; values derived from it by
// adding or multiplying with constants stay linear in the symbol (A*sym+B) as
// long as the operation cannot wrap in its static type — if it can, the result
// is a fresh, unconstrained symbol, which is exactly what a wrapped guard is
// worth.  Comparisons against known values are decided from the interval when
// possible and refine it on each side of the branch otherwise.  No constraint
// ever leaves this table: there is no solver.

import (
	"fmt"
	"go/token"
	"go/types"
	"math"

	"golang.org/x/tools/go/ssa"
)

type symInfo struct {
	Lo, Hi  int64 // closed interval (Hi saturates at MaxInt64)
	Bounded bool  // known to be at most proportional to the input length
	Inexact bool  // a branch on this symbol was taken that the interval does not capture
}

func (s *State) sym(id int) *symInfo {
	if s.syms == nil {
		s.syms = map[int]*symInfo{}
	}
	si := s.syms[id]
	if si == nil {
		si = &symInfo{Lo: 0, Hi: math.MaxInt64}
		s.syms[id] = si
	}
	return si
}

func typeRange(t types.Type) (int64, int64) {
	b, ok := t.Underlying().(*types.Basic)
	if !ok {
		return math.MinInt64, math.MaxInt64
	}
	switch b.Kind() {
	case types.Int8:
		return math.MinInt8, math.MaxInt8
	case types.Int16:
		return math.MinInt16, math.MaxInt16
	case types.Int32:
		return math.MinInt32, math.MaxInt32
	case types.Uint8:
		return 0, math.MaxUint8
	case types.Uint16:
		return 0, math.MaxUint16
	case types.Uint32:
		return 0, math.MaxUint32
	case types.Uint, types.Uint64, types.Uintptr:
		return 0, math.MaxInt64 // saturated
	}
	return math.MinInt64, math.MaxInt64
}

func (it *Interp) freshSym(s *State, lo, hi int64, opq bool) IntV {
	it.nextSym++
	id := it.nextSym
	si := s.sym(id)
	si.Lo, si.Hi = lo, hi
	return IntV{Sym: id, A: 1, B: 0, Opq: opq}
}

func (it *Interp) freshFreeInt(s *State, bits int) AV {
	hi := int64(math.MaxInt64)
	if bits < 63 {
		hi = int64(1)<<uint(bits) - 1
	}
	return it.freshSym(s, 0, hi, false)
}

// bounds of a (possibly symbolic) integer in state s.
func (s *State) bounds(v IntV) (lo, hi int64, ok bool) {
	if v.Known {
		return v.V, v.V, true
	}
	if v.Sym <= 0 {
		return 0, 0, false
	}
	si := s.sym(v.Sym)
	mul := func(a, b int64) int64 {
		if a == 0 || b == 0 {
			return 0
		}
		r := a * b
		if r/b != a || (a == math.MaxInt64 || b == math.MaxInt64) {
			if (a > 0) == (b > 0) {
				return math.MaxInt64
			}
			return math.MinInt64
		}
		return r
	}
	add := func(a, b int64) int64 {
		r := a + b
		if b > 0 && r < a {
			return math.MaxInt64
		}
		if b < 0 && r > a {
			return math.MinInt64
		}
		return r
	}
	l, h := mul(v.A, si.Lo), mul(v.A, si.Hi)
	if v.A < 0 {
		l, h = h, l
	}
	return add(l, v.B), add(h, v.B), true
}

func (it *Interp) symBinop(s *State, x *ssa.BinOp, a, b IntV) (AV, bool) {
	if a.Sym <= 0 && b.Sym <= 0 {
		return nil, false
	}
	opq := a.Opq || b.Opq
	tlo, thi := typeRange(x.Type())
	fits := func(lo, hi int64) bool { return lo >= tlo && hi <= thi && hi != math.MaxInt64 && lo != math.MinInt64 }
	fresh := func() AV {
		// wrapped or non-linear: an unconstrained value of the result type
		lo, hi := tlo, thi
		if lo < 0 {
			return IntV{Opq: opq}
		}
		v := it.freshSym(s, lo, hi, opq)
		return v
	}
	alo, ahi, _ := s.bounds(a)
	blo, bhi, _ := s.bounds(b)
	switch x.Op {
	case token.ADD, token.SUB:
		sign := int64(1)
		if x.Op == token.SUB {
			sign = -1
		}
		switch {
		case a.Sym > 0 && b.Known:
			r := IntV{Sym: a.Sym, A: a.A, B: a.B + sign*b.V, Opq: opq}
			if lo, hi, _ := s.bounds(r); fits(lo, hi) {
				return r, true
			}
			return fresh(), true
		case a.Known && b.Sym > 0:
			r := IntV{Sym: b.Sym, A: sign * b.A, B: a.V + sign*b.B, Opq: opq}
			if lo, hi, _ := s.bounds(r); fits(lo, hi) {
				return r, true
			}
			return fresh(), true
		case a.Sym > 0 && b.Sym > 0 && a.Sym == b.Sym:
			r := IntV{Sym: a.Sym, A: a.A + sign*b.A, B: a.B + sign*b.B, Opq: opq}
			if r.A == 0 {
				return intOf(r.B), true
			}
			if lo, hi, _ := s.bounds(r); fits(lo, hi) {
				return r, true
			}
			return fresh(), true
		}
		// two different symbols: keep an interval only
		if a.Sym > 0 && b.Sym > 0 {
			var lo, hi int64
			if sign > 0 {
				lo, hi = alo+blo, ahi+bhi
				if hi < ahi {
					hi = math.MaxInt64
				}
			} else {
				lo, hi = alo-bhi, ahi-blo
			}
			if fits(lo, hi) && lo >= 0 {
				v := it.freshSym(s, lo, hi, opq)
				if s.sym(a.Sym).Bounded && s.sym(b.Sym).Bounded {
					s.sym(v.Sym).Bounded = true
				}
				return v, true
			}
			return fresh(), true
		}
	case token.MUL:
		var sv IntV
		var k int64
		switch {
		case a.Sym > 0 && b.Known:
			sv, k = a, b.V
		case a.Known && b.Sym > 0:
			sv, k = b, a.V
		default:
			return fresh(), true
		}
		if k == 0 {
			return intOf(0), true
		}
		r := IntV{Sym: sv.Sym, A: sv.A * k, B: sv.B * k, Opq: opq}
		if lo, hi, _ := s.bounds(r); fits(lo, hi) {
			return r, true
		}
		return fresh(), true
	case token.SHR, token.QUO:
		if x.Op == token.SHR && a.Sym > 0 && b.Known && b.V >= 0 && b.V < 62 && alo >= 0 && a.A > 0 && a.B >= 0 && a.A%(int64(1)<<uint(b.V)) == 0 {
			// (A*s + B) >> k with 2^k | A: exact
			if si := s.sym(a.Sym); si != nil && si.Lo >= 0 {
				return IntV{Sym: a.Sym, A: a.A >> uint(b.V), B: a.B >> uint(b.V), Opq: opq}, true
			}
		}
		if a.Sym > 0 && b.Known && b.V > 0 && alo >= 0 {
			var lo, hi int64
			if x.Op == token.SHR {
				if b.V >= 63 {
					return intOf(0), true
				}
				lo, hi = alo>>uint(b.V), ahi>>uint(b.V)
			} else {
				lo, hi = alo/b.V, ahi/b.V
			}
			v := it.freshSym(s, lo, hi, opq)
			if s.sym(a.Sym).Bounded {
				s.sym(v.Sym).Bounded = true
			}
			return v, true
		}
		if b.Sym > 0 && (blo <= 0 && bhi >= 0) && x.Op == token.QUO {
			// possible division by zero: not certain
		}
		return fresh(), true
	case token.AND:
		if a.Sym > 0 && b.Known && b.V >= 0 {
			hi := b.V
			if ahi < hi && alo >= 0 {
				hi = ahi
			}
			return it.freshSym(s, 0, hi, opq), true
		}
		if b.Sym > 0 && a.Known && a.V >= 0 {
			return it.freshSym(s, 0, a.V, opq), true
		}
		return fresh(), true
	case token.REM:
		if a.Sym > 0 && b.Known && b.V > 0 && alo >= 0 {
			return it.freshSym(s, 0, b.V-1, opq), true
		}
		return fresh(), true
	case token.SHL, token.OR, token.XOR, token.AND_NOT:
		if x.Op == token.SHL && a.Sym > 0 && b.Known && b.V >= 0 && b.V < 62 {
			r := IntV{Sym: a.Sym, A: a.A << uint(b.V), B: a.B << uint(b.V), Opq: opq}
			if lo, hi, _ := s.bounds(r); fits(lo, hi) {
				return r, true
			}
		}
		return fresh(), true
	case token.EQL, token.NEQ, token.LSS, token.LEQ, token.GTR, token.GEQ:
		okA := a.Known || a.Sym > 0
		okB := b.Known || b.Sym > 0
		if !okA || !okB {
			return BoolV{T: true, F: true, Opq: opq}, true
		}
		if a.Sym > 0 && b.Sym > 0 && a.Sym == b.Sym && a.A == b.A {
			// same symbol, same slope: compare offsets
			d := a.B - b.B
			return boolOf(cmpInt(x.Op, d, 0)), true
		}
		var may [2]bool // [false,true] possible
		switch x.Op {
		case token.LSS:
			may[1], may[0] = alo < bhi, ahi >= blo
		case token.LEQ:
			may[1], may[0] = alo <= bhi, ahi > blo
		case token.GTR:
			may[1], may[0] = ahi > blo, alo <= bhi
		case token.GEQ:
			may[1], may[0] = ahi >= blo, alo < bhi
		case token.EQL:
			may[1], may[0] = !(ahi < blo || alo > bhi), !(alo == ahi && blo == bhi && alo == blo)
		case token.NEQ:
			may[0], may[1] = !(ahi < blo || alo > bhi), !(alo == ahi && blo == bhi && alo == blo)
		}
		return BoolV{T: may[1], F: may[0], Opq: opq}, true
	}
	return nil, false
}

func cmpInt(op token.Token, a, b int64) bool {
	switch op {
	case token.EQL:
		return a == b
	case token.NEQ:
		return a != b
	case token.LSS:
		return a < b
	case token.LEQ:
		return a <= b
	case token.GTR:
		return a > b
	case token.GEQ:
		return a >= b
	}
	return false
}

func (it *Interp) symConvert(s *State, x *ssa.Convert, v IntV) (AV, bool) {
	if v.Sym <= 0 {
		return nil, false
	}
	lo, hi, _ := s.bounds(v)
	tlo, thi := typeRange(x.Type())
	if lo >= tlo && hi <= thi {
		return v, true
	}
	if tlo < 0 {
		return IntV{Opq: v.Opq}, true
	}
	return it.freshSym(s, tlo, thi, v.Opq), true
}

// symRefine narrows the interval of the symbol on the taken side of a comparison.
func (it *Interp) symRefine(s *State, fr *Frame, x *ssa.BinOp, taken bool) {
	av, ok1 := it.val(fr, x.X).(IntV)
	bv, ok2 := it.val(fr, x.Y).(IntV)
	if !ok1 || !ok2 {
		return
	}
	op := x.Op
	if !taken {
		op = map[token.Token]token.Token{token.LSS: token.GEQ, token.GEQ: token.LSS, token.LEQ: token.GTR, token.GTR: token.LEQ, token.EQL: token.NEQ, token.NEQ: token.EQL}[op]
	}
	if op == 0 {
		return
	}
	// plain unknown ints: equality with a constant makes them known
	if !av.Known && av.Sym <= 0 && bv.Known && op == token.EQL {
		it.setInt(s, fr, x.X, bv)
		return
	}
	if !bv.Known && bv.Sym <= 0 && av.Known && op == token.EQL {
		it.setInt(s, fr, x.Y, av)
		return
	}
	flip := map[token.Token]token.Token{token.LSS: token.GTR, token.GTR: token.LSS, token.LEQ: token.GEQ, token.GEQ: token.LEQ, token.EQL: token.EQL, token.NEQ: token.NEQ}
	if av.Known && bv.Sym > 0 {
		av, bv = bv, av
		op = flip[op]
		x = nil
	}
	if av.Sym <= 0 {
		return
	}
	si := s.sym(av.Sym)
	if !bv.Known {
		// symbol vs symbol: a*X+b <= c*Y+d with Y input-bounded makes X input-bounded
		if bv.Sym > 0 && bv.Sym != av.Sym {
			sj := s.sym(bv.Sym)
			switch {
			case (op == token.LSS || op == token.LEQ) && av.A >= 1 && sj.Bounded:
				si.Bounded = true
			case (op == token.GTR || op == token.GEQ) && bv.A >= 1 && si.Bounded:
				sj.Bounded = true
			default:
				si.Inexact = true
				sj.Inexact = true
			}
		} else {
			si.Inexact = true
		}
		return
	}
	// A*sym + B  op  K   ->   sym op' (K-B)/A
	K := bv.V - av.B
	A := av.A
	if A == 0 {
		return
	}
	if A < 0 {
		A, K = -A, -K
		op = flip[op]
	}
	floorDiv := func(a, b int64) int64 {
		q := a / b
		if (a%b != 0) && ((a < 0) != (b < 0)) {
			q--
		}
		return q
	}
	ceilDiv := func(a, b int64) int64 { return -floorDiv(-a, b) }
	switch op {
	case token.LSS: // A*s < K  -> s <= ceil(K/A)-1
		if h := ceilDiv(K, A) - 1; h < si.Hi {
			si.Hi = h
		}
	case token.LEQ:
		if h := floorDiv(K, A); h < si.Hi {
			si.Hi = h
		}
	case token.GTR:
		if l := floorDiv(K, A) + 1; l > si.Lo {
			si.Lo = l
		}
	case token.GEQ:
		if l := ceilDiv(K, A); l > si.Lo {
			si.Lo = l
		}
	case token.EQL:
		if K%A == 0 {
			v := K / A
			si.Lo, si.Hi = v, v
		}
	case token.NEQ:
		if K%A == 0 {
			v := K / A
			if si.Lo == v {
				si.Lo++
			} else if si.Hi == v {
				si.Hi--
			} else {
				// a hole in the middle is not representable; harmless (still a superset)
			}
		}
	}
}

// setInt makes an unknown int known in the environment and in the memory it
// was loaded from.
func (it *Interp) setInt(s *State, fr *Frame, v ssa.Value, k IntV) {
	if _, isConst := v.(*ssa.Const); isConst {
		return
	}
	fr.env[v] = k
	switch x := v.(type) {
	case *ssa.UnOp:
		if x.Op == token.MUL {
			if p, ok := it.val(fr, x.X).(PtrV); ok && !p.Nil && !p.Top {
				if cell, ok := s.heap[p.Cell]; ok && !hasUnknownIndex(p.Path) {
					s.heap[p.Cell] = writePath(cell, p.Path, k)
				}
			}
		}
	case *ssa.Convert:
		// byte(x) == c etc.: propagate through value-preserving conversions
		if src, ok := it.val(fr, x.X).(IntV); ok && !src.Known && src.Sym <= 0 {
			it.setInt(s, fr, x.X, k)
		}
	}
}

func hasUnknownIndex(path []int) bool {
	for _, i := range path {
		if i < 0 {
			return true
		}
	}
	return false
}

// symIndexCheck: is an index certain to be out of range for a slice of length n?
func (it *Interp) symIndexCheck(s *State, x *ssa.IndexAddr, idx IntV, n int) bool {
	if idx.Sym <= 0 {
		return false
	}
	lo, hi, _ := s.bounds(idx)
	if lo >= int64(n) || hi < 0 {
		it.fault(s, "index", x, fmt.Sprintf("index in [%d,%d] out of range for %s of length %d", lo, hi, operandText(x.X), n))
		return true
	}
	// an attacker-chosen value whose interval (exactly what the guards so far allow) reaches beyond
	// the length can be chosen to fault
	if it.Hostile && !idx.Opq && !s.sym(idx.Sym).Inexact && !s.sym(idx.Sym).Bounded && (hi >= int64(n) || lo < 0) {
		it.fault(s, "index", x, fmt.Sprintf("the guards allow an attacker-chosen index in [%d,%d] but %s has length %d", lo, hi, operandText(x.X), n))
		// keep exploring the in-range alternative
		f := it.Faults[len(it.Faults)-1]
		f.Trail = append(f.Trail, trailEntry{Pos: it.p.InstrPos(x), Desc: fmt.Sprintf("decoded value chosen as %d", minI64(hi, int64(n))), Opq: false})
	}
	// execution continues only when the index was in range
	it.assume(s, idx, token.LSS, int64(n))
	return false
}

func minI64(a, b int64) int64 {
	if a < b {
		return a
	}
	return b
}

// assume narrows a symbolic value after an operation that would have faulted otherwise.
func (it *Interp) assume(s *State, v IntV, op token.Token, k int64) {
	if v.Sym <= 0 || v.A <= 0 {
		return
	}
	si := s.sym(v.Sym)
	K := k - v.B
	switch op {
	case token.LSS:
		h := (K - 1) / v.A
		if K-1 < 0 {
			h = -1
		}
		if h < si.Hi && h >= si.Lo {
			si.Hi = h
		}
	case token.LEQ:
		h := K / v.A
		if h < si.Hi && h >= si.Lo {
			si.Hi = h
		}
	}
}

func (it *Interp) symSliceCheck(s *State, x *ssa.Slice, loV, hiV IntV, lok, hok bool, lo, hi int64, n, c int) bool {
	// a symbolic low bound that is certainly beyond the capacity, or a symbolic
	// high bound certainly beyond it
	if !lok && loV.Sym > 0 {
		l, _, _ := s.bounds(loV)
		if l > int64(c) {
			it.fault(s, "slice", x, fmt.Sprintf("slice %s[%s:]: low bound is at least %d, capacity %d", operandText(x.X), boundText(x.Low), l, c))
			return true
		}
		it.assume(s, loV, token.LEQ, int64(c))
	}
	if !hok && hiV.Sym > 0 && x.High != nil {
		l, _, _ := s.bounds(hiV)
		if l > int64(c) {
			it.fault(s, "slice", x, fmt.Sprintf("slice %s[:%s]: high bound is at least %d, capacity %d", operandText(x.X), boundText(x.High), l, c))
			return true
		}
		it.assume(s, hiV, token.LEQ, int64(c))
	}
	return false
}

func (it *Interp) symLen(s *State, v AV) (AV, bool) { return nil, false }

func (it *Interp) symRequireLen(s *State, call *ssa.Call, sv SliceV, n int, what string) {}

// allocCheck: an allocation whose size the attacker controls must stay
// proportional to the input.  Called for every make([]T, n, c).
func (it *Interp) allocCheck(s *State, x *ssa.MakeSlice, sz, cp IntV) string {
	if it.allocLimit == nil {
		return ""
	}
	v := sz
	if cp.Known || cp.Sym > 0 {
		v = cp
	}
	if v.Known {
		return it.allocLimit(v.V, x, s)
	}
	if v.Sym <= 0 {
		return ""
	}
	si := s.sym(v.Sym)
	if si.Bounded || si.Inexact {
		return ""
	}
	_, hi, _ := s.bounds(v)
	return it.allocLimit(hi, x, s)
}
