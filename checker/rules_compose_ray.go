package main

import (
	"fmt"
)

// planar.rayIntersect over every order type of its three points.
//
// The function looks at its arguments through comparisons and one comparison of slopes, so its answer is a
// function of the order type of (s, e, p) on each axis and, where that leaves it open, of the side of the line
// the point is on.  Every order type is built explicitly: a coordinate is a free base plus a sum of positive
// unknowns, equal ranks share the same term, so every comparison between coordinates is decided by the signs of
// the coefficients and the interpreter follows one path - except for the slope comparison where the order type
// does not determine the side, which forks and records the comparison.  math.Nextafter(x, +Inf) is read as x
// plus a positive infinitesimal.
//
// Expected: with lo/hi the ends ordered by x, `on` exactly when p lies on the closed segment; otherwise
// `intersects` exactly when lo.x <= p.x < hi.x and the segment passes above p (never for a vertical segment).

type rayCtx struct {
	rx, ry  [3]int // ranks of s, e, p on each axis
	s, e, p [2]*fterm
}

func rayIntersectSpecs(thorough bool) []composeSpec {
	// weak orderings of three items: rank vectors with contiguous ranks from 0
	var orders [][3]int
	for a := 0; a < 3; a++ {
		for b := 0; b < 3; b++ {
			for c := 0; c < 3; c++ {
				used := map[int]bool{a: true, b: true, c: true}
				ok := true
				for r := 0; r < len(used); r++ {
					if !used[r] {
						ok = false
					}
				}
				if ok {
					orders = append(orders, [3]int{a, b, c})
				}
			}
		}
	}
	rel := func(r [3]int) string {
		names := []string{"s", "e", "p"}
		out := ""
		for lvl := 0; lvl < 3; lvl++ {
			grp := ""
			for i, x := range r {
				if x == lvl {
					if grp != "" {
						grp += "="
					}
					grp += names[i]
				}
			}
			if grp == "" {
				continue
			}
			if out != "" {
				out += "<"
			}
			out += grp
		}
		return out
	}
	var cases []composeCase
	for _, ox := range orders {
		for _, oy := range orders {
			ox, oy := ox, oy
			cases = append(cases, composeCase{"x: " + rel(ox) + ", y: " + rel(oy), func(it *Interp, st *State) ([]AV, interface{}) {
				if it.NonNeg == nil {
					it.NonNeg, it.Positive = map[int]bool{}, map[int]bool{}
				}
				axis := func(r [3]int) [3]FloatV {
					base := it.freeFloat().(FloatV)
					lv := []FloatV{base}
					for k := 1; k < 3; k++ {
						d := it.freeFloat().(FloatV)
						it.NonNeg[d.Sym], it.Positive[d.Sym] = true, true
						it.nextSym++
						lv = append(lv, FloatV{Finite: true, Sym: it.nextSym, Term: termAdd(it.termOf(lv[k-1]), termAtom(d.Sym), 1)})
					}
					return [3]FloatV{lv[r[0]], lv[r[1]], lv[r[2]]}
				}
				xs, ys := axis(ox), axis(oy)
				pt := func(i int) AV {
					return ArrV{N: 2, Elems: []AV{xs[i], ys[i]}, Def: FloatV{Finite: true}}
				}
				ctx := &rayCtx{rx: ox, ry: oy}
				for i, dst := range []*[2]*fterm{&ctx.s, &ctx.e, &ctx.p} {
					*dst = [2]*fterm{it.termOf(xs[i]), it.termOf(ys[i])}
				}
				return []AV{pt(2), pt(0), pt(1)}, ctx
			}})
		}
	}
	return []composeSpec{{
		entry: "planar.rayIntersect", terms: true, cases: cases,
		desc: "on exactly when the point lies on the closed segment; otherwise intersects exactly when lo.x <= p.x < hi.x (the ends ordered by x; never for a vertical segment) and the segment passes above the point - decided from the order type of the three points, and from the recorded slope comparison where the order type leaves the side open; a one-ulp nudge is read as a positive infinitesimal",
		judge: func(it *Interp, cx interface{}, st *State) string {
			ctx := cx.(*rayCtx)
			if len(st.result) != 2 {
				return "two results are expected"
			}
			const S, E, P = 0, 1, 2
			lo, hi := S, E
			if ctx.rx[S] > ctx.rx[E] {
				lo, hi = E, S
			}
			pts := [3][2]*fterm{ctx.s, ctx.e, ctx.p}
			rx, ry := ctx.rx, ctx.ry
			minY, maxY := ry[lo], ry[hi]
			if minY > maxY {
				minY, maxY = maxY, minY
			}
			// expectation: 1 yes, 0 no, -1 open (decided by the side of the line)
			on, hit := 0, 0
			switch {
			case rx[lo] == rx[hi]: // vertical (or a single point)
				if rx[P] == rx[lo] && ry[P] >= minY && ry[P] <= maxY {
					on = 1
				}
			case rx[P] < rx[lo] || rx[P] > rx[hi]:
			case rx[P] == rx[hi]:
				if ry[P] == ry[hi] {
					on = 1
				}
			case rx[P] == rx[lo]:
				if ry[P] == ry[lo] {
					on = 1
				} else if ry[lo] > ry[P] {
					hit = 1
				}
			default: // strictly between the ends on x
				switch {
				case ry[P] > maxY:
				case ry[P] < minY:
					hit = 1
				default:
					on, hit = -1, -1
				}
			}
			gotHit, hitKnown := exactBool(st.result[0])
			gotOn, onKnown := exactBool(st.result[1])
			if !onKnown {
				return "whether the point is on the segment is not decided on this path"
			}
			b2i := func(b bool) int {
				if b {
					return 1
				}
				return 0
			}
			if on >= 0 {
				if !hitKnown {
					return "the order type decides the answer, but the function leaves it to a comparison it could not decide"
				}
				if b2i(gotOn) != on || b2i(gotHit) != hit {
					return fmt.Sprintf("(intersects, on) = (%v, %v), want (%v, %v)", gotHit, gotOn, hit == 1, on == 1)
				}
				return ""
			}
			// the side of the line: cr > 0 when the segment passes above p, 0 when p is on it
			l, h, q := pts[lo], pts[hi], pts[P]
			cr := termAdd(termMul(termAdd(h[1], l[1], -1), termAdd(q[0], l[0], -1)), termMul(termAdd(q[1], l[1], -1), termAdd(h[0], l[0], -1)), -1)
			zero := termConst(0)
			if cr.isZero() { // the three points are collinear whatever the unknowns are
				if !gotOn || hitKnown && gotHit {
					return fmt.Sprintf("(intersects, on) = (%v, %v), but the point is on the segment", gotHit, gotOn)
				}
				return ""
			}
			if r, ok := it.termCompare("<", zero, cr); ok { // decided by the order type after all
				if !hitKnown || gotOn || gotHit != r {
					return fmt.Sprintf("(intersects, on) = (%v, %v), but the order type puts the segment %s the point", gotHit, gotOn, map[bool]string{true: "above", false: "below"}[r])
				}
				return ""
			}
			// what the path's comparisons say about the side: a comparison A op B counts when B - A is cr times
			// a factor that is positive in this order type (the slopes differ by cr / ((p.x-lo.x)(hi.x-lo.x)),
			// a cross-multiplied form by cr itself)
			a, b := termAdd(q[0], l[0], -1), termAdd(h[0], l[0], -1)
			one := termConst(1)
			factors := []*fterm{one, a, b, termMul(a, b), termDiv(one, a), termDiv(one, b), termDiv(one, termMul(a, b))}
			// side: +1 when B - A is a positive multiple of cr, -1 a negative one, 0 unrelated
			side := func(A, B *fterm) int {
				d := termAdd(B, A, -1)
				if d == nil {
					return 0
				}
				for _, f := range factors {
					if f == nil {
						continue
					}
					df := termMul(d, f)
					if termEqual(df, cr) {
						return 1
					}
					if termEqual(termAdd(zero, df, -1), cr) {
						return -1
					}
				}
				return 0
			}
			// reading of "A op B" as a statement about cr: one of ">0", ">=0", "<0", "<=0", "==0", "!=0", ""
			read := func(op string, A, B *fterm, taken bool) string {
				k := side(A, B)
				if k == 0 {
					return ""
				}
				if !taken {
					op = map[string]string{"<": ">=", "<=": ">", ">": "<=", ">=": "<", "==": "!=", "!=": "=="}[op]
				}
				// A op B  <=>  0 op' (B - A)  <=>  (B-A) op'' 0 with the operator mirrored
				m := map[string]string{"<": ">0", "<=": ">=0", ">": "<0", ">=": "<=0", "==": "==0", "!=": "!=0"}[op]
				if k < 0 {
					m = map[string]string{">0": "<0", ">=0": "<=0", "<0": ">0", "<=0": ">=0", "==0": "==0", "!=0": "!=0"}[m]
				}
				return m
			}
			know := map[string]bool{}
			for _, tr := range st.trail {
				if f := tr.Fact; f != nil && f.A != nil && f.B != nil {
					if m := read(f.Op, f.A, f.B, f.Taken); m != "" {
						know[m] = true
					}
				}
			}
			pos := know[">0"] || know[">=0"] && know["!=0"]
			neg := know["<0"] || know["<=0"] && know["!=0"]
			zeroCr := know["==0"] || know[">=0"] && know["<=0"]
			switch {
			case gotOn:
				if !zeroCr {
					return "on is answered, but no comparison on this path establishes that the point is on the line through the segment"
				}
				if hitKnown && gotHit {
					return "both intersects and on are answered"
				}
				return ""
			case hitKnown:
				if gotHit && !pos || !gotHit && !neg {
					return fmt.Sprintf("intersects = %v, but no comparison on this path puts the segment %s the point", gotHit, map[bool]string{true: "above", false: "below"}[gotHit])
				}
				return ""
			}
			// returned as the comparison itself
			bv, _ := st.result[0].(BoolV)
			if bv.Src == nil || bv.Src.A == nil || bv.Src.B == nil {
				return "intersects is not decided and is not a recorded comparison"
			}
			switch m := read(bv.Src.Op, bv.Src.A, bv.Src.B, !bv.Neg); {
			case m == ">0", m == ">=0" && (know["!=0"] || neg || pos):
				return ""
			case m == "":
				return "intersects is returned as a comparison that is not about the side of the line the point is on"
			default:
				return "intersects is returned as a comparison that is true when the segment passes below the point (or when the point is on it)"
			}
		},
	}}
}
