package main

// T3 — WKB member sizes.
//
// The byte-slice decoders of multi geometries step over each decoded member
// with `data = data[E:]`. E must be the encoded size of that member; the
// package states those sizes a second time, independently, in GeomLength
// (used to size the writer's buffer). Both are read as linear size forms
//
//     C + L*len(x) + SUM over elements (C' + L'*len(e) + ...)
//
// from the syntax (constants folded by go/types, a local accumulator that is
// initialised once and incremented in a range loop becomes a SUM term, a call
// of GeomLength(x, false) stands for GeomLength's arm for x's static kind) and
// must agree:
//
//     unmarshalMultiPoint       member advance == size(Point)
//     unmarshalMultiLineString  member advance == size(LineString)
//     unmarshalPolygon          ring advance   == element term of size(Polygon)
//     unmarshalMultiPolygon     member advance == size(Polygon)
//
// and inside GeomLength: size(MultiPoint) = header + size(Point)*len,
// size(MultiLineString) = header + SUM size(LineString), one header constant
// for all counted kinds. An advance that is too short or too long makes the
// second member decode from the wrong offset, so agreement is a necessary
// condition of 'the byte-slice decoder returns what was encoded' for every
// multi geometry with two or more members. The sizes are not compared with
// the bytes the writer really emits (that is T1/H1/D1 territory).

import (
	"fmt"
	"go/ast"
	"go/constant"
	"go/token"
	"go/types"

	"golang.org/x/tools/go/packages"
)

type sizeForm struct {
	C, L int64
	Sum  *sizeForm
}

func (f *sizeForm) String() string {
	if f == nil {
		return "?"
	}
	s := fmt.Sprintf("%d", f.C)
	if f.L != 0 {
		s += fmt.Sprintf(" + %d*len", f.L)
	}
	if f.Sum != nil {
		s += " + SUM(" + f.Sum.String() + ")"
	}
	return s
}

func (f *sizeForm) eq(g *sizeForm) bool {
	if f == nil || g == nil {
		return f == nil && g == nil
	}
	return f.C == g.C && f.L == g.L && f.Sum.eq(g.Sum)
}

func (f *sizeForm) add(g *sizeForm) (*sizeForm, bool) {
	r := &sizeForm{C: f.C + g.C, L: f.L + g.L}
	switch {
	case f.Sum != nil && g.Sum != nil:
		return nil, false
	case f.Sum != nil:
		r.Sum = f.Sum
	default:
		r.Sum = g.Sum
	}
	return r, true
}

func (f *sizeForm) scale(k int64) *sizeForm {
	r := &sizeForm{C: f.C * k, L: f.L * k}
	if f.Sum != nil {
		r.Sum = f.Sum.scale(k)
	}
	return r
}

func (f *sizeForm) isConst() bool { return f.L == 0 && f.Sum == nil }

// sizeEval evaluates integer expressions of one function body to size forms.
type sizeEval struct {
	pkg   *packages.Package
	fd    *ast.FuncDecl
	arms  map[string]*sizeForm // GeomLength arms, nil while they are being built
	depth int
	why   string
}

func (e *sizeEval) fail(format string, a ...interface{}) *sizeForm {
	if e.why == "" {
		e.why = fmt.Sprintf(format, a...)
	}
	return nil
}

func (e *sizeEval) eval(x ast.Expr) *sizeForm {
	x = ast.Unparen(x)
	if tv, ok := e.pkg.TypesInfo.Types[x]; ok && tv.Value != nil && tv.Value.Kind() == constant.Int {
		if v, ok := constant.Int64Val(tv.Value); ok {
			return &sizeForm{C: v}
		}
	}
	e.depth++
	defer func() { e.depth-- }()
	if e.depth > 20 {
		return e.fail("expression too deep")
	}
	switch x := x.(type) {
	case *ast.BinaryExpr:
		a, b := e.eval(x.X), e.eval(x.Y)
		if a == nil || b == nil {
			return nil
		}
		switch x.Op {
		case token.ADD:
			r, ok := a.add(b)
			if !ok {
				return e.fail("two SUM terms in %s", types.ExprString(x))
			}
			return r
		case token.MUL:
			if a.isConst() {
				return b.scale(a.C)
			}
			if b.isConst() {
				return a.scale(b.C)
			}
			return e.fail("non-linear product %s", types.ExprString(x))
		}
		return e.fail("operator %s in %s", x.Op, types.ExprString(x))
	case *ast.CallExpr:
		if id, ok := ast.Unparen(x.Fun).(*ast.Ident); ok {
			switch obj := e.pkg.TypesInfo.Uses[id].(type) {
			case *types.Builtin:
				if obj.Name() == "len" && len(x.Args) == 1 {
					return &sizeForm{L: 1}
				}
			case *types.Func:
				if obj.Name() == "GeomLength" && len(x.Args) == 2 {
					if tv, ok := e.pkg.TypesInfo.Types[x.Args[1]]; !ok || tv.Value == nil || constant.BoolVal(tv.Value) {
						return e.fail("GeomLength called with ewkb != false")
					}
					if e.arms == nil {
						return e.fail("recursive GeomLength arm")
					}
					k := kindName(e.pkg.TypesInfo.TypeOf(x.Args[0]))
					if f := e.arms[k]; f != nil {
						return f
					}
					return e.fail("GeomLength of %q has no size form", k)
				}
			case *types.TypeName:
				// a conversion int(x)
				if len(x.Args) == 1 {
					return e.eval(x.Args[0])
				}
			}
		}
		return e.fail("call %s", types.ExprString(x))
	case *ast.Ident:
		obj, _ := e.pkg.TypesInfo.Uses[x].(*types.Var)
		if obj == nil {
			return e.fail("identifier %s", x.Name)
		}
		return e.evalVar(obj)
	}
	return e.fail("expression %s", types.ExprString(x))
}

func kindName(t types.Type) string {
	if n, ok := types.Unalias(t).(*types.Named); ok {
		return n.Obj().Name()
	}
	return ""
}

// evalVar: the value of a local that is defined once and otherwise only
// incremented; increments inside a range loop become a SUM term. Assignments
// nested in an `if <bool parameter>` are skipped: the form is taken at the
// parameter's false value (ewkb=false).
func (e *sizeEval) evalVar(obj *types.Var) *sizeForm {
	var form *sizeForm
	defs := 0
	ok := true
	defDepth := 0
	var walk func(n ast.Node, depth int)
	walk = func(n ast.Node, depth int) {
		ast.Inspect(n, func(nd ast.Node) bool {
			if !ok {
				return false
			}
			switch s := nd.(type) {
			case *ast.IfStmt:
				if id, isID := ast.Unparen(s.Cond).(*ast.Ident); isID {
					if v, _ := e.pkg.TypesInfo.Uses[id].(*types.Var); v != nil && isParamOf(e.pkg, e.fd, v) {
						if s.Else != nil {
							walk(s.Else, depth)
						}
						return false
					}
				}
			case *ast.RangeStmt:
				if nd != n {
					walk(s.Body, depth+1)
					return false
				}
			case *ast.ForStmt:
				if nd != n && s.Body != nil {
					walk(s.Body, depth+1)
					return false
				}
			case *ast.AssignStmt:
				for i, l := range s.Lhs {
					id, isID := l.(*ast.Ident)
					if !isID {
						continue
					}
					if e.pkg.TypesInfo.Defs[id] != obj && e.pkg.TypesInfo.Uses[id] != obj {
						continue
					}
					if len(s.Rhs) != len(s.Lhs) {
						ok = false
						e.fail("%s assigned from a multi-value expression", id.Name)
						return false
					}
					switch s.Tok {
					case token.DEFINE, token.ASSIGN:
						defs++
						defDepth = depth
						if defs > 1 || form != nil {
							ok = false
							e.fail("%s assigned more than once", id.Name)
							return false
						}
						form = e.eval(s.Rhs[i])
						if form == nil {
							ok = false
						}
					case token.ADD_ASSIGN:
						inc := e.eval(s.Rhs[i])
						if inc == nil || form == nil {
							ok = false
							e.fail("%s incremented before it is defined", id.Name)
							return false
						}
						if depth > defDepth {
							if form.Sum != nil {
								ok = false
								e.fail("%s incremented in two loops", id.Name)
								return false
							}
							form = &sizeForm{C: form.C, L: form.L, Sum: inc}
						} else {
							var aok bool
							form, aok = form.add(inc)
							if !aok {
								ok = false
								e.fail("two SUM terms for %s", id.Name)
							}
						}
					default:
						ok = false
						e.fail("%s updated with %s", id.Name, s.Tok)
					}
				}
			case *ast.IncDecStmt, *ast.UnaryExpr:
				var target ast.Expr
				if ids, isInc := s.(*ast.IncDecStmt); isInc {
					target = ids.X
				} else if u := s.(*ast.UnaryExpr); u.Op == token.AND {
					target = u.X
				}
				if id, isID := target.(*ast.Ident); isID && e.pkg.TypesInfo.Uses[id] == obj {
					ok = false
					e.fail("%s modified by ++/-- or has its address taken", id.Name)
				}
			case *ast.ValueSpec:
				for i, id := range s.Names {
					if e.pkg.TypesInfo.Defs[id] != obj {
						continue
					}
					defs++
					if i < len(s.Values) {
						form = e.eval(s.Values[i])
						if form == nil {
							ok = false
						}
					} else {
						form = &sizeForm{}
					}
				}
			}
			return true
		})
	}
	walk(e.fd.Body, 0)
	if !ok {
		return nil
	}
	if form == nil {
		return e.fail("%s has no definition in %s", obj.Name(), e.fd.Name.Name)
	}
	return form
}

func isParamOf(pkg *packages.Package, fd *ast.FuncDecl, v *types.Var) bool {
	for _, f := range fd.Type.Params.List {
		for _, n := range f.Names {
			if pkg.TypesInfo.Defs[n] == v {
				return true
			}
		}
	}
	return false
}

// geomLengthArms reads GeomLength's type switch: kind -> size form of the
// arm's return expression (at ewkb=false).
func geomLengthArms(pkg *packages.Package, fd *ast.FuncDecl) (map[string]*sizeForm, map[string]string) {
	arms := map[string]*sizeForm{}
	why := map[string]string{}
	type arm struct {
		kind string
		cc   *ast.CaseClause
	}
	var list []arm
	ast.Inspect(fd.Body, func(n ast.Node) bool {
		ts, ok := n.(*ast.TypeSwitchStmt)
		if !ok {
			return true
		}
		for _, st := range ts.Body.List {
			cc := st.(*ast.CaseClause)
			for _, t := range cc.List {
				if k := kindName(pkg.TypesInfo.TypeOf(t)); k != "" {
					list = append(list, arm{k, cc})
				}
			}
		}
		return false
	})
	// two passes so that arms calling GeomLength of an already known kind resolve
	for pass := 0; pass < 2; pass++ {
		for _, a := range list {
			if arms[a.kind] != nil {
				continue
			}
			var ret *ast.ReturnStmt
			for _, st := range a.cc.Body {
				if r, ok := st.(*ast.ReturnStmt); ok {
					ret = r
				}
			}
			if ret == nil || len(ret.Results) != 1 {
				why[a.kind] = "arm does not end in a single-value return"
				continue
			}
			ev := &sizeEval{pkg: pkg, fd: fd, arms: arms}
			// locals of an arm are looked up inside the arm only
			armFd := *fd
			armFd.Body = &ast.BlockStmt{List: append(outerStmts(fd, a.cc), a.cc.Body...)}
			ev.fd = &armFd
			f := ev.eval(ret.Results[0])
			if f == nil {
				why[a.kind] = ev.why
				continue
			}
			arms[a.kind] = f
			delete(why, a.kind)
		}
	}
	return arms, why
}

// outerStmts: the statements of fd's body that precede the type switch
// containing cc (the ewkbExtra prologue).
func outerStmts(fd *ast.FuncDecl, cc *ast.CaseClause) []ast.Stmt {
	var out []ast.Stmt
	for _, st := range fd.Body.List {
		if st.Pos() <= cc.Pos() && cc.End() <= st.End() {
			break
		}
		out = append(out, st)
	}
	return out
}

// memberAdvance finds `x = x[E:]` on a []byte parameter inside a loop of fd.
func memberAdvance(pkg *packages.Package, fd *ast.FuncDecl) (ast.Expr, token.Pos, int) {
	var found ast.Expr
	var pos token.Pos
	n := 0
	var walk func(nd ast.Node, inLoop bool)
	walk = func(nd ast.Node, inLoop bool) {
		ast.Inspect(nd, func(m ast.Node) bool {
			switch s := m.(type) {
			case *ast.ForStmt:
				if m != nd {
					walk(s.Body, true)
					return false
				}
			case *ast.RangeStmt:
				if m != nd {
					walk(s.Body, true)
					return false
				}
			case *ast.AssignStmt:
				if !inLoop || len(s.Lhs) != 1 || len(s.Rhs) != 1 || s.Tok != token.ASSIGN {
					return true
				}
				l, ok := s.Lhs[0].(*ast.Ident)
				se, ok2 := ast.Unparen(s.Rhs[0]).(*ast.SliceExpr)
				if !ok || !ok2 || se.Low == nil || se.High != nil {
					return true
				}
				r, ok := ast.Unparen(se.X).(*ast.Ident)
				if !ok || pkg.TypesInfo.Uses[r] != pkg.TypesInfo.Uses[l] {
					return true
				}
				v, _ := pkg.TypesInfo.Uses[l].(*types.Var)
				if v == nil || !isParamOf(pkg, fd, v) {
					return true
				}
				n++
				found, pos = se.Low, s.Pos()
			}
			return true
		})
	}
	walk(fd.Body, false)
	return found, pos, n
}

func ruleMemberSizes(c *Ctx) {
	p := c.P
	const rule = "T3-member-size"
	c.R.Rule("T3: the byte-slice decoders' per-member advance (`data = data[E:]` in the member loop) and GeomLength's arms are read as linear size forms C + L*len + SUM(...) and must agree: unmarshalMultiPoint==size(Point), unmarshalMultiLineString==size(LineString), unmarshalPolygon==element term of size(Polygon), unmarshalMultiPolygon==size(Polygon); inside GeomLength size(MultiPoint)=header+size(Point)*len, size(MultiLineString)=header+SUM size(LineString), one header constant")
	pk, gl := findFuncDecl(p, wkbPkg, "GeomLength")
	if gl == nil {
		c.R.Unknown(rule, "wkbcommon.GeomLength", "", "not found")
		return
	}
	arms, why := geomLengthArms(pk, gl)
	for _, k := range []string{"Point", "MultiPoint", "LineString", "MultiLineString", "Polygon"} {
		if arms[k] == nil {
			c.R.Unknown(rule, "wkbcommon.GeomLength#"+k, p.Pos(gl.Pos()), "size form not readable: "+why[k])
			return
		}
	}
	n := 0
	check := func(cons, pos string, got, want *sizeForm, what string) {
		n++
		if got.eq(want) {
			c.R.OK(rule, cons, pos, fmt.Sprintf("%s: %s", what, got))
		} else {
			c.R.Bad(rule, cons, pos, fmt.Sprintf("%s is %s but the encoded size is %s", what, got, want))
		}
	}
	glPos := p.Pos(gl.Pos())
	hdr := arms["LineString"].C
	check("wkbcommon.GeomLength#MultiPoint", glPos, arms["MultiPoint"], &sizeForm{C: hdr, L: arms["Point"].C}, "size(MultiPoint) vs header + size(Point)*len")
	check("wkbcommon.GeomLength#MultiLineString", glPos, arms["MultiLineString"], &sizeForm{C: hdr, Sum: arms["LineString"]}, "size(MultiLineString) vs header + SUM size(LineString)")
	check("wkbcommon.GeomLength#Polygon-header", glPos, &sizeForm{C: arms["Polygon"].C}, &sizeForm{C: hdr}, "header constant of size(Polygon)")
	if arms["Polygon"].Sum == nil || arms["Polygon"].L != 0 {
		c.R.Bad(rule, "wkbcommon.GeomLength#Polygon", glPos, "size(Polygon) has no per-ring term: "+arms["Polygon"].String())
		return
	}

	for _, d := range []struct {
		fn   string
		want *sizeForm
		what string
	}{
		{"unmarshalMultiPoint", arms["Point"], "member advance vs size(Point)"},
		{"unmarshalMultiLineString", arms["LineString"], "member advance vs size(LineString)"},
		{"unmarshalPolygon", arms["Polygon"].Sum, "ring advance vs per-ring term of size(Polygon)"},
		{"unmarshalMultiPolygon", arms["Polygon"], "member advance vs size(Polygon)"},
	} {
		cons := "wkbcommon." + d.fn
		dpk, fd := findFuncDecl(p, wkbPkg, d.fn)
		if fd == nil {
			c.R.Unknown(rule, cons, "", "decoder not found")
			continue
		}
		adv, pos, cnt := memberAdvance(dpk, fd)
		if cnt != 1 {
			c.R.Unknown(rule, cons, p.Pos(fd.Pos()), fmt.Sprintf("%d member advances `data = data[E:]` found in a loop, want 1", cnt))
			continue
		}
		ev := &sizeEval{pkg: dpk, fd: fd, arms: arms}
		got := ev.eval(adv)
		if got == nil {
			c.R.Unknown(rule, cons, p.Pos(pos), "advance "+types.ExprString(adv)+" not readable as a size form: "+ev.why)
			continue
		}
		check(cons, p.Pos(pos), got, d.want, d.what)
	}
	c.R.Floor(rule, n, 7)
}
