package main

// C14, the line walk: the tile of a segment's start is always in the cover.
//
// tilecover.line walks every segment from the tile of its start; it skips the
// add when the tile equals the one added last (a sentinel before the first
// add).  With maptile.Fraction and maptile.New left uninterpreted and the start
// and stop given disjoint ranges inside the tile square (so the segment is not
// the skipped zero-length one), interval analysis must decide the sentinel
// comparison: on every path the first tile constructed is built from the
// start's range at the given zoom, before any step of the walk.

import (
	"fmt"

	"golang.org/x/tools/go/ssa"
)

type lineCtx struct{ ring bool }

func coverLineSpecs(thorough bool) []composeSpec {
	pkg := "maptile/tilecover."
	type rng struct{ lo, hi float64 }
	// start and stop ranges: (x of start, y of start, x of stop, y of stop)
	layouts := [][4]rng{
		{{0, 100}, {0, 100}, {200, 300}, {200, 300}},             // up and to the right, start may be tile 0/0
		{{200, 300}, {200, 300}, {0, 100}, {0, 100}},             // down and to the left, stop may be tile 0/0
		{{0, 100}, {200, 300}, {200, 300}, {0, 100}},             // mixed directions
		{{0, 100}, {0, 100}, {200, 300}, {0, 100}},               // dy may be zero
		{{0, 100}, {0, 100}, {0, 100}, {200, 300}},               // dx may be zero
		{{0.25, 0.75}, {0.25, 0.75}, {1.25, 1.75}, {0.25, 0.75}}, // start inside tile 0/0
	}
	var cases []composeCase
	for li, l := range layouts {
		for _, ring := range []bool{false, true} {
			li, l, ring := li, l, ring
			cases = append(cases, composeCase{fmt.Sprintf("one segment, layout %d, ring list %v", li, ring), func(it *Interp, s *State) ([]AV, interface{}) {
				g := it.buildGeom(s, pts("LineString", 2))
				set := MapV{Cell: it.newCell(s, TopV{})}
				var rl AV = SliceV{Nil: true}
				if ring {
					rl = topOf(it.p.funcByShortKey(pkg+"line").Signature.Params().At(3).Type(), false)
				}
				s.notes = map[string]AV{"layout": intOf(int64(li))}
				_ = l
				return []AV{set, g, intOf(12), rl}, &lineCtx{ring: ring}
			}})
		}
	}
	fraction := func(fn *ssa.Function) oracleFunc {
		return func(it *Interp, s *State, _ []AV) [][]AV {
			li := 0
			if v, ok := s.notes["layout"].(IntV); ok {
				li = int(v.V)
			}
			k := len(eventsOf(s, "maptile.Fraction")) % 2
			x := it.freeFloat().(FloatV)
			y := it.freeFloat().(FloatV)
			it.setInterval(s, x, layouts[li][2*k].lo, layouts[li][2*k].hi)
			it.setInterval(s, y, layouts[li][2*k+1].lo, layouts[li][2*k+1].hi)
			return [][]AV{{ArrV{N: 2, Elems: []AV{x, y}}}}
		}
	}
	newTile := func(fn *ssa.Function) oracleFunc {
		res := fn.Signature.Results()
		return func(it *Interp, s *State, _ []AV) [][]AV {
			return [][]AV{{topOf(res.At(0).Type(), false)}}
		}
	}
	return []composeSpec{{
		entry: pkg + "line", cases: cases, requires: []string{"maptile.New", "maptile.Fraction"}, noLiteralOf: "maptile.Tile", intervals: true, anyPath: true, skipTruncated: true, maxVisits: 3,
		desc:    "the tile of a segment's start is constructed first, from the start's coordinates at the given zoom, on every path of a segment that is not zero-length (interval analysis of the 'same tile as last time' sentinel)",
		oracles: map[string]func(*ssa.Function) oracleFunc{"maptile.Fraction": fraction, "maptile.New": newTile},
		judge: func(_ *Interp, cx interface{}, st *State) string {
			li := 0
			if v, ok := st.notes["layout"].(IntV); ok {
				li = int(v.V)
			}
			evs := eventsOf(st, "maptile.New")
			if len(evs) == 0 {
				return "no tile is constructed for a segment that is not zero-length: the start's tile is missing from the cover"
			}
			first := evs[0]
			if len(first.Args) != 3 {
				return "maptile.New is not called with (x, y, zoom)"
			}
			if z, ok := first.Args[2].(IntV); !ok || !z.Known || z.V != 12 {
				return "the first tile is not constructed at the given zoom"
			}
			for c := 0; c < 2; c++ {
				v, ok := first.Args[c].(IntV)
				if !ok {
					return "the first tile's coordinate is not an integer"
				}
				lo, hi, ok := st.bounds(v)
				if !ok {
					return fmt.Sprintf("the range of the first tile's coordinate %d is not determined", c)
				}
				want := layouts[li][c]
				if float64(lo) < want.lo-1 || float64(hi) > want.hi+1 {
					return fmt.Sprintf("the first tile's coordinate %d ranges over [%d, %d], outside the start's range [%g, %g]: the first tile constructed is not the start's", c, lo, hi, want.lo, want.hi)
				}
			}
			return ""
		},
	}}
}
