package main

// C03, feature ids: a non-negative integer id survives the conversion.
//
// mvt.convertIntID turns a signed id into the *uint64 the tile stores: every
// id >= 0 (0 included) must come back as a pointer to that same value, every
// negative id as nil (ids are unsigned in the format).  The id is an unknown
// with a range; the sign test must be decided by the range on every path.

import (
	"go/types"
	"math"
)

type idCtx struct {
	neg bool
	sym int
}

func mvtIDSpecs(thorough bool) []composeSpec {
	mk := func(name string, lo, hi int64, neg bool) composeCase {
		return composeCase{name, func(it *Interp, s *State) ([]AV, interface{}) {
			v := it.freshSym(s, lo, hi, false)
			return []AV{v}, &idCtx{neg: neg, sym: v.Sym}
		}}
	}
	type idKind struct {
		k      types.BasicKind
		lo, hi int64
	}
	kinds := []idKind{
		{types.Int, 0, math.MaxInt64}, {types.Int8, 0, math.MaxInt8}, {types.Int16, 0, math.MaxInt16}, {types.Int32, 0, math.MaxInt32}, {types.Int64, 0, math.MaxInt64},
		{types.Uint, 0, math.MaxInt64}, {types.Uint8, 0, math.MaxUint8}, {types.Uint16, 0, math.MaxUint16}, {types.Uint32, 0, math.MaxUint32}, {types.Uint64, 0, math.MaxInt64},
	}
	var dispatch []composeCase
	for _, k := range kinds {
		k := k
		dispatch = append(dispatch, composeCase{"an id >= 0 of type " + types.Typ[k.k].Name(), func(it *Interp, s *State) ([]AV, interface{}) {
			v := it.freshSym(s, k.lo, k.hi, false)
			return []AV{IfaceV{Typ: types.Typ[k.k], Val: v}}, &idCtx{sym: v.Sym}
		}})
	}
	dispatchSpec := composeSpec{
		entry: "encoding/mvt.convertID", anyPath: true, cases: dispatch,
		desc: "an id >= 0 of every signed and unsigned integer type is stored (the result is not nil)",
		judge: func(_ *Interp, cx interface{}, st *State) string {
			p, ok := st.result[0].(PtrV)
			if !ok || p.Top {
				return "the result is not a known pointer"
			}
			if p.Nil || p.MayNil {
				return "an integer id >= 0 of this type is dropped (nil) on this path"
			}
			return ""
		},
	}
	return []composeSpec{dispatchSpec, {
		entry: "encoding/mvt.convertIntID", anyPath: true, optional: true,
		cases: []composeCase{
			mk("any id >= 0", 0, math.MaxInt64, false),
			mk("id 0..1", 0, 1, false),
			mk("any id < 0", math.MinInt64, -1, true),
		},
		desc: "an id >= 0 (0 included) is stored as a pointer to the same value, a negative id is dropped (nil)",
		judge: func(_ *Interp, cx interface{}, st *State) string {
			ctx := cx.(*idCtx)
			p, ok := st.result[0].(PtrV)
			if !ok || p.Top {
				return "the result is not a known pointer"
			}
			if ctx.neg {
				if !p.Nil {
					return "a negative id is stored"
				}
				return ""
			}
			if p.Nil || p.MayNil {
				return "an id >= 0 is dropped (nil) on this path"
			}
			v, ok := st.heap[p.Cell].(IntV)
			if !ok || v.Known || v.Sym != ctx.sym || v.A != 1 || v.B != 0 {
				return "the stored id is not the given value"
			}
			return ""
		},
	}}
}
