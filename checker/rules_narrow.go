package main

// E2 — narrow guard arithmetic.  An unsigned value decoded from hostile input
// is tracked by the number of bits it may need (Uint32 -> 32, x>>k -> -k,
// x&m -> bits(m), x*c -> exact product bound, x<<k -> +k, x+y -> max+1).  An
// arithmetic result that may need more bits than its type holds wraps; if that
// result then guards a length comparison, a slice bound or an allocation size
// the guard can be bypassed.

import (
	"fmt"
	"go/constant"
	"go/token"
	"go/types"
	"math/big"

	"golang.org/x/tools/go/ssa"
)

func uintWidth(t types.Type) int {
	b, ok := t.Underlying().(*types.Basic)
	if !ok || b.Info()&types.IsUnsigned == 0 {
		return 0
	}
	switch b.Kind() {
	case types.Uint8:
		return 8
	case types.Uint16:
		return 16
	case types.Uint32:
		return 32
	case types.Uint64, types.Uint, types.Uintptr:
		return 64
	}
	return 0
}

type bitsCtx struct {
	memo map[ssa.Value]*big.Int // max value
	busy map[ssa.Value]bool
}

func maxOfWidth(w int) *big.Int {
	m := new(big.Int).Lsh(big.NewInt(1), uint(w))
	return m.Sub(m, big.NewInt(1))
}

// maxVal returns an upper bound of an unsigned value, ignoring wrap-around
// (that is the point: the bound may exceed the type).
func (bc *bitsCtx) maxVal(v ssa.Value) *big.Int {
	w := uintWidth(v.Type())
	if w == 0 {
		return nil
	}
	if m, ok := bc.memo[v]; ok {
		return m
	}
	if bc.busy[v] {
		return maxOfWidth(w)
	}
	bc.busy[v] = true
	defer delete(bc.busy, v)
	res := maxOfWidth(w)
	switch x := v.(type) {
	case *ssa.Const:
		if x.Value != nil && x.Value.Kind() == constant.Int {
			if bi, ok := constant.Val(x.Value).(*big.Int); ok {
				res = new(big.Int).Set(bi)
			} else if i, ok := constant.Val(x.Value).(int64); ok {
				res = big.NewInt(i)
			}
		}
	case *ssa.BinOp:
		a, b := bc.maxVal(x.X), bc.maxVal(x.Y)
		switch x.Op {
		case token.MUL:
			if a != nil && b != nil {
				res = new(big.Int).Mul(a, b)
			}
		case token.ADD:
			if a != nil && b != nil {
				res = new(big.Int).Add(a, b)
			}
		case token.SHL:
			if k, ok := constShift(x.Y); ok && a != nil {
				res = new(big.Int).Lsh(a, k)
			}
		case token.SHR:
			if k, ok := constShift(x.Y); ok && a != nil {
				res = new(big.Int).Rsh(a, k)
			}
		case token.AND:
			if a != nil && b != nil {
				if a.Cmp(b) < 0 {
					res = a
				} else {
					res = b
				}
			}
		case token.QUO, token.REM, token.SUB, token.OR, token.XOR, token.AND_NOT:
			if a != nil {
				res = a
				if (x.Op == token.OR || x.Op == token.XOR) && b != nil {
					// bound by the larger bit length
					l := a.BitLen()
					if b.BitLen() > l {
						l = b.BitLen()
					}
					res = maxOfWidth(l)
				}
			}
		}
	case *ssa.Convert:
		if sw := uintWidth(x.X.Type()); sw != 0 {
			a := bc.maxVal(x.X)
			if a != nil && a.Cmp(maxOfWidth(w)) <= 0 {
				res = a
			}
		}
	case *ssa.ChangeType:
		if a := bc.maxVal(x.X); a != nil {
			res = a
		}
	case *ssa.Extract:
		if call, ok := x.Tuple.(*ssa.Call); ok {
			if m := bc.returnMax(call, x.Index); m != nil {
				res = m
			}
		}
	case *ssa.Call:
		if m := bc.returnMax(x, 0); m != nil {
			res = m
		}
	case *ssa.Phi:
		var m *big.Int
		for _, e := range x.Edges {
			a := bc.maxVal(e)
			if a == nil {
				m = maxOfWidth(w)
				break
			}
			if m == nil || a.Cmp(m) > 0 {
				m = a
			}
		}
		if m != nil {
			res = m
		}
	}
	// a value cannot exceed its own type once materialised by an operation other
	// than the overflowing ones; keep the unbounded figure only for MUL/ADD/SHL
	if bo, ok := v.(*ssa.BinOp); !ok || (bo.Op != token.MUL && bo.Op != token.ADD && bo.Op != token.SHL) {
		if res.Cmp(maxOfWidth(w)) > 0 {
			res = maxOfWidth(w)
		}
	}
	bc.memo[v] = res
	return res
}

// returnMax bounds result #idx of a call to a function with a body in the
// module by the maximum over its return statements.
func (bc *bitsCtx) returnMax(call *ssa.Call, idx int) *big.Int {
	callee := call.Call.StaticCallee()
	if callee == nil || len(callee.Blocks) == 0 {
		return nil
	}
	var m *big.Int
	for _, b := range callee.Blocks {
		ret, ok := b.Instrs[len(b.Instrs)-1].(*ssa.Return)
		if !ok || idx >= len(ret.Results) {
			continue
		}
		a := bc.maxVal(ret.Results[idx])
		if a == nil {
			return nil
		}
		if m == nil || a.Cmp(m) > 0 {
			m = a
		}
	}
	return m
}

func constShift(v ssa.Value) (uint, bool) {
	c, ok := v.(*ssa.Const)
	if !ok || c.Value == nil || c.Value.Kind() != constant.Int {
		return 0, false
	}
	i, ok := constant.Int64Val(c.Value)
	if !ok || i < 0 || i > 64 {
		return 0, false
	}
	return uint(i), true
}

// flowsToGuard follows v through conversions and reports the first use as a
// comparison operand, slice bound, index or allocation size.
func flowsToGuard(p *Program, v ssa.Value, depth int) string {
	if depth > 4 {
		return ""
	}
	for _, r := range *v.Referrers() {
		switch x := r.(type) {
		case *ssa.Convert:
			if s := flowsToGuard(p, x, depth+1); s != "" {
				return s
			}
		case *ssa.ChangeType:
			if s := flowsToGuard(p, x, depth+1); s != "" {
				return s
			}
		case *ssa.BinOp:
			switch x.Op {
			case token.LSS, token.LEQ, token.GTR, token.GEQ:
				return "comparison at " + p.InstrPos(x)
			case token.ADD, token.SUB:
				if s := flowsToGuard(p, x, depth+1); s != "" {
					return s
				}
			}
		case *ssa.Slice:
			return "slice bound at " + p.InstrPos(x)
		case *ssa.IndexAddr:
			if x.Index == v {
				return "index at " + p.InstrPos(x)
			}
		case *ssa.MakeSlice:
			return "allocation size at " + p.InstrPos(x)
		}
	}
	return ""
}

func ruleNarrowArith(keep func(string) bool, floor int) ruleFunc {
	return func(c *Ctx) {
		p := c.P
		c.R.Rule("E2: unsigned MUL/ADD/SHL whose operand bounds (bit-length tracking from the decoded source) exceed the operand type, and whose result reaches a comparison, slice bound, index or make size, can wrap and defeat the guard")
		n := 0
		for _, fn := range p.Funcs() {
			key := ShortKey(FuncKey(fn))
			if !keep(key) {
				continue
			}
			bc := &bitsCtx{memo: map[ssa.Value]*big.Int{}, busy: map[ssa.Value]bool{}}
			ord := map[string]int{}
			for _, b := range fn.Blocks {
				for _, in := range b.Instrs {
					bo, ok := in.(*ssa.BinOp)
					if !ok || (bo.Op != token.MUL && bo.Op != token.ADD && bo.Op != token.SHL) {
						continue
					}
					w := uintWidth(bo.Type())
					if w == 0 || w >= 64 {
						continue
					}
					if _, isC := bo.X.(*ssa.Const); isC {
						if _, isC2 := bo.Y.(*ssa.Const); isC2 {
							continue
						}
					}
					guard := flowsToGuard(p, bo, 0)
					if guard == "" {
						continue
					}
					n++
					opk := fmt.Sprintf("%s#%s(uint%d)", key, bo.Op, w)
					if ord[opk] > 0 {
						opk = fmt.Sprintf("%s#%d", opk, ord[opk])
					}
					ord[fmt.Sprintf("%s#%s(uint%d)", key, bo.Op, w)]++
					m := bc.maxVal(bo)
					if m != nil && m.Cmp(maxOfWidth(w)) > 0 {
						c.R.Bad("E2-narrow-guard", opk, p.InstrPos(bo),
							fmt.Sprintf("uint%d %s may need %d bits (max %s) and wraps; its result feeds a %s", w, bo.Op, m.BitLen(), m.String(), guard))
					} else {
						c.R.OK("E2-narrow-guard", opk, p.InstrPos(bo), fmt.Sprintf("fits: needs at most %d of %d bits; feeds a %s", m.BitLen(), w, guard))
					}
				}
			}
		}
		c.R.Floor("E2-narrow-guard", n, floor)
	}
}
