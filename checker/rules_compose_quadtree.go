package main

// A-comp specs for quadtree histories (C11).  A tree over the bound
// [l, l+w] x [b, b+h] (w, h > 0 unknown) is driven through a short history of
// Add / Remove calls with points whose coordinates are unknown; every
// comparison of a coordinate with a cell midline partitions the path and is
// recorded as an order fact.  A list model of the contents is kept beside each
// path (from the calls' own answers), and at the end the tree is read back
// with InBound: over the tree's own bound the answer must be exactly the model
// (the tree holds the multiset of pointers added and not removed), over an
// unknown query box it must be exactly the model's pointers that the path's
// order facts place inside the box, and every other pointer must be placed
// outside by them.

import (
	"fmt"
	"os"
	"sort"
	"strings"
)

type qtOp struct {
	add bool
	pt  int
}

type qtCtx struct {
	ops    []qtOp
	points []AV     // the pointers (orb.Point in an interface)
	ids    []string // their identities
	query  string   // "dump" | "box"
	box    StructV
	from   AV        // query point of the final Find
	boundT [4]*fterm // l, b, l+w, b+h
	tree   AV
	k      int    // k of the final KNearest
	maxD   AV     // its variadic distance limit (a nil or one-element slice)
	maxT   *fterm // the squared limit, nil when there is none
}

type qtModel struct {
	items []string // identities of stored pointers, in insertion order
	note  string   // why this path is not judged ("" = judged)
}

func (m *qtModel) clone() *qtModel {
	return &qtModel{items: append([]string(nil), m.items...), note: m.note}
}

func qtHistories(thorough bool) [][]qtOp {
	A := func(i int) qtOp { return qtOp{true, i} }
	R := func(i int) qtOp { return qtOp{false, i} }
	hs := [][]qtOp{
		{},
		{R(0)},
		{A(0)},
		{A(0), A(1)},
		{A(0), R(0)},
		{A(0), R(1)},
		{A(0), A(1), R(0)},
		{A(0), A(1), R(1)},
		{A(0), R(0), A(1)},
		{A(0), A(1), R(0), R(1)},
		{A(0), A(1), A(2)},
		{A(0), A(0)},
		{A(0), A(1), A(2), R(0)},
		{A(0), A(1), R(0), A(0)},
	}
	if thorough {
		hs = append(hs,
			[]qtOp{A(0), A(1), A(2), R(1), R(0), R(2)},
			[]qtOp{A(0), A(1), A(2), R(1)},
			[]qtOp{A(0), A(1), A(2), R(2)},
			[]qtOp{A(0), A(1), R(1), A(2)},
			[]qtOp{A(0), A(0), R(0)},
		)
	}
	return hs
}

func qtLabel(ops []qtOp) string {
	if len(ops) == 0 {
		return "empty history"
	}
	var parts []string
	for _, o := range ops {
		if o.add {
			parts = append(parts, fmt.Sprintf("add p%d", o.pt))
		} else {
			parts = append(parts, fmt.Sprintf("remove p%d", o.pt))
		}
	}
	return strings.Join(parts, ", ")
}

func quadtreeSpecs(thorough bool) []composeSpec {
	var cases []composeCase
	for _, ops := range qtHistories(thorough) {
		for _, q := range []string{"dump", "box", "find", "knn1", "knn2", "knn1max", "knn2max"} {
			ops, q := ops, q
			np := 0
			for _, o := range ops {
				if o.pt+1 > np {
					np = o.pt + 1
				}
			}
			if q == "find" && len(ops) > 4 {
				continue
			}
			if strings.HasPrefix(q, "knn") && (len(ops) > 3 || len(ops) == 0 && q != "knn1") {
				continue
			}
			if strings.HasPrefix(q, "knn") && !thorough && (len(ops) > 2 && q != "knn2" && !(np == 3 && q == "knn1") || len(ops) == 1 && !ops[0].add) {
				continue
			}
			if !thorough && np >= 3 && q != "dump" && !(q == "knn1" && len(ops) == 3) {
				continue // three points with an unknown query: thorough tier (but for one k-nearest search that prunes)
			}
			cases = append(cases, composeCase{qtLabel(ops) + "; then " + map[string]string{"dump": "InBound over the tree's bound", "box": "InBound over any box", "find": "Find from any point",
				"knn1": "KNearest(1) from any point", "knn2": "KNearest(2) from any point", "knn1max": "KNearest(1) from any point within any distance", "knn2max": "KNearest(2) from any point within any distance"}[q], func(it *Interp, s *State) ([]AV, interface{}) {
				ctx := &qtCtx{ops: ops, query: q}
				l, b := it.freeFloat().(FloatV), it.freeFloat().(FloatV)
				w, h := it.freeFloat().(FloatV), it.freeFloat().(FloatV)
				if it.NonNeg == nil {
					it.NonNeg, it.Positive = map[int]bool{}, map[int]bool{}
				}
				for _, f := range []FloatV{w, h} {
					it.NonNeg[f.Sym], it.Positive[f.Sym] = true, true
				}
				sum := func(a, c FloatV) FloatV {
					it.nextSym++
					return FloatV{Finite: true, Sym: it.nextSym, Term: termAdd(termAtom(a.Sym), termAtom(c.Sym), 1)}
				}
				r, t := sum(l, w), sum(b, h)
				ctx.boundT = [4]*fterm{termAtom(l.Sym), termAtom(b.Sym), r.Term, t.Term}
				bound := StructV{Fields: []AV{ArrV{N: 2, Elems: []AV{l, b}}, ArrV{N: 2, Elems: []AV{r, t}}}}
				np := 0
				for _, o := range ops {
					if o.pt+1 > np {
						np = o.pt + 1
					}
				}
				pt := it.p.Kind("Point")
				for i := 0; i < np; i++ {
					v := freePointAV(it)
					ctx.points = append(ctx.points, IfaceV{Typ: pt, Val: v})
					ctx.ids = append(ctx.ids, identString(v))
				}
				switch q {
				case "box":
					ctx.box = StructV{Fields: []AV{freePointAV(it), freePointAV(it)}}
				case "find":
					ctx.from = freePointAV(it)
					ctx.box = bound
				case "knn1", "knn2", "knn1max", "knn2max":
					ctx.from = freePointAV(it)
					ctx.box = bound
					ctx.k = int(q[3] - '0')
					ctx.maxD = SliceV{Nil: true}
					if strings.HasSuffix(q, "max") {
						m := it.freeFloat().(FloatV)
						it.NonNeg[m.Sym], it.Positive[m.Sym] = true, true
						ctx.maxD = SliceV{Arr: it.newCell(s, ArrV{N: 1, Elems: []AV{m}, Def: FloatV{Finite: true}}), Hi: 1, Cap: 1}
						ctx.maxT = termMul(termAtom(m.Sym), termAtom(m.Sym))
					}
				default:
					ctx.box = bound
				}
				s.notes = map[string]AV{"model": &qtModel{}}
				return []AV{bound}, ctx
			}})
		}
	}
	// one step per operation, then the query
	maxOps := 0
	for _, ops := range qtHistories(thorough) {
		if len(ops) > maxOps {
			maxOps = len(ops)
		}
	}
	var steps []composeStep
	for k := 0; k <= maxOps; k++ {
		k := k
		steps = append(steps, func(it *Interp, st *State, cx interface{}) (string, []AV, bool) {
			ctx := cx.(*qtCtx)
			model, _ := st.notes["model"].(*qtModel)
			if model == nil {
				return "", nil, false
			}
			model = model.clone()
			st.notes["model"] = model
			if k == 0 {
				st.notes["tree"] = st.result[0]
			} else if k <= len(ctx.ops) {
				// account for the answer of operation k-1
				op := ctx.ops[k-1]
				id := ctx.ids[op.pt]
				if op.add {
					if isNil, known := nilness(st.result[0]); known && isNil {
						model.items = append(model.items, id)
					} else if !known {
						model.note = "whether Add failed is not decided"
					}
				} else {
					removed, ok := exactBool(st.result[0])
					if !ok {
						model.note = "what Remove answered is not decided"
					}
					idx := -1
					for i, x := range model.items {
						if x == id {
							idx = i
							break
						}
					}
					switch {
					case removed && idx < 0:
						model.note = "VIOLATION: Remove reports a match for a pointer that is not stored"
					case !removed && idx >= 0:
						model.note = "VIOLATION: Remove reports no match for a stored pointer"
					case removed:
						model.items = append(model.items[:idx:idx], model.items[idx+1:]...)
					}
				}
			}
			if k > len(ctx.ops) {
				return "", nil, false
			}
			tree := st.notes["tree"]
			if k == len(ctx.ops) {
				if ctx.query == "find" {
					return "quadtree.(*Quadtree).Find", []AV{tree, ctx.from}, true
				}
				if ctx.k > 0 {
					return "quadtree.(*Quadtree).KNearest", []AV{tree, SliceV{Nil: true}, ctx.from, IntV{Known: true, V: int64(ctx.k)}, ctx.maxD}, true
				}
				return "quadtree.(*Quadtree).InBound", []AV{tree, SliceV{Nil: true}, ctx.box}, true
			}
			op := ctx.ops[k]
			if op.add {
				return "quadtree.(*Quadtree).Add", []AV{tree, ctx.points[op.pt]}, true
			}
			return "quadtree.(*Quadtree).Remove", []AV{tree, ctx.points[op.pt], FuncV{Nil: true}}, true
		})
	}
	return []composeSpec{{
		entry: "quadtree.New", terms: true, anyPath: true, skipTruncated: true, generalPosition: true, steps: steps, cases: cases,
		desc: "after the history the tree holds exactly the pointers added and not removed (InBound over the tree's bound returns each of them once); Remove answers true exactly for a stored pointer; InBound over any box returns exactly the stored pointers that lie inside the closed box; Find returns a stored pointer and every other stored pointer is shown by the path's comparisons (or, when never looked at, by lying outside the square of half-width sqrt(D) that pruned it) to be no closer; KNearest returns min(k, stored) stored pointers (fewer only under a distance limit), nearest first, each strictly within the limit, and every stored pointer left out is shown by the path's comparisons to be no closer than the last one returned or outside the limit",
		judge: func(it *Interp, cx interface{}, st *State) string {
			ctx := cx.(*qtCtx)
			model, _ := st.notes["model"].(*qtModel)
			if model == nil {
				return "internal: no model"
			}
			if strings.HasPrefix(model.note, "VIOLATION: ") {
				if qtCoincident(it, st, ctx) {
					return ""
				}
				return strings.TrimPrefix(model.note, "VIOLATION: ")
			}
			if model.note != "" {
				return model.note
			}
			if qtCoincident(it, st, ctx) {
				return "" // two different pointers assumed to coincide: removal by point is ambiguous, not judged
			}
			if ctx.query == "find" {
				return qtFindJudge(it, ctx, model, st)
			}
			if ctx.k > 0 {
				return qtNearestJudge(it, ctx, model, st)
			}
			res, ok := st.result[0].(SliceV)
			if !ok || res.Top {
				return "the answer of InBound is not followed"
			}
			var got []string
			for _, e := range membersOf(st, res) {
				iv, _ := e.(IfaceV)
				got = append(got, identString(iv.Val))
			}
			if ctx.query == "dump" {
				a, b := append([]string(nil), got...), append([]string(nil), model.items...)
				sort.Strings(a)
				sort.Strings(b)
				if strings.Join(a, " ") != strings.Join(b, " ") {
					return fmt.Sprintf("the tree holds %d pointer(s) %v, the history leaves %d: %v", len(a), qtNames(ctx, a), len(b), qtNames(ctx, b))
				}
				return ""
			}
			// any box: the path's order facts must place every returned pointer inside and every other stored one outside
			g := pathOrderTerms(it, st)
			bx := ctx.box
			mn, mx := pointTerms(it, bx.Fields[0]), pointTerms(it, bx.Fields[1])
			count := map[string]int{}
			for _, id := range got {
				count[id]++
			}
			for _, id := range model.items {
				count[id]--
			}
			for i, id := range ctx.ids {
				stored := false
				for _, x := range model.items {
					if x == id {
						stored = true
					}
				}
				if !stored {
					continue
				}
				p := pointTerms(it, ctx.points[i].(IfaceV).Val)
				inside := g.leq(mn[0], p[0]) && g.leq(p[0], mx[0]) && g.leq(mn[1], p[1]) && g.leq(p[1], mx[1])
				outside := g.less(p[0], mn[0]) || g.less(mx[0], p[0]) || g.less(p[1], mn[1]) || g.less(mx[1], p[1])
				returned := false
				for _, x := range got {
					if x == id {
						returned = true
					}
				}
				switch {
				case returned && !inside:
					return fmt.Sprintf("p%d is returned but nothing on this path places it inside the box", i)
				case !returned && !outside:
					return fmt.Sprintf("p%d is stored and not returned, but nothing on this path places it outside the box", i)
				}
			}
			for id, n := range count {
				if n > 0 {
					return fmt.Sprintf("%v is returned more often than it is stored", qtNames(ctx, []string{id}))
				}
			}
			return ""
		},
	}}
}

func qtNames(ctx *qtCtx, ids []string) []string {
	var out []string
	for _, id := range ids {
		name := id
		for i, x := range ctx.ids {
			if x == id {
				name = fmt.Sprintf("p%d", i)
			}
		}
		out = append(out, name)
	}
	return out
}

// qtCoincident: the path assumed that two different pointers have the same coordinates.
func qtCoincident(it *Interp, st *State, ctx *qtCtx) bool {
	coord := map[int]int{}
	for i, p := range ctx.points {
		pt := pointTerms(it, p.(IfaceV).Val)
		for _, t := range pt {
			if id, ok := atomOf(t); ok {
				coord[id] = i
			}
		}
	}
	eq := map[[2]int]int{}
	for _, tr := range st.trail {
		f := tr.Fact
		if f == nil || !(f.Op == "==" && f.Taken || f.Op == "!=" && !f.Taken) {
			continue
		}
		ia, ok1 := atomOf(f.A)
		ib, ok2 := atomOf(f.B)
		if !ok1 || !ok2 {
			continue
		}
		pa, okA := coord[ia]
		pb, okB := coord[ib]
		if okA && okB && pa != pb {
			if pa > pb {
				pa, pb = pb, pa
			}
			eq[[2]int{pa, pb}]++
		}
	}
	for _, n := range eq {
		if n >= 2 {
			return true
		}
	}
	return false
}

// ---------------------------------------------------------------------------
// order facts over arbitrary terms

type termOrder struct {
	it    *Interp
	nodes map[string]int
	terms []*fterm
	keys  []string
	le    map[int]map[int]bool
	lt    map[[2]int]bool
}

func (g *termOrder) node(t *fterm) int {
	key := t.N.String() + "/" + t.D.String()
	if id, ok := g.nodes[key]; ok {
		return id
	}
	id := len(g.terms)
	g.nodes[key] = id
	g.terms = append(g.terms, t)
	g.keys = append(g.keys, key)
	return id
}

func (g *termOrder) addLe(a, b int, strict bool) {
	if g.le[a] == nil {
		g.le[a] = map[int]bool{}
	}
	g.le[a][b] = true
	if strict {
		g.lt[[2]int{a, b}] = true
	}
}

// pathOrderTerms: the order facts of the path between arbitrary terms, closed
// under what the signs of the coefficients show (a <= b when b - a has only
// non-negative coefficients over non-negative atoms).
func pathOrderTerms(it *Interp, st *State) *termOrder {
	g := &termOrder{it: it, nodes: map[string]int{}, le: map[int]map[int]bool{}, lt: map[[2]int]bool{}}
	for _, tr := range st.trail {
		f := tr.Fact
		if f == nil || f.A == nil || f.B == nil {
			continue
		}
		a, b := g.node(f.A), g.node(f.B)
		switch {
		case f.Op == "<" && f.Taken, f.Op == ">=" && !f.Taken:
			g.addLe(a, b, true)
		case f.Op == ">" && f.Taken, f.Op == "<=" && !f.Taken:
			g.addLe(b, a, true)
		case f.Op == "<=" && f.Taken, f.Op == ">" && !f.Taken:
			g.addLe(a, b, false)
		case f.Op == ">=" && f.Taken, f.Op == "<" && !f.Taken:
			g.addLe(b, a, false)
		case f.Op == "==" && f.Taken, f.Op == "!=" && !f.Taken:
			g.addLe(a, b, false)
			g.addLe(b, a, false)
		}
	}
	return g
}

// relate: make sure t is a node and connect it with every other node whose
// difference has a decidable sign.
func (g *termOrder) relate(t *fterm) int {
	key := t.N.String() + "/" + t.D.String()
	if id, ok := g.nodes[key]; ok {
		return id
	}
	id := g.node(t)
	for j := range g.terms {
		if j == id {
			continue
		}
		g.static(id, j)
	}
	return id
}

// static: the order of two nodes that the signs of the coefficients alone decide (the same on every path of
// the case: kept on the interpreter).
func (g *termOrder) static(i, j int) {
	a, b := g.terms[i], g.terms[j]
	key := [2]string{g.keys[i], g.keys[j]}
	if g.it.orderCache == nil {
		g.it.orderCache = map[[2]string]uint8{}
	}
	code, ok := g.it.orderCache[key]
	if !ok {
		// bit 0: a <= b, bit 1: a < b, bit 2: b <= a, bit 3: b < a
		if r, ok := g.it.termCompare("<=", a, b); ok && r {
			code |= 1
			if strict, ok2 := g.it.termCompare("<", a, b); ok2 && strict {
				code |= 2
			}
		}
		if r, ok := g.it.termCompare("<=", b, a); ok && r {
			code |= 4
			if strict, ok2 := g.it.termCompare("<", b, a); ok2 && strict {
				code |= 8
			}
		}
		g.it.orderCache[key] = code
	}
	if code&1 != 0 {
		g.addLe(i, j, code&2 != 0)
	}
	if code&4 != 0 {
		g.addLe(j, i, code&8 != 0)
	}
}

func (g *termOrder) closeAll() {
	if g.closed() {
		return
	}
	n := len(g.terms)
	for i := 0; i < n; i++ {
		for j := i + 1; j < n; j++ {
			g.static(i, j)
		}
	}
	g.lt[[2]int{-1, -1}] = true
}

func (g *termOrder) closed() bool { return g.lt[[2]int{-1, -1}] }

// path search: is there a chain a <= ... <= b, and one with a strict link?
func (g *termOrder) chain(a, b int) (reach, strict bool) {
	type st struct {
		n int
		s bool
	}
	seen := map[st]bool{{a, false}: true}
	work := []st{{a, false}}
	for len(work) > 0 {
		x := work[len(work)-1]
		work = work[:len(work)-1]
		if x.n == b {
			reach = true
			if x.s {
				strict = true
			}
		}
		for y := range g.le[x.n] {
			nx := st{y, x.s || g.lt[[2]int{x.n, y}]}
			if !seen[nx] {
				seen[nx] = true
				work = append(work, nx)
			}
		}
	}
	return
}

func (g *termOrder) leq(a, b *fterm) bool {
	if a == nil || b == nil {
		return false
	}
	g.closeAll()
	ia, ib := g.relate(a), g.relate(b)
	if ia == ib {
		return true
	}
	r, _ := g.chain(ia, ib)
	return r
}

func (g *termOrder) less(a, b *fterm) bool {
	if a == nil || b == nil {
		return false
	}
	g.closeAll()
	ia, ib := g.relate(a), g.relate(b)
	_, s := g.chain(ia, ib)
	return s
}

// qtFindJudge: Find returns nil exactly on an empty tree, otherwise a stored
// pointer, and the comparisons made on the path establish that no stored
// pointer whose distance was looked at is closer.  (That the pointers pruned
// without a look are farther is a geometric argument this judge does not make.)
func qtFindJudge(it *Interp, ctx *qtCtx, model *qtModel, st *State) string {
	r, ok := st.result[0].(IfaceV)
	if !ok {
		return "the answer of Find is not followed"
	}
	if len(model.items) == 0 {
		if !r.Nil {
			return "the tree is empty but Find returns a pointer"
		}
		return ""
	}
	if r.Nil {
		return "the tree holds pointers but Find returns nil"
	}
	rid := identString(r.Val)
	stored := false
	for _, x := range model.items {
		if x == rid {
			stored = true
		}
	}
	if !stored {
		return "Find returns a pointer that is not stored"
	}
	q := pointTerms(it, ctx.from)
	dist := func(p [2]*fterm) *fterm {
		dx, dy := termAdd(p[0], q[0], -1), termAdd(p[1], q[1], -1)
		return termAdd(termMul(dx, dx), termMul(dy, dy), 1)
	}
	g := pathOrderTerms(it, st)
	var dr *fterm
	terms := map[string]*fterm{}
	for i, id := range ctx.ids {
		d := dist(pointTerms(it, ctx.points[i].(IfaceV).Val))
		terms[id] = d
		if id == rid {
			dr = d
		}
	}
	seen := map[string]bool{}
	for k := range g.nodes {
		seen[k] = true
	}
	looked := func(t *fterm) bool { return seen[t.N.String()+"/"+t.D.String()] }
	if os.Getenv("ORBCHECK_FINDDBG") != "" {
		fmt.Printf("FIND result=%v items=%v\n", qtNames(ctx, []string{rid}), qtNames(ctx, model.items))
		for _, id := range model.items {
			fmt.Printf("   %v looked=%v term=%s\n", qtNames(ctx, []string{id}), looked(terms[id]), terms[id])
		}
		for _, t := range st.trail {
			if t.Fact != nil && t.Fact.A != nil {
				fmt.Printf("   fact %s: %s %s %s taken=%v\n", t.Pos, t.Fact.A, t.Fact.Op, t.Fact.B, t.Fact.Taken)
			} else {
				fmt.Printf("   trail %s: %s\n", t.Pos, t.Desc)
			}
		}
	}
	for i, id := range ctx.ids {
		if id == rid || !qtHas(model.items, id) {
			continue
		}
		if g.leq(dr, terms[id]) {
			continue
		}
		if looked(terms[id]) {
			return fmt.Sprintf("%v was looked at, but nothing on this path establishes that the returned pointer is at least as close", qtNames(ctx, []string{id}))
		}
		if !qtPrunedFarther(it, g, q, pointTerms(it, ctx.points[i].(IfaceV).Val), dr) {
			return fmt.Sprintf("%v is stored and was never looked at, and nothing on this path establishes that it lies outside a square of half-width sqrt(D) around the query for a D at least the returned pointer's squared distance (it may be closer)", qtNames(ctx, []string{id}))
		}
	}
	return ""
}

func qtHas(items []string, id string) bool {
	for _, x := range items {
		if x == id {
			return true
		}
	}
	return false
}

// qtPrunedFarther: the geometric argument for a pointer the search never looked at.  The path must place it,
// on one axis, beyond q +- sqrt(D) for some D the path shows to be at least `limit`: then its squared distance
// exceeds D >= limit.
func qtPrunedFarther(it *Interp, g *termOrder, q, p [2]*fterm, limit *fterm) bool {
	// the square roots the path's own comparisons mention
	onPath := map[int]bool{}
	for _, t := range g.terms {
		for _, pl := range []poly{t.N, t.D} {
			for k := range pl {
				for id := range parseMono(k) {
					if it.atomFn[id] == "sqrt" {
						onPath[id] = true
					}
				}
			}
		}
	}
	ids := make([]int, 0, len(onPath))
	for id := range onPath {
		ids = append(ids, id)
	}
	sort.Ints(ids)
	for _, id := range ids {
		T := it.absOf[id]
		if T == nil || !g.leq(limit, T) {
			continue
		}
		s := termAtom(id)
		for k := 0; k < 2; k++ {
			if g.less(termAdd(q[k], s, 1), p[k]) || g.less(p[k], termAdd(q[k], s, -1)) {
				return true
			}
		}
	}
	return false
}

// qtNearestJudge: KNearest(k[, limit]) returns stored pointers, each at most as often as it is stored, sorted
// nearest first and strictly within the limit; without a limit there are min(k, stored) of them; and every stored
// pointer left out is, by the comparisons made on the path, no closer than the last one returned (when k were
// returned) or not within the limit.  A pointer the search never looked at needs the geometric argument of
// qtPrunedFarther.
func qtNearestJudge(it *Interp, ctx *qtCtx, model *qtModel, st *State) string {
	res, ok := st.result[0].(SliceV)
	if !ok || res.Top {
		return "the answer of KNearest is not followed"
	}
	var got []string
	if !res.Nil {
		for _, e := range membersOf(st, res) {
			iv, ok := e.(IfaceV)
			if !ok || iv.Nil {
				return "KNearest returns a nil pointer"
			}
			got = append(got, identString(iv.Val))
		}
	}
	left := map[string]int{}
	for _, id := range model.items {
		left[id]++
	}
	for _, id := range got {
		left[id]--
		if left[id] < 0 {
			return fmt.Sprintf("%v is returned more often than it is stored", qtNames(ctx, []string{id}))
		}
	}
	n, want := len(got), ctx.k
	if len(model.items) < want {
		want = len(model.items)
	}
	if n > want || ctx.maxT == nil && n != want {
		return fmt.Sprintf("KNearest(%d) returns %d pointer(s), the tree holds %d", ctx.k, n, len(model.items))
	}
	q := pointTerms(it, ctx.from)
	dist := func(p [2]*fterm) *fterm {
		dx, dy := termAdd(p[0], q[0], -1), termAdd(p[1], q[1], -1)
		return termAdd(termMul(dx, dx), termMul(dy, dy), 1)
	}
	g := pathOrderTerms(it, st)
	terms, pts := map[string]*fterm{}, map[string][2]*fterm{}
	for i, id := range ctx.ids {
		pts[id] = pointTerms(it, ctx.points[i].(IfaceV).Val)
		terms[id] = dist(pts[id])
	}
	seen := map[string]bool{}
	for k := range g.nodes {
		seen[k] = true
	}
	looked := func(t *fterm) bool { return seen[t.N.String()+"/"+t.D.String()] }
	for i, id := range got {
		if i+1 < len(got) && !g.leq(terms[id], terms[got[i+1]]) {
			return fmt.Sprintf("nothing on this path establishes that %v (returned at %d) is at least as close as %v (returned after it)", qtNames(ctx, []string{id}), i, qtNames(ctx, []string{got[i+1]}))
		}
		if ctx.maxT != nil && !g.less(terms[id], ctx.maxT) {
			return fmt.Sprintf("%v is returned, but nothing on this path establishes that it is strictly within the distance limit", qtNames(ctx, []string{id}))
		}
	}
	for _, id := range ctx.ids {
		if left[id] <= 0 {
			continue
		}
		d := terms[id]
		if n == ctx.k {
			last := terms[got[n-1]]
			if g.leq(last, d) || qtPrunedFarther(it, g, q, pts[id], last) {
				continue
			}
		}
		if ctx.maxT != nil && g.leq(ctx.maxT, d) {
			continue
		}
		if os.Getenv("ORBCHECK_FINDDBG") != "" {
			names := map[int]string{}
			for i := range ctx.ids {
				for k, t := range pointTerms(it, ctx.points[i].(IfaceV).Val) {
					if a, ok := atomOf(t); ok {
						names[a] = fmt.Sprintf("p%d.%c", i, "xy"[k])
					}
				}
			}
			for k, t := range q {
				if a, ok := atomOf(t); ok {
					names[a] = fmt.Sprintf("q.%c", "xy"[k])
				}
			}
			fmt.Printf("KNN got=%v items=%v left-out=%v looked=%v\n", qtNames(ctx, got), qtNames(ctx, model.items), qtNames(ctx, []string{id}), looked(d))
			for _, t := range st.trail {
				if t.Fact != nil && t.Fact.A != nil {
					fmt.Printf("   fact %s: %s %s %s taken=%v\n", t.Pos, it.nameTerm(t.Fact.A, names), t.Fact.Op, it.nameTerm(t.Fact.B, names), t.Fact.Taken)
				} else {
					fmt.Printf("   trail %s: %s\n", t.Pos, t.Desc)
				}
			}
		}
		if n == ctx.k {
			return fmt.Sprintf("%v is stored and left out, but nothing on this path establishes that it is no closer than the last pointer returned", qtNames(ctx, []string{id}))
		}
		return fmt.Sprintf("%v is stored and left out although fewer than k pointers are returned, and nothing on this path places it outside the distance limit", qtNames(ctx, []string{id}))
	}
	return ""
}
