// orbcheck: static analysis of paulmach/orb deciding structural clauses of the
// properties in /verif/properties.jsonl.  See /verif/DESIGN.md.
//
// Nothing here runs orb code: the repository is loaded with go/packages,
// type-checked, turned into go/ssa and inspected.
package main

import (
	"encoding/json"
	"flag"
	"fmt"
	"os"
	"path/filepath"
	"runtime/debug"
	"runtime/pprof"
	"sort"
	"strings"
)

// A ruleFunc evaluates one rule family for one property and adds obligations.
type ruleFunc func(c *Ctx)

type Ctx struct {
	P     *Program
	R     *Report
	Tier  string
	Verif string
}

func (c *Ctx) Thorough() bool { return c.Tier == "thorough" }

type propSpec struct {
	explanation string
	rules       []ruleFunc
	// backed: table rules (by obligation rule-name prefix) whose clause this
	// property's A-comp rules also decide semantically.  When such a rule cannot
	// recognise the form of the code (verdict undecided) while every A-comp
	// obligation is discharged, the obligation is kept as unconfirmed instead of
	// failing the check: a rewrite the table reader does not know is not an alarm
	// when the behaviour it tabulates has just been decided another way.  A table
	// rule that does read the code and finds a wrong entry still reports a violation.
	backed []string
}

func backedBy(id string, rules ...string) {
	registry[id].backed = append(registry[id].backed, rules...)
}

// soften applies propSpec.backed to a finished report.
func soften(spec *propSpec, rep *Report) {
	if len(spec.backed) == 0 {
		return
	}
	ok := 0
	for _, o := range rep.Obls {
		if o.Rule == "A-comp" {
			if o.Verdict != Discharged {
				return
			}
			ok++
		}
	}
	if ok == 0 {
		return
	}
	for _, o := range rep.Obls {
		if o.Verdict != Undecided {
			continue
		}
		for _, pre := range spec.backed {
			if strings.HasPrefix(o.Rule, pre) {
				o.Verdict = Unconfirmed
				o.Detail += " [form not recognised by the table reader; the clause is decided semantically by this property's A-comp rules, all discharged]"
			}
		}
	}
}

var registry = map[string]*propSpec{}

func register(id, explanation string, rules ...ruleFunc) {
	registry[id] = &propSpec{explanation: explanation, rules: rules}
}

func main() {
	// a soft ceiling for the collector (the path tables of the thorough tier otherwise let the heap double
	// past 17 GB before a collection); GOMEMLIMIT in the environment overrides it
	if os.Getenv("GOMEMLIMIT") == "" {
		debug.SetMemoryLimit(6 << 30)
	}
	if len(os.Args) > 1 && os.Args[1] == "concrete" {
		os.Exit(concreteMain(os.Args[2:]))
	}
	if len(os.Args) > 1 && os.Args[1] == "replay" {
		os.Exit(replay(os.Args[2:]))
	}
	repo := flag.String("repo", "/repo", "source tree to analyse")
	verif := flag.String("verif", "/verif", "verification directory (evidence, known findings)")
	prop := flag.String("prop", "", "property id (C01..C20) or 'all'")
	tier := flag.String("tier", "quick", "quick|thorough")
	list := flag.Bool("list", false, "list registered properties")
	noEvidence := flag.Bool("no-evidence", false, "do not write evidence (used for mutant runs on scratch copies)")
	dump := flag.Bool("dump", false, "print every obligation")
	expect := flag.String("expect", "", "mutant mode: rule[/construct-substring] that must be reported as violated; exit 0 if it is, 3 if not")
	flag.Parse()
	if *list {
		ids := []string{}
		for id := range registry {
			ids = append(ids, id)
		}
		sort.Strings(ids)
		fmt.Println(strings.Join(ids, " "))
		return
	}
	if t := os.Getenv("VERIF_TIER"); t != "" && *tier == "" {
		*tier = t
	}
	spec := registry[*prop]
	if spec == nil {
		fmt.Fprintf(os.Stderr, "unknown property %q\n", *prop)
		os.Exit(2)
	}
	known, err := LoadKnown(filepath.Join(*verif, "known_findings.json"))
	if err != nil {
		fmt.Fprintf(os.Stderr, "known_findings.json: %v\n", err)
		os.Exit(2)
	}
	rep := NewReport(*prop, *tier, known)
	rep.Explanation = spec.explanation
	// the claim text of MANIFEST.json (tools/genmanifest.py writes both from one table) is the current wording
	if b, err := os.ReadFile(filepath.Join(*verif, "claims.json")); err == nil {
		var claims map[string]string
		if json.Unmarshal(b, &claims) == nil && claims[*prop] != "" {
			rep.Explanation = claims[*prop]
		}
	}
	p, err := Load(*repo, 20)
	if err != nil {
		// A tree that does not load cannot be judged: fail the check, name the reason.
		rep.Add("load", "program", Undecided, "", err.Error())
		os.Exit(finish(rep, *verif, *noEvidence, *expect))
	}
	c := &Ctx{P: p, R: rep, Tier: *tier, Verif: *verif}
	rep.Note("packages", p.Order...)
	if pf := os.Getenv("ORBCHECK_PROF"); pf != "" { // development aid: CPU profile of the rules
		if f, err := os.Create(pf); err == nil {
			pprof.StartCPUProfile(f)
			defer pprof.StopCPUProfile()
		}
	}
	for _, rule := range spec.rules {
		func() {
			defer func() {
				if x := recover(); x != nil {
					rep.Add("internal", fmt.Sprintf("panic:%v", x), Undecided, "", fmt.Sprintf("checker panic: %v", x))
				}
			}()
			rule(c)
		}()
	}
	soften(spec, rep)
	if *dump {
		for _, o := range rep.Obls {
			fmt.Printf("OBL %s %s %s @%s :: %s\n", o.Verdict, o.Rule, o.Construct, o.Pos, o.Detail)
		}
	}
	rc := finish(rep, *verif, *noEvidence, *expect)
	pprof.StopCPUProfile()
	os.Exit(rc)
}

func finish(rep *Report, verif string, noEvidence bool, expect string) int {
	if expect != "" {
		// mutant mode: succeed iff an obligation of the expected rule is violated
		rule, sub, _ := strings.Cut(expect, "/")
		for _, o := range rep.Obls {
			if o.Verdict == Violated && o.Rule == rule && strings.Contains(o.Construct, sub) {
				fmt.Printf("FIRED %s %s at %s: %s\n", o.Rule, o.Construct, o.Pos, o.Detail)
				return 0
			}
		}
		fmt.Printf("SILENT expected=%s\n", expect)
		for _, o := range rep.Obls {
			if o.Verdict == Violated || o.Verdict == Undecided {
				fmt.Printf("  other: %s %s %s: %s\n", o.Verdict, o.Rule, o.Construct, o.Detail)
			}
		}
		return 3
	}
	if noEvidence {
		verif, _ = os.MkdirTemp("", "orbcheck-ev-")
		defer os.RemoveAll(verif)
	}
	return rep.Finish(verif)
}

func replay(args []string) int {
	if len(args) < 1 {
		fmt.Fprintln(os.Stderr, "usage: orbcheck replay <violation.json> [repo]")
		return 2
	}
	b, err := os.ReadFile(args[0])
	if err != nil {
		fmt.Fprintln(os.Stderr, err)
		return 2
	}
	var o Obligation
	if err := json.Unmarshal(b, &o); err != nil {
		fmt.Fprintln(os.Stderr, err)
		return 2
	}
	repo := "/repo"
	if len(args) > 1 {
		repo = args[1]
	}
	spec := registry[o.Property]
	if spec == nil {
		fmt.Fprintf(os.Stderr, "unknown property %q\n", o.Property)
		return 2
	}
	known, _ := LoadKnown("/verif/known_findings.json")
	rep := NewReport(o.Property, "quick", known)
	p, err := Load(repo, 20)
	if err != nil {
		fmt.Println("load failed:", err)
		return 1
	}
	c := &Ctx{P: p, R: rep, Tier: "thorough", Verif: "/verif"}
	for _, rule := range spec.rules {
		rule(c)
	}
	soften(spec, rep)
	for _, n := range rep.Obls {
		if n.Rule == o.Rule && n.Construct == o.Construct {
			fmt.Printf("replayed %s: verdict=%s at %s\n  %s\n", n.Key(), n.Verdict, n.Pos, n.Detail)
			for _, w := range n.Witness {
				fmt.Printf("    | %s\n", w)
			}
			if n.Verdict == Violated || n.Verdict == Undecided {
				fmt.Printf("VIOLATION property=%s replay=%s\n", o.Property, args[0])
				return 1
			}
			return 0
		}
	}
	fmt.Printf("obligation %s no longer exists on this tree (rule did not match the construct)\n", o.Key())
	return 0
}
