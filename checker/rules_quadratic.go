package main

// E3 — no super-linear allocation in a loop over the input.  Inside a loop, an
// allocating copy (string(bytes/runes), []byte(string), make sized by len) of a
// loop-carried accumulator (a header phi grown by append in the same loop) that
// is executed in every iteration copies everything gathered so far each time:
// total allocation is quadratic in the input.  Copies made only where the
// accumulator is reset are linear and pass.

import (
	"fmt"
	"go/types"

	"golang.org/x/tools/go/ssa"
)

func ruleQuadraticAlloc(keep func(string) bool, floor int) ruleFunc {
	return func(c *Ctx) {
		p := c.P
		c.R.Rule("E3: in a loop, no allocating copy (string(acc), []T(acc)) of an accumulator grown by append in that loop is executed in every iteration (that would re-copy all gathered input each round: quadratic allocation)")
		n := 0
		for _, fn := range p.Funcs() {
			key := ShortKey(FuncKey(fn))
			if keep != nil && !keep(key) {
				continue
			}
			for li, l := range ssaLoops(fn) {
				// accumulators: header phis with a back-edge value that is (a phi of) append(phi, ...)
				for _, in := range l.head.Instrs {
					phi, ok := in.(*ssa.Phi)
					if !ok {
						break
					}
					if _, isSlice := phi.Type().Underlying().(*types.Slice); !isSlice {
						continue
					}
					grown := false
					var seen = map[ssa.Value]bool{}
					var walk func(v ssa.Value, d int)
					walk = func(v ssa.Value, d int) {
						if v == nil || seen[v] || d > 6 {
							return
						}
						seen[v] = true
						switch x := v.(type) {
						case *ssa.Phi:
							for _, e := range x.Edges {
								walk(e, d+1)
							}
						case *ssa.Call:
							if isBuiltin(x, "append") && len(x.Call.Args) > 0 {
								if x.Call.Args[0] == phi {
									grown = true
								}
								walk(x.Call.Args[0], d+1)
							}
						}
					}
					for i, pb := range l.head.Preds {
						if l.blocks[pb] {
							walk(phi.Edges[i], 0)
						}
					}
					if !grown {
						continue
					}
					n++
					// back-edge sources
					var backs []*ssa.BasicBlock
					for _, pb := range l.head.Preds {
						if l.blocks[pb] {
							backs = append(backs, pb)
						}
					}
					for _, r := range *phi.Referrers() {
						cv, ok := r.(*ssa.Convert)
						if !ok || !l.blocks[cv.Block()] {
							continue
						}
						// allocating conversion of the accumulator
						everyIter := true
						for _, bb := range backs {
							if !cv.Block().Dominates(bb) {
								everyIter = false
							}
						}
						cons := fmt.Sprintf("%s#loop%d#copy(%s)", key, li, phi.Comment)
						if everyIter {
							c.R.Bad("E3-quadratic-alloc", cons, p.InstrPos(cv), fmt.Sprintf("%s(%s) copies the whole accumulator %q in every iteration of the loop that grows it: allocation is quadratic in the input length", shortType(cv.Type()), phi.Comment, phi.Comment))
						} else {
							c.R.OK("E3-quadratic-alloc", cons, p.InstrPos(cv), "the accumulator is copied only on some iterations (at its reset points)")
						}
					}
				}
			}
		}
		c.R.Floor("E3-accumulators", n, floor)
	}
}
