package main

// T8 — corner tables of smart clipping (nexts, pointFor), evaluated as
// constants from the syntax tree.  This decides the tables completely:
// domain = the eight boundary region codes = pointFor's cases; each table is
// one 8-cycle; CW and CCW are mutually inverse; successive codes share an edge;
// the CCW cycle has positive signed area on the unit box (with the bit<->edge
// assignment extracted by T7), the CW cycle negative; pointFor returns, for
// each code, the box's own coordinate on every edge the code names.

import (
	"fmt"
	"go/ast"
	"go/constant"
	"go/token"
	"go/types"
	"sort"
	"strings"
)

func ruleCornerTables(c *Ctx) {
	p := c.P
	c.R.Rule("T8: nexts[CW], nexts[CCW] and pointFor evaluated as constant tables: domain = 8 boundary codes = pointFor cases; single 8-cycle; mutually inverse; neighbours share an edge bit; cycle orientation (signed area on the unit box under the T7 bit<->edge rows) matches the key; pointFor places each code on its edges")
	pk := p.Pkgs[orbPath+"/clip/smartclip"]
	if pk == nil {
		c.R.Unknown("T8-corner-tables", "clip/smartclip", "", "package not found")
		return
	}
	// bit -> (axis, side) from smartclip's own region-code function
	_, fd := findFuncDecl(p, orbPath+"/clip/smartclip", "bitCodeOpen")
	if fd == nil {
		c.R.Unknown("T8-corner-tables", "clip/smartclip.bitCodeOpen", "", "region-code function not found")
		return
	}
	rows, _ := extractRegionRows(pk, fd)
	type edge struct {
		axis int64
		side string
	}
	bitEdge := map[int64]edge{}
	for _, r := range rows {
		bitEdge[r.bit] = edge{r.axis, r.side}
	}
	if len(bitEdge) != 4 {
		c.R.Unknown("T8-corner-tables", "clip/smartclip.bitCodeOpen", p.Pos(fd.Pos()), "could not extract four bit<->edge rows")
		return
	}
	coord := func(code int64) (float64, float64) {
		xy := [2]float64{0.5, 0.5}
		for bit, e := range bitEdge {
			if code&bit != 0 {
				if e.side == "Min" {
					xy[e.axis] = 0
				} else {
					xy[e.axis] = 1
				}
			}
		}
		return xy[0], xy[1]
	}
	// orientation constants
	orient := map[string]int64{}
	for _, n := range []string{"CW", "CCW"} {
		if cst, ok := p.Pkgs[orbPath].Types.Scope().Lookup(n).(*types.Const); ok {
			v, _ := constant.Int64Val(cst.Val())
			orient[n] = v
		}
	}
	// the nexts literal
	tables := map[int64][]int64{}
	var tablePos token.Pos
	for _, f := range pk.Syntax {
		for _, d := range f.Decls {
			gd, ok := d.(*ast.GenDecl)
			if !ok || gd.Tok != token.VAR {
				continue
			}
			for _, sp := range gd.Specs {
				vs := sp.(*ast.ValueSpec)
				for i, name := range vs.Names {
					if name.Name != "nexts" || i >= len(vs.Values) {
						continue
					}
					cl, ok := vs.Values[i].(*ast.CompositeLit)
					if !ok {
						continue
					}
					tablePos = cl.Pos()
					for _, el := range cl.Elts {
						kv, ok := el.(*ast.KeyValueExpr)
						if !ok {
							continue
						}
						key, ok := constInt(pk, kv.Key)
						if !ok {
							continue
						}
						arr, ok := kv.Value.(*ast.CompositeLit)
						if !ok {
							continue
						}
						var vals []int64
						for _, e := range arr.Elts {
							if v, ok := constInt(pk, e); ok {
								vals = append(vals, v)
							} else {
								vals = append(vals, -999)
							}
						}
						tables[key] = vals
					}
				}
			}
		}
	}
	if len(tables) != 2 {
		c.R.Unknown("T8-corner-tables", "clip/smartclip.nexts", p.Pos(tablePos), fmt.Sprintf("expected the two-orientation literal, extracted %d tables", len(tables)))
		return
	}
	domainOf := func(t []int64) []int64 {
		var d []int64
		for i, v := range t {
			if v != -1 {
				d = append(d, int64(i))
			}
		}
		return d
	}
	for _, name := range []string{"CW", "CCW"} {
		t, ok := tables[orient[name]]
		cons := "clip/smartclip.nexts[" + name + "]"
		if !ok {
			c.R.Bad("T8-corner-tables", cons, p.Pos(tablePos), "no table for orientation "+name)
			continue
		}
		dom := domainOf(t)
		var problems []string
		// domain must be the 8 codes with exactly one or two edge bits, consistent (not both sides of an axis)
		want := map[int64]bool{}
		for code := int64(1); code < 16; code++ {
			okc := true
			axes := map[int64]int{}
			for bit, e := range bitEdge {
				if code&bit != 0 {
					axes[e.axis]++
				}
			}
			for _, n := range axes {
				if n > 1 {
					okc = false
				}
			}
			if okc {
				want[code] = true
			}
		}
		for _, d := range dom {
			if !want[d] {
				problems = append(problems, fmt.Sprintf("index %d is not a boundary region code but has a successor", d))
			}
			delete(want, d)
		}
		for w := range want {
			problems = append(problems, fmt.Sprintf("boundary code %d has no successor", w))
		}
		// single cycle
		if len(dom) > 0 && len(problems) == 0 {
			seen := map[int64]bool{}
			cur := dom[0]
			var cyc []int64
			for !seen[cur] && cur >= 0 && int(cur) < len(t) && t[cur] != -1 {
				seen[cur] = true
				cyc = append(cyc, cur)
				cur = t[cur]
			}
			if len(cyc) != len(dom) || cur != dom[0] {
				problems = append(problems, fmt.Sprintf("not a single cycle through all %d codes (walk from %d visits %v then reaches %d)", len(dom), dom[0], cyc, cur))
			} else {
				area := 0.0
				for i := range cyc {
					x1, y1 := coord(cyc[i])
					x2, y2 := coord(cyc[(i+1)%len(cyc)])
					area += x1*y2 - x2*y1
					if cyc[i]&cyc[(i+1)%len(cyc)] == 0 {
						problems = append(problems, fmt.Sprintf("successive codes %d -> %d share no edge", cyc[i], cyc[(i+1)%len(cyc)]))
					}
				}
				if name == "CCW" && area <= 0 || name == "CW" && area >= 0 {
					problems = append(problems, fmt.Sprintf("the cycle %v runs the wrong way round the box for %s (signed area %.1f)", cyc, name, area/2))
				}
			}
		}
		// inverse of the other table
		other := tables[orient[map[string]string{"CW": "CCW", "CCW": "CW"}[name]]]
		for _, d := range dom {
			nx := t[d]
			if nx < 0 || int(nx) >= len(other) || other[nx] != d {
				problems = append(problems, fmt.Sprintf("%s[%d] = %d but the opposite table does not map %d back to %d", name, d, nx, nx, d))
			}
		}
		if len(problems) > 0 {
			sort.Strings(problems)
			c.R.Bad("T8-corner-tables", cons, p.Pos(tablePos), strings.Join(firstN(problems, 4), "; "))
		} else {
			c.R.OK("T8-corner-tables", cons, p.Pos(tablePos), fmt.Sprintf("single %d-cycle over the boundary codes, inverse of the opposite table, orientation consistent", len(dom)))
		}
	}
	// pointFor
	_, pf := findFuncDecl(p, orbPath+"/clip/smartclip", "pointFor")
	if pf == nil {
		c.R.Unknown("T8-pointFor", "clip/smartclip.pointFor", "", "not found")
		return
	}
	var boundPar types.Object
	for _, f := range pf.Type.Params.List {
		for _, n := range f.Names {
			if obj := pk.TypesInfo.Defs[n]; obj != nil && obj.Type().String() == orbPath+".Bound" {
				boundPar = obj
			}
		}
	}
	cases := map[int64]bool{}
	ast.Inspect(pf.Body, func(n ast.Node) bool {
		cc, ok := n.(*ast.CaseClause)
		if !ok {
			return true
		}
		for _, ce := range cc.List {
			code, ok := constInt(pk, ce)
			if !ok {
				continue
			}
			cases[code] = true
			cons := fmt.Sprintf("clip/smartclip.pointFor#case%d", code)
			var lit *ast.CompositeLit
			for _, st := range cc.Body {
				if rs, ok := st.(*ast.ReturnStmt); ok && len(rs.Results) == 1 {
					lit, _ = ast.Unparen(rs.Results[0]).(*ast.CompositeLit)
				}
			}
			wholeCorner := ""
			if lit == nil {
				// `return b.Min` / `return b.Max` stand for the corner itself
				for _, st := range cc.Body {
					if rs, ok := st.(*ast.ReturnStmt); ok && len(rs.Results) == 1 {
						if se, ok := ast.Unparen(rs.Results[0]).(*ast.SelectorExpr); ok && (se.Sel.Name == "Min" || se.Sel.Name == "Max") {
							if id, ok := se.X.(*ast.Ident); ok && pk.TypesInfo.Uses[id] == boundPar {
								wholeCorner = se.Sel.Name
							}
						}
					}
				}
			}
			if wholeCorner != "" {
				bad := ""
				for axis := int64(0); axis < 2; axis++ {
					wantSide := ""
					for bit, e := range bitEdge {
						if code&bit != 0 && e.axis == axis {
							wantSide = e.side
						}
					}
					if wantSide != wholeCorner {
						bad += fmt.Sprintf(" coordinate %d must be on %q, the returned corner is b.%s;", axis, wantSide, wholeCorner)
					}
				}
				if bad != "" {
					c.R.Bad("T8-pointFor", cons, p.Pos(cc.Pos()), fmt.Sprintf("representative point of code %d is not on its edges:%s", code, bad))
				} else {
					c.R.OK("T8-pointFor", cons, p.Pos(cc.Pos()), "the corner b."+wholeCorner)
				}
				continue
			}
			if lit == nil || len(lit.Elts) != 2 {
				c.R.Unknown("T8-pointFor", cons, p.Pos(cc.Pos()), "case does not return a two-coordinate point literal")
				continue
			}
			bad := ""
			for axis := int64(0); axis < 2; axis++ {
				wantSide := ""
				for bit, e := range bitEdge {
					if code&bit != 0 && e.axis == axis {
						wantSide = e.side
					}
				}
				k, side, ax, ok := coordOf(pk, lit.Elts[axis], nil, boundPar)
				if wantSide != "" {
					if !ok || k != "box" || side != wantSide || ax != axis {
						bad += fmt.Sprintf(" coordinate %d must be b.%s[%d], is %s;", axis, wantSide, axis, types.ExprString(lit.Elts[axis]))
					}
				} else {
					txt := types.ExprString(lit.Elts[axis])
					if ok || !strings.Contains(txt, fmt.Sprintf("Max[%d]", axis)) || !strings.Contains(txt, fmt.Sprintf("Min[%d]", axis)) {
						bad += fmt.Sprintf(" coordinate %d must lie between b.Min[%d] and b.Max[%d], is %s;", axis, axis, axis, txt)
					}
				}
			}
			if bad != "" {
				c.R.Bad("T8-pointFor", cons, p.Pos(cc.Pos()), fmt.Sprintf("representative point of code %d is not on its edges:%s", code, bad))
			} else {
				c.R.OK("T8-pointFor", cons, p.Pos(cc.Pos()), "on the edges named by the code")
			}
		}
		return true
	})
	for _, name := range []string{"CW", "CCW"} {
		for _, d := range domainOf(tables[orient[name]]) {
			if !cases[d] {
				c.R.Bad("T8-pointFor", fmt.Sprintf("clip/smartclip.pointFor#missing%d", d), p.Pos(pf.Pos()), fmt.Sprintf("code %d is in nexts but pointFor has no case for it (panic \"invalid code\")", d))
			}
		}
	}
	c.R.Floor("T8-pointFor", len(cases), 8)
}

// ruleEndpointOrder (T8b): the per-side ordering of cut endpoints
// (sortableEndpoints.Less) against the side numbering of pointSide.  For each
// side the primary comparison and the tie-break (the vertex before the
// endpoint) must use the same axis and the same relation; the axis must be the
// one that varies along that side; the directions must walk the box boundary
// counter-clockwise (left side downwards, bottom rightwards, right side
// upwards, top leftwards).
func ruleEndpointOrder(c *Ctx) {
	p := c.P
	c.R.Rule("T8b: sortableEndpoints.Less per side: primary and tie-break comparisons agree in axis and relation, the axis is the one varying along that side (from pointSide's table) and the four directions form the counter-clockwise walk of the box")
	pk := p.Pkgs[orbPath+"/clip/smartclip"]
	_, ps := findFuncDecl(p, orbPath+"/clip/smartclip", "pointSide")
	_, less := findMethodDecl(p, orbPath+"/clip/smartclip", "sortableEndpoints", "Less")
	if pk == nil || ps == nil || less == nil {
		c.R.Unknown("T8b-endpoint-order", "clip/smartclip.sortableEndpoints.Less", "", "pointSide / Less not found")
		return
	}
	// side number -> (fixed axis, Min|Max)
	type sideDef struct {
		axis int64
		side string
	}
	var pointPar, boundPar types.Object
	for _, f := range ps.Type.Params.List {
		for _, n := range f.Names {
			obj := pk.TypesInfo.Defs[n]
			switch obj.Type().String() {
			case orbPath + ".Point":
				pointPar = obj
			case orbPath + ".Bound":
				boundPar = obj
			}
		}
	}
	sides := map[int64]sideDef{}
	// a row is `if p[a] == b.Side[a] { return K }` or the same as a tagless
	// switch case
	row := func(cond ast.Expr, body []ast.Stmt) {
		be, ok := ast.Unparen(cond).(*ast.BinaryExpr)
		if !ok || be.Op != token.EQL {
			return
		}
		k1, s1, a1, ok1 := coordOf(pk, be.X, pointPar, boundPar)
		k2, s2, a2, ok2 := coordOf(pk, be.Y, pointPar, boundPar)
		if !ok1 || !ok2 || k1 == k2 || a1 != a2 {
			return
		}
		side := s2
		if k1 == "box" {
			side = s1
		}
		for _, st := range body {
			if rs, ok := st.(*ast.ReturnStmt); ok && len(rs.Results) == 1 {
				if v, ok := constInt(pk, rs.Results[0]); ok {
					sides[v] = sideDef{a1, side}
				}
			}
		}
	}
	ast.Inspect(ps.Body, func(n ast.Node) bool {
		switch s := n.(type) {
		case *ast.IfStmt:
			row(s.Cond, s.Body.List)
		case *ast.SwitchStmt:
			if s.Tag == nil {
				for _, st := range s.Body.List {
					if cc, ok := st.(*ast.CaseClause); ok && len(cc.List) == 1 {
						row(cc.List[0], cc.Body)
					}
				}
			}
		}
		return true
	})
	if len(sides) != 4 {
		c.R.Unknown("T8b-endpoint-order", "clip/smartclip.pointSide", p.Pos(ps.Pos()), fmt.Sprintf("expected four side rows, extracted %d", len(sides)))
		return
	}
	// Less: per case, the comparisons returned
	type cmp struct {
		axis   int64
		rel    string
		before bool
	}
	// a local defined once stands for its definition
	resolve := func(e ast.Expr) ast.Expr {
		for k := 0; k < 4; k++ {
			id, isID := ast.Unparen(e).(*ast.Ident)
			if !isID {
				break
			}
			def := singleDef(pk, less, id)
			if def == nil {
				break
			}
			e = def
		}
		return ast.Unparen(e)
	}
	operand := func(e ast.Expr) (idx string, axis int64, before bool, ok bool) {
		ie, isIdx := resolve(e).(*ast.IndexExpr)
		if !isIdx {
			return
		}
		ax, okc := constInt(pk, ie.Index)
		if !okc {
			return
		}
		txt := types.ExprString(ie.X)
		before = strings.Contains(txt, "Before(")
		if !before && !strings.HasSuffix(txt, ".Point") {
			return
		}
		// which element: e.eps[i] or e.eps[j] (possibly through a local)
		var which string
		var base ast.Expr = ie.X
		if call, isCall := ast.Unparen(base).(*ast.CallExpr); isCall {
			base = call.Fun
		}
		if se, isSel := ast.Unparen(base).(*ast.SelectorExpr); isSel {
			base = resolve(se.X)
		}
		ast.Inspect(base, func(n ast.Node) bool {
			if in, ok := n.(*ast.IndexExpr); ok {
				if id, ok := in.Index.(*ast.Ident); ok && which == "" {
					which = id.Name
				}
			}
			return true
		})
		return which, ax, before, which != ""
	}
	var iName string
	if less.Type.Params != nil && len(less.Type.Params.List) > 0 && len(less.Type.Params.List[0].Names) > 0 {
		iName = less.Type.Params.List[0].Names[0].Name
	}
	nCases := 0
	ast.Inspect(less.Body, func(n ast.Node) bool {
		cc, ok := n.(*ast.CaseClause)
		if !ok || len(cc.List) != 1 {
			return true
		}
		k, ok := constInt(pk, cc.List[0])
		if !ok {
			return true
		}
		var cmps []cmp
		for _, st := range cc.Body {
			ast.Inspect(st, func(m ast.Node) bool {
				rs, ok := m.(*ast.ReturnStmt)
				if !ok || len(rs.Results) != 1 {
					return true
				}
				be, ok := ast.Unparen(rs.Results[0]).(*ast.BinaryExpr)
				if !ok {
					return true
				}
				if _, isCmp := flipRel[be.Op]; !isCmp {
					return true
				}
				w1, a1, b1, ok1 := operand(be.X)
				w2, a2, b2, ok2 := operand(be.Y)
				if !ok1 || !ok2 || a1 != a2 || b1 != b2 || w1 == w2 {
					return true
				}
				op := be.Op
				if w1 != iName {
					op = flipRel[op]
				}
				cmps = append(cmps, cmp{a1, op.String(), b1})
				return true
			})
		}
		nCases++
		cons := fmt.Sprintf("clip/smartclip.(sortableEndpoints).Less#side%d", k)
		sd, okSide := sides[k]
		bad := ""
		if !okSide {
			bad = fmt.Sprintf("side %d is not a side pointSide returns", k)
		} else if len(cmps) != 2 {
			bad = fmt.Sprintf("expected a primary and a tie-break comparison, extracted %d", len(cmps))
		} else {
			vary := 1 - sd.axis
			// counter-clockwise walk: left(Min[0]) down, bottom(Min[1]) right, right(Max[0]) up, top(Max[1]) left
			decreasing := (sd.side == "Min" && sd.axis == 0) || (sd.side == "Max" && sd.axis == 1)
			for _, cm := range cmps {
				what := "primary comparison"
				if cm.before {
					what = "tie-break"
				}
				if cm.axis != vary {
					bad += fmt.Sprintf(" the %s compares coordinate %d, but coordinate %d varies along side %d;", what, cm.axis, vary, k)
				}
				isDec := strings.HasPrefix(cm.rel, ">")
				if isDec != decreasing {
					bad += fmt.Sprintf(" the %s orders by %s, against the counter-clockwise walk on side %d (%s[%d]);", what, cm.rel, k, sd.side, sd.axis)
				}
			}
			if cmps[0].rel != cmps[1].rel {
				bad += fmt.Sprintf(" primary comparison uses %s but the tie-break uses %s;", cmps[0].rel, cmps[1].rel)
			}
		}
		if bad != "" {
			c.R.Bad("T8b-endpoint-order", cons, p.Pos(cc.Pos()), strings.TrimSpace(bad))
		} else {
			c.R.OK("T8b-endpoint-order", cons, p.Pos(cc.Pos()), fmt.Sprintf("side %d (%s[%d]): coordinate %d, relation %s, tie-break alike", k, sd.side, sd.axis, 1-sd.axis, cmps[0].rel))
		}
		return true
	})
	c.R.Floor("T8b-endpoint-order", nCases, 4)
}
