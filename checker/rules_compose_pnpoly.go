package main

import "fmt"

// smartclip.polygonContains: "some vertex of r is inside outer" by the crossing-number test written inline.
// Judged on the comparisons the path itself made: for every vertex p = (x, y) of r and every edge (i, j) of the
// implicitly closed outer ring, the path must have settled yi > y and yj > y; when exactly one holds the edge
// straddles the horizontal through p, and the path must have settled x < xi + (xj-xi)(y-yi)/(yj-yi) - the
// abscissa where the edge meets that horizontal - in that form or in one that differs by the positive or
// negative factor (yj-yi).  A vertex is inside when an odd number of straddling edges pass to its right; the
// answer is true exactly when the path established that for some vertex.

type pnpolyCtx struct {
	outer, r [][2]*fterm
}

func pnpolySpecs(thorough bool) []composeSpec {
	type shape struct{ n, m int }
	shapes := []shape{{0, 1}, {1, 1}, {2, 1}, {3, 1}, {3, 2}}
	if thorough {
		shapes = append(shapes, shape{4, 1})
	}
	var cases []composeCase
	for _, sh := range shapes {
		sh := sh
		cases = append(cases, composeCase{fmt.Sprintf("outer ring of %d vertices, %d vertices tested", sh.n, sh.m), func(it *Interp, s *State) ([]AV, interface{}) {
			outer := it.buildGeom(s, pts("Ring", sh.n)).(SliceV)
			r := it.buildGeom(s, pts("Ring", sh.m)).(SliceV)
			ctx := &pnpolyCtx{}
			for _, e := range membersOf(s, outer) {
				ctx.outer = append(ctx.outer, pointTerms(it, e))
			}
			for _, e := range membersOf(s, r) {
				ctx.r = append(ctx.r, pointTerms(it, e))
			}
			return []AV{outer, r}, ctx
		}})
	}
	return []composeSpec{{
		entry: "clip/smartclip.polygonContains", terms: true, splitBools: true, cases: cases,
		desc: "true exactly when, for some vertex of the second ring, the comparisons made on the path establish that an odd number of edges of the implicitly closed first ring straddle the horizontal through the vertex and meet it to the vertex's right (each edge's meeting abscissa xi + (xj-xi)(y-yi)/(yj-yi))",
		judge: func(it *Interp, cx interface{}, st *State) string {
			ctx := cx.(*pnpolyCtx)
			got, ok := exactBool(st.result[0])
			if !ok {
				return "the answer is not decided on this path"
			}
			g := pathOrderTerms(it, st)
			zero := termConst(0)
			above := func(a, y *fterm) int { // a > y: 1 yes, 0 no, -1 not settled
				switch {
				case g.less(y, a):
					return 1
				case g.leq(a, y):
					return 0
				}
				return -1
			}
			// inside: 1 / 0 / -1 (not settled by the path)
			inside := func(p [2]*fterm) (int, string) {
				n := len(ctx.outer)
				par := 0
				for i := 0; i < n; i++ {
					j := (i + n - 1) % n
					pi, pj := ctx.outer[i], ctx.outer[j]
					ai, aj := above(pi[1], p[1]), above(pj[1], p[1])
					if ai < 0 || aj < 0 {
						return -1, fmt.Sprintf("edge %d-%d: whether its ends are above the vertex is not settled", j, i)
					}
					if ai == aj {
						continue
					}
					dy := termAdd(pj[1], pi[1], -1) // yj - yi: positive when only j is above
					dySign := 1
					if ai == 1 {
						dySign = -1
					}
					// xref - x
					xref := termAdd(pi[0], termDiv(termMul(termAdd(pj[0], pi[0], -1), termAdd(p[1], pi[1], -1)), dy), 1)
					want := termAdd(xref, p[0], -1)
					settled := 0 // +1: x < xref established, -1: x >= xref established
					for _, tr := range st.trail {
						f := tr.Fact
						if f == nil || f.A == nil || f.B == nil {
							continue
						}
						d := termAdd(f.B, f.A, -1)
						if d == nil {
							continue
						}
						k := 0 // d = k * want with k's sign known
						switch {
						case termEqual(d, want):
							k = 1
						case termEqual(termAdd(zero, d, -1), want):
							k = -1
						case termEqual(d, termMul(want, dy)):
							k = dySign
						case termEqual(termAdd(zero, d, -1), termMul(want, dy)):
							k = -dySign
						}
						if k == 0 {
							continue
						}
						op := f.Op
						if !f.Taken {
							op = map[string]string{"<": ">=", "<=": ">", ">": "<=", ">=": "<"}[op]
						}
						// A op B  <=>  (B - A) op' 0 ; with d = k*want
						pos := op == "<"     // d > 0
						nonpos := op == ">=" // d <= 0
						neg := op == ">"     // d < 0
						nonneg := op == "<=" // d >= 0
						if k < 0 {
							pos, neg = neg, pos
							nonpos, nonneg = nonneg, nonpos
						}
						now := 0
						switch {
						case pos: // want > 0: x < xref
							now = 1
						case nonpos, neg:
							now = -1
						case nonneg:
							// x <= xref: not the test (a vertex exactly on an edge is counted differently)
						}
						if now != 0 && settled != 0 && now != settled {
							return -2, "" // the path assumed both outcomes of the same comparison (written in two equal forms): not a feasible path
						}
						if now != 0 {
							settled = now
						}
					}
					if settled == 0 {
						return -1, fmt.Sprintf("edge %d-%d straddles the vertex's horizontal, but no comparison on this path settles whether it meets it to the vertex's right", j, i)
					}
					if settled == 1 {
						par ^= 1
					}
				}
				return par, ""
			}
			anyIn, why := false, ""
			allOut := true
			for _, p := range ctx.r {
				in, w := inside(p)
				if in == -2 {
					return ""
				}
				if in == 1 {
					anyIn = true
				}
				if in != 0 {
					allOut = false
					if in < 0 && why == "" {
						why = w
					}
				}
			}
			switch {
			case got && anyIn, !got && allOut:
				return ""
			case got:
				if why != "" {
					return "true is answered, but for no vertex do the path's comparisons establish an odd number of crossings: " + why
				}
				return "true is answered, but the path's comparisons put every vertex outside (an even number of crossings)"
			default:
				if why != "" {
					return "false is answered, but the path's comparisons do not put every vertex outside: " + why
				}
				return "false is answered, but the path's comparisons put a vertex inside (an odd number of crossings)"
			}
		},
	}}
}
