package main

// A-comp specs for the WKB/EWKB round trip (C01).  The encoder is run on a
// geometry whose coordinates are unknowns with identities; every byte it
// writes is followed individually (constant header bytes, or eight bits of one
// coordinate, interp_precise.go / interp_bits.go).  The abstract output is then
// handed to each decoder (byte slice, stream, SQL scanner) in the same state,
// and the decoded value must have the kind, nesting, lengths and the very
// coordinates (by identity, hence bit for bit) of the original; the SRID that
// was written must come back.

import (
	"fmt"
	"go/types"
	"strings"

	"golang.org/x/tools/go/ssa"
)

type wkbCtx struct {
	framing string // scanner input framing: "" raw, "hex", "xhex", "prefix"
	prefix  IntV   // the SRID in a 4-byte prefix
	dest    string // scanner destination kind ("" = none)
	orig    IfaceV
	want    string // expected content of the decoded geometry ("" = nothing is encoded)
	srid    IntV
	ewkb    bool
	little  bool
}

// wkbNormal: the content a decoder must return for v: rings and bounds come
// back as one-ring polygons, nil slices inside a geometry as empty ones.
func wkbNormal(st *State, v AV) string {
	switch x := v.(type) {
	case IfaceV:
		if x.Nil || x.Typ == nil {
			return "nil-interface"
		}
		k := kindName(x.Typ)
		switch k {
		case "Ring":
			return "Polygon:[" + wkbNormal(st, x.Val) + "]"
		case "Bound":
			b, ok := x.Val.(StructV)
			if !ok {
				return "?"
			}
			mn, mx := b.Fields[0].(ArrV), b.Fields[1].(ArrV)
			pt := func(a, b AV) string { return identString(ArrV{N: 2, Elems: []AV{a, b}}) }
			c := []string{pt(mn.Elems[0], mn.Elems[1]), pt(mx.Elems[0], mn.Elems[1]), pt(mx.Elems[0], mx.Elems[1]), pt(mn.Elems[0], mx.Elems[1]), pt(mn.Elems[0], mn.Elems[1])}
			return "Polygon:[[" + strings.Join(c, " ") + "]]"
		}
		return k + ":" + wkbNormal(st, x.Val)
	case SliceV:
		if x.Nil {
			return "[]"
		}
		arr, ok := st.heap[x.Arr].(ArrV)
		if !ok || arr.Elems == nil || x.Hi > len(arr.Elems) {
			return "?"
		}
		var parts []string
		for _, e := range arr.Elems[x.Lo:x.Hi] {
			parts = append(parts, wkbNormal(st, e))
		}
		return "[" + strings.Join(parts, " ") + "]"
	}
	return identString(v)
}

func wkbHyps(thorough bool) []*GeomHyp {
	r4 := func() *GeomHyp { return pts("Ring", 4) }
	hs := []*GeomHyp{
		nil,
		{Kind: "Point"},
		pts("MultiPoint", 0), pts("MultiPoint", 2), nilOf("MultiPoint"),
		pts("LineString", 0), pts("LineString", 3), nilOf("LineString"),
		of("MultiLineString"), of("MultiLineString", pts("LineString", 2), pts("LineString", 0), pts("LineString", 3)),
		pts("Ring", 4), pts("Ring", 0),
		of("Polygon"), of("Polygon", r4()), of("Polygon", r4(), pts("Ring", 3)), of("Polygon", pts("Ring", 0)),
		of("MultiPolygon"), of("MultiPolygon", of("Polygon", r4(), r4()), of("Polygon"), of("Polygon", r4())),
		{Kind: "Bound"},
		of("Collection"), nilOf("Collection"),
		of("Collection", &GeomHyp{Kind: "Point"}, pts("LineString", 2), of("Polygon", r4()), of("MultiPolygon", of("Polygon", r4()), of("Polygon", r4())), of("MultiLineString", pts("LineString", 2), pts("LineString", 2))),
		of("Collection", of("Collection", &GeomHyp{Kind: "Point"}, of("Collection", pts("MultiPoint", 2))), pts("MultiPoint", 1)),
	}
	if thorough {
		hs = append(hs, pts("LineString", 1), pts("LineString", 6), pts("MultiPoint", 5),
			of("MultiLineString", pts("LineString", 1)), of("MultiLineString", pts("LineString", 2), pts("LineString", 2)),
			of("MultiPolygon", of("Polygon", r4())), of("MultiPolygon", of("Polygon", r4()), of("Polygon", r4(), r4(), r4())),
			of("Collection", pts("Ring", 4), &GeomHyp{Kind: "Bound"}),
			of("Collection", of("Collection", of("Collection", of("Collection", &GeomHyp{Kind: "Point"})))))
	}
	return hs
}

func byteOrderValue(p *Program, little bool) (AV, bool) {
	pkg := p.Prog.ImportedPackage("encoding/binary")
	if pkg == nil {
		return nil, false
	}
	name := "BigEndian"
	if little {
		name = "LittleEndian"
	}
	g, ok := pkg.Members[name].(*ssa.Global)
	if !ok {
		return nil, false
	}
	t := g.Type().(*types.Pointer).Elem()
	return IfaceV{Typ: t, Val: StructV{}}, true
}

type wkbVariant struct {
	label  string
	ewkb   bool
	srid   bool // a symbolic non-zero SRID
	little bool
}

func wkbRoundTripSpecs(thorough bool) []composeSpec {
	variants := []wkbVariant{
		{"wkb little-endian", false, false, true},
		{"wkb big-endian", false, false, false},
		{"ewkb little-endian no SRID", true, false, true},
		{"ewkb big-endian with SRID", true, true, false},
		{"ewkb little-endian with SRID", true, true, true},
	}
	mkCases := func() []composeCase {
		var cases []composeCase
		for _, v := range variants {
			for _, h := range wkbHyps(thorough) {
				v, h := v, h
				lab := "nil"
				if h != nil {
					lab = h.String()
				}
				cases = append(cases, composeCase{v.label + ": " + lab, func(it *Interp, s *State) ([]AV, interface{}) {
					g := it.buildIface(s, h)
					ctx := &wkbCtx{ewkb: v.ewkb, little: v.little, srid: intOf(0)}
					ctx.want = wkbNormal(s, g)
					// a nil geometry or a nil top-level slice encodes to no bytes
					if iv, _ := g.(IfaceV); iv.Nil {
						ctx.want = ""
					} else if sl, isSl := iv.Val.(SliceV); isSl && sl.Nil {
						ctx.want = ""
					}
					bo, _ := byteOrderValue(it.p, v.little)
					orders := SliceV{Arr: it.newCell(s, ArrV{N: 1, Elems: []AV{bo}}), Hi: 1, Cap: 1}
					if !v.ewkb {
						return []AV{g, orders}, ctx
					}
					if v.srid {
						sr := it.freshSym(s, 1, 1<<31-1, false)
						sr.Bits = bitsLits(sr.Sym, 31)
						ctx.srid = sr
					}
					return []AV{g, ctx.srid, orders}, ctx
				}})
			}
		}
		return cases
	}
	// result of Marshal: (bytes, err)
	marshalled := func(st *State) (SliceV, string) {
		if len(st.result) != 2 {
			return SliceV{}, "Marshal did not return (bytes, error)"
		}
		if isNil, known := nilness(st.result[1]); !known || !isNil {
			return SliceV{}, "Marshal returns an error"
		}
		b, ok := st.result[0].(SliceV)
		if !ok || b.Top {
			return SliceV{}, "the encoded bytes are not followed individually"
		}
		return b, ""
	}
	sameSRID := func(want, got AV) bool {
		w, _ := want.(IntV)
		g, ok := got.(IntV)
		if !ok {
			return false
		}
		if w.Known {
			return g.Known && g.V == w.V
		}
		wb, gb := bitsOfInt(w), bitsOfInt(g)
		return wb != nil && gb != nil && *wb == *gb
	}
	judgeDecoded := func(ctx *wkbCtx, st *State, g AV, srid AV, err AV, where string) string {
		if isNil, known := nilness(err); !known || !isNil {
			return where + " returns an error for bytes the encoder produced"
		}
		if got := wkbNormal(st, g); got != ctx.want {
			return fmt.Sprintf("%s returns %s, the encoded value was %s", where, got, ctx.want)
		}
		if srid != nil && !sameSRID(ctx.srid, srid) {
			return where + " does not return the SRID that was written"
		}
		return ""
	}
	nothingEncoded := func(ctx *wkbCtx, st *State) (bool, string) {
		if ctx.want != "" {
			return false, ""
		}
		b, ok := st.result[0].(SliceV)
		if !ok || !b.Nil && b.Hi-b.Lo != 0 {
			return true, "a nil geometry must encode to no bytes"
		}
		return true, ""
	}

	var specs []composeSpec
	for _, pkgName := range []string{"wkb", "ewkb"} {
		pkgName := pkgName
		isE := pkgName == "ewkb"
		var cases []composeCase
		for _, c := range mkCases() {
			if strings.HasPrefix(c.label, "ewkb") == isE {
				cases = append(cases, c)
			}
		}
		pfx := "encoding/" + pkgName + "."
		// 1. one-shot byte decoder
		specs = append(specs, composeSpec{
			entry: pfx + "Marshal", tag: "then Unmarshal", precise: true, anyPath: true, cases: cases,
			desc: "Unmarshal(Marshal(g)) has the kind, nesting, lengths and the very coordinates of g (ring and bound as their one-ring polygon), with the SRID that was written; nil encodes to no bytes",
			steps: []composeStep{func(it *Interp, st *State, cx interface{}) (string, []AV, bool) {
				ctx := cx.(*wkbCtx)
				if ctx.want == "" {
					return "", nil, false
				}
				b, why := marshalled(st)
				if why != "" {
					return "", nil, false
				}
				st.notes = map[string]AV{"bytes": b}
				return pfx + "Unmarshal", []AV{b}, true
			}},
			judge: func(it *Interp, cx interface{}, st *State) string {
				ctx := cx.(*wkbCtx)
				if done, why := nothingEncoded(ctx, st); done {
					return why
				}
				if st.notes == nil {
					_, why := marshalled(st)
					return why
				}
				if isE {
					if len(st.result) != 3 {
						return "Unmarshal did not return (geometry, srid, error)"
					}
					return judgeDecoded(ctx, st, st.result[0], st.result[1], st.result[2], "the byte-slice decoder")
				}
				if len(st.result) != 2 {
					return "Unmarshal did not return (geometry, error)"
				}
				return judgeDecoded(ctx, st, st.result[0], nil, st.result[1], "the byte-slice decoder")
			},
		})
		// 2. streaming decoder
		specs = append(specs, composeSpec{
			entry: pfx + "Marshal", tag: "then stream Decode", precise: true, anyPath: true, cases: cases,
			desc: "NewDecoder(reader over Marshal(g)).Decode() returns the same value as the byte-slice decoder: the kind, nesting, lengths and coordinates of g and the SRID that was written",
			steps: []composeStep{
				func(it *Interp, st *State, cx interface{}) (string, []AV, bool) {
					ctx := cx.(*wkbCtx)
					if ctx.want == "" {
						return "", nil, false
					}
					b, why := marshalled(st)
					if why != "" {
						return "", nil, false
					}
					st.notes = map[string]AV{"bytes": b}
					rd := it.preciseObj(st, "reader", b, intOf(0))
					rt := types.NewPointer(it.p.Prog.ImportedPackage("bytes").Type("Reader").Type())
					return pfx + "NewDecoder", []AV{IfaceV{Typ: rt, Val: rd}}, true
				},
				func(it *Interp, st *State, cx interface{}) (string, []AV, bool) {
					if st.notes == nil || len(st.result) != 1 {
						return "", nil, false
					}
					st.notes["decoder"] = st.result[0]
					return pfx + "(*Decoder).Decode", []AV{st.result[0]}, true
				},
			},
			judge: func(it *Interp, cx interface{}, st *State) string {
				ctx := cx.(*wkbCtx)
				if done, why := nothingEncoded(ctx, st); done {
					return why
				}
				if st.notes == nil || st.notes["decoder"] == nil {
					return "the stream decoder could not be constructed on the encoder's output"
				}
				if isE {
					if len(st.result) != 3 {
						return "Decode did not return (geometry, srid, error)"
					}
					return judgeDecoded(ctx, st, st.result[0], st.result[1], st.result[2], "the stream decoder")
				}
				if len(st.result) != 2 {
					return "Decode did not return (geometry, error)"
				}
				return judgeDecoded(ctx, st, st.result[0], nil, st.result[1], "the stream decoder")
			},
		})
		// 2b. streaming decoder over a reader that returns one byte per Read (io.ReadFull still fills)
		specs = append(specs, composeSpec{
			entry: pfx + "Marshal", tag: "then stream Decode, one byte per Read", precise: true, anyPath: true, cases: cases,
			desc: "NewDecoder(reader over Marshal(g)).Decode() returns the same value as the byte-slice decoder: the kind, nesting, lengths and coordinates of g and the SRID that was written",
			steps: []composeStep{
				func(it *Interp, st *State, cx interface{}) (string, []AV, bool) {
					ctx := cx.(*wkbCtx)
					if ctx.want == "" {
						return "", nil, false
					}
					b, why := marshalled(st)
					if why != "" {
						return "", nil, false
					}
					st.notes = map[string]AV{"bytes": b}
					rd := it.preciseObj(st, "reader1", b, intOf(0))
					rt := types.NewPointer(it.p.Prog.ImportedPackage("bytes").Type("Reader").Type())
					return pfx + "NewDecoder", []AV{IfaceV{Typ: rt, Val: rd}}, true
				},
				func(it *Interp, st *State, cx interface{}) (string, []AV, bool) {
					if st.notes == nil || len(st.result) != 1 {
						return "", nil, false
					}
					st.notes["decoder"] = st.result[0]
					return pfx + "(*Decoder).Decode", []AV{st.result[0]}, true
				},
			},
			judge: func(it *Interp, cx interface{}, st *State) string {
				ctx := cx.(*wkbCtx)
				if done, why := nothingEncoded(ctx, st); done {
					return why
				}
				if st.notes == nil || st.notes["decoder"] == nil {
					return "the stream decoder could not be constructed on the encoder's output"
				}
				if isE {
					if len(st.result) != 3 {
						return "Decode did not return (geometry, srid, error)"
					}
					return judgeDecoded(ctx, st, st.result[0], st.result[1], st.result[2], "the stream decoder (short reads)")
				}
				if len(st.result) != 2 {
					return "Decode did not return (geometry, error)"
				}
				return judgeDecoded(ctx, st, st.result[0], nil, st.result[1], "the stream decoder (short reads)")
			},
		})
	}
	// 3. SQL scanner, every destination type
	scanHyps := []*GeomHyp{
		{Kind: "Point"}, pts("MultiPoint", 1), pts("MultiPoint", 2), pts("LineString", 2),
		of("MultiLineString", pts("LineString", 2)), of("MultiLineString", pts("LineString", 2), pts("LineString", 2)),
		of("Polygon", pts("Ring", 4)), of("Polygon", pts("Ring", 4), pts("Ring", 4)), pts("Ring", 4),
		of("MultiPolygon", of("Polygon", pts("Ring", 4))), of("MultiPolygon", of("Polygon", pts("Ring", 4)), of("Polygon", pts("Ring", 4))),
		of("Collection", &GeomHyp{Kind: "Point"}),
	}
	dests := []string{"", "Point", "MultiPoint", "LineString", "MultiLineString", "Ring", "Polygon", "MultiPolygon", "Collection", "Bound"}
	for _, pkgName := range []string{"wkb", "ewkb"} {
		pkgName := pkgName
		isE := pkgName == "ewkb"
		pfx := "encoding/" + pkgName + "."
		v := wkbVariant{"wkb little-endian", false, false, true}
		if isE {
			v = wkbVariant{"ewkb big-endian with SRID", true, true, false}
		}
		var cases []composeCase
		for _, h := range scanHyps {
			for _, d := range dests {
				h, d := h, d
				dl := d
				if dl == "" {
					dl = "no destination"
				} else {
					dl = "into *" + dl
				}
				cases = append(cases, composeCase{v.label + ": " + h.String() + " " + dl, func(it *Interp, s *State) ([]AV, interface{}) {
					g := it.buildIface(s, h).(IfaceV)
					ctx := &wkbCtx{ewkb: v.ewkb, little: v.little, srid: intOf(0)}
					ctx.dest = d
					ctx.orig = g
					ctx.want = wkbNormal(s, g)
					bo, _ := byteOrderValue(it.p, v.little)
					orders := SliceV{Arr: it.newCell(s, ArrV{N: 1, Elems: []AV{bo}}), Hi: 1, Cap: 1}
					if !v.ewkb {
						return []AV{g, orders}, ctx
					}
					sr := it.freshSym(s, 1, 1<<31-1, false)
					sr.Bits = bitsLits(sr.Sym, 31)
					ctx.srid = sr
					return []AV{g, ctx.srid, orders}, ctx
				}})
			}
		}
		// input framings (no destination): hex text, \\x-prefixed hex text, 4-byte SRID prefix
		framings := []string{"hex", "xhex"}
		if isE {
			framings = append(framings, "prefix")
		}
		for _, h := range []*GeomHyp{{Kind: "Point"}, pts("LineString", 2), of("Polygon", pts("Ring", 4)), of("Collection", &GeomHyp{Kind: "Point"}, pts("LineString", 2))} {
			for _, fr := range framings {
				for _, little := range []bool{true, false} {
					h, fr, little := h, fr, little
					lab := map[string]string{"hex": "as hex text", "xhex": "as \\\\x hex text", "prefix": "after a 4-byte SRID prefix"}[fr]
					ord := "big-endian"
					if little {
						ord = "little-endian"
					}
					cases = append(cases, composeCase{pkgName + " " + ord + ": " + h.String() + " " + lab, func(it *Interp, s *State) ([]AV, interface{}) {
						g := it.buildIface(s, h).(IfaceV)
						ctx := &wkbCtx{ewkb: isE, little: little, srid: intOf(0), framing: fr, orig: g}
						ctx.want = wkbNormal(s, g)
						bo, _ := byteOrderValue(it.p, little)
						orders := SliceV{Arr: it.newCell(s, ArrV{N: 1, Elems: []AV{bo}}), Hi: 1, Cap: 1}
						if !isE {
							return []AV{g, orders}, ctx
						}
						if fr == "prefix" {
							sr := it.freshSym(s, 1, 1<<31-1, false)
							sr.Bits = bitsLits(sr.Sym, 31)
							ctx.prefix = sr
							return []AV{g, intOf(0), orders}, ctx
						}
						sr := it.freshSym(s, 1, 1<<31-1, false)
						sr.Bits = bitsLits(sr.Sym, 31)
						ctx.srid = sr
						return []AV{g, ctx.srid, orders}, ctx
					}})
				}
			}
		}
		specs = append(specs, composeSpec{
			entry: pfx + "Marshal", tag: "then Scanner.Scan", precise: true, anyPath: true, cases: cases,
			desc: "Scanner(dest).Scan(Marshal(g)) yields the value the byte decoder yields, under the documented coercions (one-member multi to single, single to one-member multi, one-ring polygon to ring, anything to a bound), in the scanner's Geometry and in *dest, Valid = true, the SRID that was written; a wrong-geometry error for every other kind mismatch",
			steps: []composeStep{
				func(it *Interp, st *State, cx interface{}) (string, []AV, bool) {
					ctx := cx.(*wkbCtx)
					b, why := marshalled(st)
					if why != "" {
						return "", nil, false
					}
					st.notes = map[string]AV{"bytes": b}
					var dest AV = IfaceV{Nil: true}
					if ctx.dest != "" {
						kt := it.p.Kind(ctx.dest)
						cell := it.newCell(st, zeroOf(kt))
						st.notes["dest"] = PtrV{Cell: cell}
						dest = IfaceV{Typ: types.NewPointer(kt), Val: PtrV{Cell: cell}}
					}
					if ctx.framing == "prefix" {
						return pfx + "ScannerPrefixSRID", []AV{dest}, true
					}
					return pfx + "Scanner", []AV{dest}, true
				},
				func(it *Interp, st *State, cx interface{}) (string, []AV, bool) {
					if st.notes == nil || len(st.result) != 1 {
						return "", nil, false
					}
					st.notes["scanner"] = st.result[0]
					ctx := cx.(*wkbCtx)
					raw := st.notes["bytes"]
					if ctx.framing != "" {
						bs, _ := it.byteElems(st, raw)
						switch ctx.framing {
						case "hex":
							bs = hexText(bs)
						case "xhex":
							bs = append([]AV{intOf('\\'), intOf('x')}, hexText(bs)...)
						case "prefix":
							pb, _ := splitBytes(ctx.prefix, 4)
							bs = append(pb, bs...)
						}
						raw = it.newByteSlice(st, bs)
					}
					data := IfaceV{Typ: types.NewSlice(types.Typ[types.Uint8]), Val: raw}
					return pfx + "(*GeometryScanner).Scan", []AV{st.result[0], data}, true
				},
			},
			judge: func(it *Interp, cx interface{}, st *State) string {
				ctx := cx.(*wkbCtx)
				if st.notes == nil || st.notes["scanner"] == nil {
					return "the scanner could not be run on the encoder's output"
				}
				sp, _ := st.notes["scanner"].(PtrV)
				obj, ok := st.heap[sp.Cell].(StructV)
				if !ok {
					return "the scanner's state is not followed"
				}
				// fields by name
				fn := it.p.funcByShortKey(pfx + "(*GeometryScanner).Scan")
				stt := fn.Signature.Recv().Type().(*types.Pointer).Elem().Underlying().(*types.Struct)
				field := func(name string) AV {
					for i := 0; i < stt.NumFields(); i++ {
						if stt.Field(i).Name() == name {
							return obj.Fields[i]
						}
					}
					return nil
				}
				want, wantErr, anyValue := scanExpectation(st, ctx)
				errNil, known := nilness(st.result[0])
				if !known {
					return "whether Scan fails is not decided"
				}
				valid, _ := exactBool(field("Valid"))
				if wantErr {
					if errNil {
						return "Scan accepts a geometry of the wrong kind for the destination"
					}
					if valid {
						return "Scan fails but leaves Valid = true"
					}
					return ""
				}
				if !errNil {
					return "Scan fails although the destination can take the encoded geometry"
				}
				if !valid {
					return "Scan succeeds but Valid is false"
				}
				wantSRID := AV(ctx.srid)
				if ctx.framing == "prefix" {
					wantSRID = ctx.prefix
				}
				if isE && !sameSRID(wantSRID, field("SRID")) {
					return "the scanner's SRID is not the one that was written"
				}
				if anyValue {
					return ""
				}
				if got := wkbNormal(st, field("Geometry")); got != want {
					return fmt.Sprintf("the scanner's Geometry is %s, want %s", got, want)
				}
				if d, ok := st.notes["dest"].(PtrV); ok {
					dv := st.heap[d.Cell]
					got := ctx.dest + ":" + wkbNormal(st, dv)
					if ctx.dest == "Ring" {
						got = "Polygon:[" + wkbNormal(st, dv) + "]"
					}
					if got != want {
						return fmt.Sprintf("*dest is %s, want %s", got, want)
					}
				}
				return ""
			},
		})
	}
	// 4. driver.Valuer paths: Value(g).Value() / ValuePrefixSRID(g, srid).Value(), read back by the matching scanner
	type valuerDef struct {
		ctor, method, scanner string
		ewkb, prefix          bool
	}
	for _, vd := range []valuerDef{
		{"encoding/wkb.Value", "encoding/wkb.(value).Value", "encoding/wkb.Scanner", false, false},
		{"encoding/ewkb.Value", "encoding/ewkb.(value).Value", "encoding/ewkb.Scanner", true, false},
		{"encoding/ewkb.ValuePrefixSRID", "encoding/ewkb.(valuePrefixSRID).Value", "encoding/ewkb.ScannerPrefixSRID", true, true},
	} {
		vd := vd
		scanFn := strings.TrimSuffix(vd.scanner, "Scanner")
		scanFn = strings.TrimSuffix(scanFn, "ScannerPrefixSRID")
		pkg := "encoding/wkb."
		if vd.ewkb {
			pkg = "encoding/ewkb."
		}
		var cases []composeCase
		for _, h := range []*GeomHyp{nil, {Kind: "Point"}, nilOf("LineString"), pts("LineString", 0), pts("LineString", 2), of("Polygon", pts("Ring", 4)), {Kind: "Bound"}, of("Collection", &GeomHyp{Kind: "Point"}), nilOf("Collection")} {
			h := h
			lab := "nil"
			if h != nil {
				lab = h.String()
			}
			cases = append(cases, composeCase{lab, func(it *Interp, s *State) ([]AV, interface{}) {
				g := it.buildIface(s, h)
				ctx := &wkbCtx{ewkb: vd.ewkb, srid: intOf(0)}
				ctx.want = wkbNormal(s, g)
				if iv, _ := g.(IfaceV); iv.Nil {
					ctx.want = ""
				} else if sl, isSl := iv.Val.(SliceV); isSl && sl.Nil {
					ctx.want = ""
				}
				if !vd.ewkb {
					return []AV{g}, ctx
				}
				sr := it.freshSym(s, 1, 1<<31-1, false)
				sr.Bits = bitsLits(sr.Sym, 31)
				ctx.srid = sr
				return []AV{g, sr}, ctx
			}})
		}
		specs = append(specs, composeSpec{
			entry: vd.ctor, tag: "Value() then Scan", precise: true, anyPath: true, cases: cases,
			desc: "the valuer yields no value (nil) for a nil geometry and otherwise bytes that the matching scanner reads back as the same geometry and SRID",
			steps: []composeStep{
				func(it *Interp, st *State, cx interface{}) (string, []AV, bool) {
					iv, ok := st.result[0].(IfaceV)
					if !ok || iv.Nil {
						return "", nil, false
					}
					st.notes = map[string]AV{"valuer": iv}
					return vd.method, []AV{iv.Val}, true
				},
				func(it *Interp, st *State, cx interface{}) (string, []AV, bool) {
					if st.notes == nil || len(st.result) != 2 {
						return "", nil, false
					}
					st.notes["value"] = st.result[0]
					st.notes["verr"] = st.result[1]
					return vd.scanner, []AV{IfaceV{Nil: true}}, true
				},
				func(it *Interp, st *State, cx interface{}) (string, []AV, bool) {
					if st.notes == nil || st.notes["value"] == nil || len(st.result) != 1 {
						return "", nil, false
					}
					st.notes["scanner"] = st.result[0]
					return pkg + "(*GeometryScanner).Scan", []AV{st.result[0], st.notes["value"]}, true
				},
			},
			judge: func(it *Interp, cx interface{}, st *State) string {
				ctx := cx.(*wkbCtx)
				if st.notes == nil || st.notes["scanner"] == nil {
					return "the valuer's output could not be handed to the scanner"
				}
				if isNil, known := nilness(st.notes["verr"]); !known || !isNil {
					return "Value() returns an error"
				}
				val, _ := st.notes["value"].(IfaceV)
				if ctx.want == "" {
					if !val.Nil {
						return "a nil geometry must give no value (nil), so that the database stores NULL"
					}
				} else if val.Nil {
					return "Value() gives nil for a non-nil geometry"
				}
				sp, _ := st.notes["scanner"].(PtrV)
				obj, ok := st.heap[sp.Cell].(StructV)
				if !ok {
					return "the scanner's state is not followed"
				}
				fn := it.p.funcByShortKey(pkg + "(*GeometryScanner).Scan")
				stt := fn.Signature.Recv().Type().(*types.Pointer).Elem().Underlying().(*types.Struct)
				field := func(name string) AV {
					for i := 0; i < stt.NumFields(); i++ {
						if stt.Field(i).Name() == name {
							return obj.Fields[i]
						}
					}
					return nil
				}
				if isNil, known := nilness(st.result[0]); !known || !isNil {
					return "the scanner rejects what the valuer produced"
				}
				valid, _ := exactBool(field("Valid"))
				if ctx.want == "" {
					if valid {
						return "a NULL value scans as valid"
					}
					return ""
				}
				if !valid {
					return "the scanned value is not valid"
				}
				if got := wkbNormal(st, field("Geometry")); got != ctx.want {
					return fmt.Sprintf("the scanner reads back %s, the valuer was given %s", got, ctx.want)
				}
				if vd.ewkb && !sameSRID(ctx.srid, field("SRID")) {
					return "the scanner does not read back the SRID given to the valuer"
				}
				return ""
			},
		})
	}
	return specs
}

// scanExpectation: what Scan must produce for the encoded geometry and the
// destination kind: (content, wrong-geometry error expected, any value accepted).
func scanExpectation(st *State, ctx *wkbCtx) (string, bool, bool) {
	k := kindName(ctx.orig.Typ)
	if k == "Ring" {
		k = "Polygon" // a ring is written as its one-ring polygon
	}
	full := ctx.want
	member := func() (string, int) {
		// content of the single member of a multi geometry, and the member count
		sl, _ := ctx.orig.Val.(SliceV)
		ms := membersOf(st, sl)
		if len(ms) != 1 {
			return "", len(ms)
		}
		return wkbNormal(st, ms[0]), 1
	}
	single := map[string]string{"MultiPoint": "Point", "MultiLineString": "LineString", "MultiPolygon": "Polygon"}
	multi := map[string]string{"Point": "MultiPoint", "LineString": "MultiLineString", "Polygon": "MultiPolygon"}
	switch {
	case ctx.dest == "" || ctx.dest == k:
		return full, false, false
	case ctx.dest == "Bound":
		return "", false, true
	case single[k] == ctx.dest:
		if c, n := member(); n == 1 {
			return ctx.dest + ":" + c, false, false
		}
		return "", true, false
	case multi[k] == ctx.dest:
		return ctx.dest + ":[" + strings.TrimPrefix(full, k+":") + "]", false, false
	case ctx.dest == "Ring" && k == "Polygon":
		inner := strings.TrimPrefix(full, "Polygon:")
		if kindName(ctx.orig.Typ) == "Ring" {
			return full, false, false
		}
		sl, _ := ctx.orig.Val.(SliceV)
		if len(membersOf(st, sl)) == 1 {
			return "Polygon:" + inner, false, false
		}
		return "", true, false
	}
	return "", true, false
}
