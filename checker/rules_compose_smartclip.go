package main

// A-comp specs for smart clipping (C16): how Polygon, MultiPolygon and
// addToMultiPolygon put together what clipRings, smartWrap and polygonContains
// answer.  The answers are fresh values with identities; the result must be
// the stated assembly: wrapped polygons first, then every untouched outer ring
// as a polygon of its own, and every untouched hole attached - through the
// containment test - to a polygon of that complete list.

import (
	"fmt"
	"strings"

	"golang.org/x/tools/go/ssa"
)

type smartCtx struct {
	box string
}

func smartclipSpecs(thorough bool) []composeSpec {
	freshPoint := func(it *Interp, s *State) AV { return freePointAV(it) }
	freshRing := freshSliceOf(4, freshPoint)
	freshLine := freshSliceOf(3, freshPoint)
	listOf := func(n int, el func(it *Interp, s *State) AV) func(it *Interp, s *State) AV {
		return func(it *Interp, s *State) AV {
			if n == 0 {
				return SliceV{Nil: true}
			}
			return freshSliceOf(n, el)(it, s)
		}
	}
	// clipRings answers (open lines, closed rings): 0..2 of each
	clipRingsOracle := func(*ssa.Function) oracleFunc {
		return func(it *Interp, s *State, _ []AV) [][]AV {
			var outs [][]AV
			for o := 0; o <= 2; o++ {
				for c := 0; c <= 2; c++ {
					outs = append(outs, []AV{listOf(o, freshLine)(it, s), listOf(c, freshRing)(it, s)})
				}
			}
			return outs
		}
	}
	// smartWrap answers one or two polygons of one ring each
	smartWrapOracle := func(*ssa.Function) oracleFunc {
		return func(it *Interp, s *State, _ []AV) [][]AV {
			poly := freshSliceOf(1, freshRing)
			return [][]AV{{freshSliceOf(1, poly)(it, s)}, {freshSliceOf(2, poly)(it, s)}}
		}
	}
	// addToMultiPolygon answers a fresh multi polygon
	addOracle := func(*ssa.Function) oracleFunc {
		return func(it *Interp, s *State, _ []AV) [][]AV {
			return [][]AV{{freshSliceOf(1, freshSliceOf(1, freshRing))(it, s)}}
		}
	}
	content := func(st *State, v AV) []string {
		var out []string
		for _, e := range membersOf(st, v) {
			out = append(out, contentString(st, e))
		}
		return out
	}
	eq := func(a, b []string) bool { return strings.Join(a, " | ") == strings.Join(b, " | ") }

	// the chain of hole attachments: each closed inner ring is handed, in order, to addToMultiPolygon
	// together with the complete list so far; returns the expected final content
	chain := func(st *State, start []string, holes []AV, adds []oracleEvent, what string) ([]string, string) {
		if len(adds) != len(holes) {
			return nil, fmt.Sprintf("%d untouched hole(s) stay inside the box but %d are attached through the containment test", len(holes), len(adds))
		}
		cur := start
		for k, ev := range adds {
			if got := content(st, ev.Args[0]); !eq(got, cur) {
				return nil, fmt.Sprintf("hole %d is attached against a list of %d polygon(s), but %s has %d at that point: a polygon the hole may lie in is not looked at", k, len(got), what, len(cur))
			}
			if contentString(st, ev.Args[1]) != contentString(st, holes[k]) {
				return nil, fmt.Sprintf("the %d-th attachment is not of the %d-th untouched hole", k, k)
			}
			cur = content(st, ev.Out[0])
		}
		return cur, ""
	}
	polygonOf := func(st *State, ring AV) string { return "[" + contentString(st, ring) + "]" }

	boxArg := func(it *Interp) AV { return StructV{Fields: []AV{freePointAV(it), freePointAV(it)}} }
	orient := intOf(1)

	var specs []composeSpec
	// --- Polygon ---------------------------------------------------------
	specs = append(specs, composeSpec{
		entry: "clip/smartclip.Polygon",
		desc:  "nothing when no ring reaches into the box; the polygon itself when no ring is cut; otherwise the wrapped polygons, with every untouched hole either appended to the only wrapped polygon or attached through the containment test against all of them",
		oracles: map[string]func(*ssa.Function) oracleFunc{
			"clip/smartclip.clipRings": clipRingsOracle, "clip/smartclip.smartWrap": smartWrapOracle, "clip/smartclip.addToMultiPolygon": addOracle,
		},
		cases: []composeCase{{"polygon with two holes", func(it *Interp, s *State) ([]AV, interface{}) {
			pg := it.buildGeom(s, of("Polygon", pts("Ring", 4), pts("Ring", 4), pts("Ring", 4)))
			return []AV{boxArg(it), pg, orient}, contentString(s, pg)
		}}},
		judge: func(it *Interp, cx interface{}, st *State) string {
			input := cx.(string)
			cr := eventsOf(st, "clip/smartclip.clipRings")
			if len(cr) != 1 {
				return fmt.Sprintf("the rings are clipped %d time(s), want once", len(cr))
			}
			open, closed := membersOf(st, cr[0].Out[0]), membersOf(st, cr[0].Out[1])
			res, _ := st.result[0].(SliceV)
			got := content(st, res)
			wraps := eventsOf(st, "clip/smartclip.smartWrap")
			adds := eventsOf(st, "clip/smartclip.addToMultiPolygon")
			if len(open) == 0 {
				if len(wraps)+len(adds) != 0 {
					return "nothing is cut, yet pieces are wrapped or holes attached"
				}
				if len(closed) == 0 {
					if !res.Nil && len(got) != 0 {
						return "no ring reaches into the box but the result is not empty"
					}
					return ""
				}
				if len(got) != 1 || got[0] != input {
					return "no ring is cut: the polygon must come back as it is"
				}
				return ""
			}
			if len(wraps) != 1 {
				return fmt.Sprintf("the cut pieces are wrapped %d time(s), want once", len(wraps))
			}
			if !eq(content(st, wraps[0].Args[1]), content(st, cr[0].Out[0])) {
				return "the pieces handed to smartWrap are not the open pieces clipRings returned"
			}
			wrapped := content(st, wraps[0].Out[0])
			if len(wrapped) == 1 && len(adds) == 0 {
				// fast path: the holes go to the only polygon (whose slice the append may have replaced in place:
				// the wrapped ring itself is read, not the polygon's present content)
				polys := membersOf(st, wraps[0].Out[0])
				rings := membersOf(st, polys[0])
				want := "[" + contentString(st, rings[0])
				for _, h := range closed {
					want += " " + contentString(st, h)
				}
				want += "]"
				if len(got) != 1 || got[0] != want {
					return "one wrapped polygon: its ring followed by every untouched hole is expected"
				}
				return ""
			}
			want, why := chain(st, wrapped, closed, adds, "the wrapped list")
			if why != "" {
				return why
			}
			if !eq(got, want) {
				return "the result is not what the last hole attachment returned"
			}
			return ""
		},
	})
	// --- MultiPolygon ----------------------------------------------------
	specs = append(specs, composeSpec{
		entry: "clip/smartclip.MultiPolygon",
		desc:  "nothing when no outer ring reaches into the box; the input when no outer ring is cut; otherwise the wrapped polygons, then every untouched outer ring as a polygon, and only then every untouched hole attached through the containment test against that complete list",
		oracles: map[string]func(*ssa.Function) oracleFunc{
			"clip/smartclip.clipRings": clipRingsOracle, "clip/smartclip.smartWrap": smartWrapOracle, "clip/smartclip.addToMultiPolygon": addOracle,
		},
		cases: []composeCase{{"two polygons, one with a hole", func(it *Interp, s *State) ([]AV, interface{}) {
			mp := it.buildGeom(s, of("MultiPolygon", of("Polygon", pts("Ring", 4), pts("Ring", 4)), of("Polygon", pts("Ring", 4))))
			return []AV{boxArg(it), mp, orient}, strings.Join(func() []string {
				var o []string
				for _, e := range membersOf(s, mp) {
					o = append(o, contentString(s, e))
				}
				return o
			}(), " | ")
		}}},
		judge: func(it *Interp, cx interface{}, st *State) string {
			input := cx.(string)
			cr := eventsOf(st, "clip/smartclip.clipRings")
			res, _ := st.result[0].(SliceV)
			got := content(st, res)
			if len(cr) == 0 {
				return "the outer rings are never clipped"
			}
			outers, closedOuters := membersOf(st, cr[0].Out[0]), membersOf(st, cr[0].Out[1])
			wraps := eventsOf(st, "clip/smartclip.smartWrap")
			adds := eventsOf(st, "clip/smartclip.addToMultiPolygon")
			if len(outers) == 0 {
				if len(closedOuters) == 0 {
					if !res.Nil && len(got) != 0 {
						return "no outer ring reaches into the box but the result is not empty"
					}
					return ""
				}
				if strings.Join(got, " | ") != input {
					return "no outer ring is cut: the multi polygon must come back as it is"
				}
				return ""
			}
			if len(cr) != 2 {
				return fmt.Sprintf("clipRings is called %d time(s), want once for the outer rings and once for the holes", len(cr))
			}
			inners, closedInners := membersOf(st, cr[1].Out[0]), membersOf(st, cr[1].Out[1])
			if len(wraps) != 1 {
				return fmt.Sprintf("the cut pieces are wrapped %d time(s), want once", len(wraps))
			}
			var pieces []string
			for _, e := range append(append([]AV(nil), outers...), inners...) {
				pieces = append(pieces, contentString(st, e))
			}
			if !eq(content(st, wraps[0].Args[1]), pieces) {
				return "the pieces handed to smartWrap are not the cut outer pieces followed by the cut hole pieces"
			}
			start := content(st, wraps[0].Out[0])
			for _, o := range closedOuters {
				start = append(start, polygonOf(st, o))
			}
			want, why := chain(st, start, closedInners, adds, "wrapped polygons plus untouched outer rings")
			if why != "" {
				return why
			}
			if !eq(got, want) {
				return fmt.Sprintf("the result has %d polygon(s); wrapped polygons, untouched outer rings and attached holes give %d", len(got), len(want))
			}
			return ""
		},
	})
	// --- addToMultiPolygon -----------------------------------------------
	var addCases []composeCase
	for m := 0; m <= 3; m++ {
		m := m
		addCases = append(addCases, composeCase{fmt.Sprintf("%d polygons", m), func(it *Interp, s *State) ([]AV, interface{}) {
			var ps []*GeomHyp
			for i := 0; i < m; i++ {
				ps = append(ps, of("Polygon", pts("Ring", 4)))
			}
			mp := it.buildGeom(s, of("MultiPolygon", ps...))
			ring := it.buildGeom(s, pts("Ring", 4))
			var outers, polys []string
			for _, e := range membersOf(s, mp) {
				polys = append(polys, contentString(s, e))
				outers = append(outers, contentString(s, membersOf(s, e)[0]))
			}
			return []AV{mp, ring}, [3][]string{outers, polys, {contentString(s, ring)}}
		}})
	}
	specs = append(specs, composeSpec{
		entry: "clip/smartclip.addToMultiPolygon", cases: addCases,
		desc:    "the ring becomes a hole of the first polygon whose outer ring contains it; nothing changes when none does",
		oracles: map[string]func(*ssa.Function) oracleFunc{"clip/smartclip.polygonContains": oracleBools(1)},
		judge: func(it *Interp, cx interface{}, st *State) string {
			ctx := cx.([3][]string)
			outers, polys, ring := ctx[0], ctx[1], ctx[2][0]
			hit := -1
			asked := map[int]bool{}
			for _, ev := range eventsOf(st, "clip/smartclip.polygonContains") {
				o := contentString(st, ev.Args[0])
				if contentString(st, ev.Args[1]) != ring {
					return "the containment test is not asked about the ring"
				}
				idx := -1
				for i, x := range outers {
					if x == o {
						idx = i
					}
				}
				if idx < 0 {
					return "the containment test is asked about something that is not a polygon's outer ring"
				}
				asked[idx] = true
				if b, _ := exactBool(ev.Out[0]); b && hit < 0 {
					hit = idx
				}
			}
			res, _ := st.result[0].(SliceV)
			got := content(st, res)
			var want []string
			for i, pg := range polys {
				if i == hit {
					pg = strings.TrimSuffix(pg, "]") + " " + ring + "]"
				}
				want = append(want, pg)
			}
			if hit < 0 {
				for i := range polys {
					if !asked[i] {
						return fmt.Sprintf("polygon %d is never asked whether it contains the ring", i)
					}
				}
			}
			if !eq(got, want) {
				return "the ring is not attached to the first polygon that contains it (or the list is otherwise changed)"
			}
			return ""
		},
	})
	return specs
}
