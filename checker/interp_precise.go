package main

// Byte-precise library models (Interp.Precise).  Used by the codec round-trip
// rules: the bytes an encoder writes are followed individually (constants, or
// eight bits of an unknown coordinate) through bytes.Buffer, the byte-order
// helpers, math.Float64bits/frombits, bytes.Reader and io.ReadFull, so that a
// decoder run on the abstract output can be compared with the original value.

import (
	"go/types"
	"math"
	"strings"

	"golang.org/x/tools/go/ssa"
)

func (it *Interp) preciseObj(s *State, kind string, fields ...AV) PtrV {
	c := it.newCell(s, StructV{Fields: fields})
	if it.preciseKind == nil {
		it.preciseKind = map[int]string{}
	}
	it.preciseKind[c] = kind
	return PtrV{Cell: c}
}

func (it *Interp) preciseKindOf(v AV) (int, string) {
	p, ok := v.(PtrV)
	if !ok || p.Nil || p.Top || len(p.Path) != 0 {
		return 0, ""
	}
	return p.Cell, it.preciseKind[p.Cell]
}

// byteElems: the materialised bytes of a slice.
func (it *Interp) byteElems(s *State, v AV) ([]AV, bool) {
	sl, ok := v.(SliceV)
	if !ok || sl.Top {
		return nil, false
	}
	if sl.Nil {
		return nil, true
	}
	arr, ok := s.heap[sl.Arr].(ArrV)
	if !ok {
		return nil, false
	}
	out := make([]AV, 0, sl.Hi-sl.Lo)
	for i := sl.Lo; i < sl.Hi; i++ {
		if arr.Elems != nil && i < len(arr.Elems) {
			out = append(out, arr.Elems[i])
		} else {
			out = append(out, arr.Def)
		}
	}
	return out, true
}

func (it *Interp) newByteSlice(s *State, elems []AV) SliceV {
	arr := ArrV{N: len(elems), Elems: elems, Def: intOf(0)}
	return SliceV{Arr: it.newCell(s, arr), Hi: len(elems), Cap: len(elems)}
}

func (it *Interp) storeBytes(s *State, dst AV, bytes []AV) bool {
	sl, ok := dst.(SliceV)
	if !ok || sl.Nil || sl.Top || sl.Hi-sl.Lo < len(bytes) {
		return false
	}
	arr, ok := s.heap[sl.Arr].(ArrV)
	if !ok {
		return false
	}
	e := make([]AV, arr.N)
	for i := range e {
		if arr.Elems != nil && i < len(arr.Elems) {
			e[i] = arr.Elems[i]
		} else {
			e[i] = arr.Def
		}
	}
	for i, b := range bytes {
		e[sl.Lo+i] = b
	}
	s.heap[sl.Arr] = ArrV{N: arr.N, Elems: e, Def: arr.Def}
	return true
}

// splitBytes: the n bytes of an integer value, least significant first.
func splitBytes(v IntV, n int) ([]AV, bool) {
	b := bitsOfInt(v)
	if b == nil {
		return nil, false
	}
	out := make([]AV, n)
	for k := 0; k < n; k++ {
		var bv bitVec
		for i := 0; i < 8; i++ {
			bv.B[i] = b.B[8*k+i]
		}
		if c, ok := bv.constVal(); ok {
			out[k] = intOf(int64(c))
		} else {
			bb := bv
			out[k] = IntV{Bits: &bb}
		}
	}
	return out, true
}

func joinBytes(bs []AV) (IntV, bool) {
	var r bitVec
	for k, b := range bs {
		iv, ok := b.(IntV)
		if !ok {
			return IntV{}, false
		}
		bb := bitsOfInt(iv)
		if bb == nil {
			return IntV{}, false
		}
		for i := 0; i < 8; i++ {
			r.B[8*k+i] = bb.B[i]
		}
	}
	if c, ok := r.constVal(); ok {
		return intOf(int64(c)), true
	}
	if sym, _, ok := r.litsOf(); ok {
		return IntV{Sym: sym, A: 1, Bits: &r}, true
	}
	return IntV{Bits: &r}, true
}

func (it *Interp) preciseByteOrder(s *State, little bool, method string, args []AV) (AV, bool) {
	n := map[string]int{"Uint16": 2, "Uint32": 4, "Uint64": 8, "PutUint16": 2, "PutUint32": 4, "PutUint64": 8}[method]
	if n == 0 || len(args) == 0 {
		return nil, false
	}
	if strings.HasPrefix(method, "Put") {
		v, ok := args[1].(IntV)
		if !ok {
			return nil, false
		}
		bs, ok := splitBytes(v, n)
		if !ok {
			return nil, false
		}
		if !little {
			for i, j := 0, len(bs)-1; i < j; i, j = i+1, j-1 {
				bs[i], bs[j] = bs[j], bs[i]
			}
		}
		sl, ok := args[0].(SliceV)
		if !ok || sl.Hi-sl.Lo < n {
			return nil, false
		}
		sl.Hi = sl.Lo + n
		if !it.storeBytes(s, sl, bs) {
			return nil, false
		}
		return nil, true
	}
	bs, ok := it.byteElems(s, args[0])
	if !ok || len(bs) < n {
		return nil, false
	}
	bs = append([]AV(nil), bs[:n]...)
	if !little {
		for i, j := 0, len(bs)-1; i < j; i, j = i+1, j-1 {
			bs[i], bs[j] = bs[j], bs[i]
		}
	}
	v, ok := joinBytes(bs)
	if !ok {
		return nil, false
	}
	return v, true
}

// preciseExternal: (result, handled)
func (it *Interp) preciseExternal(s *State, fr *Frame, call *ssa.Call, name string, args []AV) (AV, bool) {
	switch {
	case name == "math.Float64bits":
		f, ok := args[0].(FloatV)
		if !ok {
			return nil, false
		}
		if f.Known {
			return intOf(int64(math.Float64bits(f.V))), true
		}
		if f.Sym > 0 {
			return IntV{Bits: bitsLits(f.Sym, 64)}, true
		}
	case name == "math.Float64frombits":
		v, ok := args[0].(IntV)
		if ok && v.Known {
			return FloatV{Known: true, V: math.Float64frombits(uint64(v.V))}, true
		}
		if !ok || v.Bits == nil {
			return nil, false
		}
		sym := int(v.Bits.B[0].Sym)
		if sym > 0 && *v.Bits == *bitsLits(sym, 64) {
			return FloatV{Sym: sym, Finite: true, Input: true}, true
		}
		// some other mixture of bits: an unknown float, but not the one that was written
		it.nextSym++
		return FloatV{Sym: it.nextSym}, true
	case name == "encoding/hex.Decode":
		// hex.Decode(dst, src): pairs of hex digits of the same byte give that byte back
		src, ok := it.byteElems(s, args[1])
		if !ok {
			return nil, false
		}
		if len(src)%2 != 0 {
			return TupleV{Vals: []AV{intOf(0), nonNilError()}}, true
		}
		out := make([]AV, 0, len(src)/2)
		for i := 0; i+1 < len(src); i += 2 {
			hi, ok1 := src[i].(IntV)
			lo, ok2 := src[i+1].(IntV)
			if !ok1 || !ok2 {
				return nil, false
			}
			switch {
			case hi.Known && lo.Known:
				val := func(c int64) (int64, bool) {
					switch {
					case c >= '0' && c <= '9':
						return c - '0', true
					case c >= 'a' && c <= 'f':
						return c - 'a' + 10, true
					case c >= 'A' && c <= 'F':
						return c - 'A' + 10, true
					}
					return 0, false
				}
				h, okh := val(hi.V)
				l, okl := val(lo.V)
				if !okh || !okl {
					return TupleV{Vals: []AV{intOf(int64(len(out))), nonNilError()}}, true
				}
				out = append(out, intOf(h<<4|l))
			case hi.Hex != nil && lo.Hex != nil && hi.Hex.Hi && !lo.Hex.Hi && hi.Hex.Of.Bits != nil && lo.Hex.Of.Bits != nil && *hi.Hex.Of.Bits == *lo.Hex.Of.Bits:
				out = append(out, hi.Hex.Of)
			default:
				return nil, false
			}
		}
		if !it.storeBytes(s, SliceV{Arr: args[0].(SliceV).Arr, Lo: args[0].(SliceV).Lo, Hi: args[0].(SliceV).Lo + len(out), Cap: args[0].(SliceV).Cap}, out) {
			return nil, false
		}
		return TupleV{Vals: []AV{intOf(int64(len(out))), IfaceV{Nil: true}}}, true
	case name == "bytes.NewBuffer":
		if _, ok := it.byteElems(s, args[0]); !ok {
			return nil, false
		}
		return it.preciseObj(s, "buffer", args[0]), true
	case strings.HasPrefix(name, "bytes.(*Buffer)."):
		cell, kind := it.preciseKindOf(args[0])
		if kind != "buffer" {
			return nil, false
		}
		obj := s.heap[cell].(StructV)
		cur, _ := it.byteElems(s, obj.Fields[0])
		switch strings.TrimPrefix(name, "bytes.(*Buffer).") {
		case "Write":
			p, ok := it.byteElems(s, args[1])
			if !ok {
				return nil, false
			}
			s.heap[cell] = StructV{Fields: []AV{it.newByteSlice(s, append(append([]AV(nil), cur...), p...))}}
			return TupleV{Vals: []AV{intOf(int64(len(p))), IfaceV{Nil: true}}}, true
		case "WriteByte":
			s.heap[cell] = StructV{Fields: []AV{it.newByteSlice(s, append(append([]AV(nil), cur...), args[1]))}}
			return IfaceV{Nil: true}, true
		case "Bytes":
			return obj.Fields[0], true
		case "Len":
			return intOf(int64(len(cur))), true
		case "Grow", "Reset":
			return nil, false
		}
	case name == "bytes.NewReader":
		if _, ok := it.byteElems(s, args[0]); !ok {
			return nil, false
		}
		return it.preciseObj(s, "reader", args[0], intOf(0)), true
	case name == "bytes.(*Reader).Read" || name == "io.ReadFull":
		ri := 0
		var rv AV = args[0]
		if iv, ok := rv.(IfaceV); ok {
			rv = iv.Val
		}
		cell, kind := it.preciseKindOf(rv)
		if kind != "reader" && kind != "reader1" {
			return nil, false
		}
		_ = ri
		obj := s.heap[cell].(StructV)
		data, _ := it.byteElems(s, obj.Fields[0])
		off, _ := obj.Fields[1].(IntV)
		dst, ok := args[1].(SliceV)
		if !ok || !off.Known {
			return nil, false
		}
		want := dst.Hi - dst.Lo
		avail := len(data) - int(off.V)
		n := want
		if avail < n {
			n = avail
		}
		if kind == "reader1" && name != "io.ReadFull" && n > 1 {
			n = 1 // a reader may deliver fewer bytes than asked for: this one delivers one at a time
		}
		if n > 0 {
			d := dst
			d.Hi = d.Lo + n
			if !it.storeBytes(s, d, data[off.V:int(off.V)+n]) {
				return nil, false
			}
		}
		s.heap[cell] = StructV{Fields: []AV{obj.Fields[0], intOf(off.V + int64(n))}}
		var err AV = IfaceV{Nil: true}
		if n < want && (name == "io.ReadFull" || n == 0) && want > 0 && (kind != "reader1" || avail < want) {
			err = nonNilError() // io.EOF / io.ErrUnexpectedEOF
		}
		return TupleV{Vals: []AV{intOf(int64(n)), err}}, true
	case strings.HasPrefix(name, "encoding/binary.(littleEndian).") || strings.HasPrefix(name, "encoding/binary.(bigEndian)."):
		little := strings.Contains(name, "(littleEndian)")
		return it.preciseByteOrder(s, little, name[strings.LastIndex(name, ".")+1:], args[1:])
	}
	return nil, false
}

// preciseInvoke: interface method calls on the modelled library objects.
func (it *Interp) preciseInvoke(s *State, fr *Frame, call *ssa.Call, recv IfaceV, args []AV) (AV, bool) {
	m := call.Call.Method.Name()
	if recv.Typ != nil {
		tn := types.TypeString(recv.Typ, nil)
		switch tn {
		case "encoding/binary.littleEndian", "encoding/binary.bigEndian":
			return it.preciseByteOrder(s, tn == "encoding/binary.littleEndian", m, args)
		case "*bytes.Buffer":
			return it.preciseExternal(s, fr, call, "bytes.(*Buffer)."+m, append([]AV{recv.Val}, args...))
		case "*bytes.Reader":
			return it.preciseExternal(s, fr, call, "bytes.(*Reader)."+m, append([]AV{recv.Val}, args...))
		}
	}
	return nil, false
}

// hexText: the lower-case hex text of a byte sequence (unknown bytes become
// pairs of abstract hex digits).
func hexText(bs []AV) []AV {
	const digits = "0123456789abcdef"
	var out []AV
	for _, b := range bs {
		iv, _ := b.(IntV)
		if iv.Known {
			out = append(out, intOf(int64(digits[iv.V>>4&15])), intOf(int64(digits[iv.V&15])))
			continue
		}
		out = append(out, IntV{Hex: &hexChar{Of: iv, Hi: true}}, IntV{Hex: &hexChar{Of: iv, Hi: false}})
	}
	return out
}
