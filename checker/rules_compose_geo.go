package main

import (
	"fmt"
	"go/constant"
	"go/types"
	"math"
	"math/big"
)

// geo.ringArea: invariance and the box identity, with sin an uninterpreted function of its argument.
//
//   - rotating the start vertex leaves the area unchanged, reversing the ring negates it: the function is run
//     on the ring and on the rotated / reversed ring (the same vertices), and the two results must be the same
//     rational function of the coordinates and of the sines (one the negation of the other);
//   - for the box (l,b) (r,b) (r,t) (l,t), open or closed, the area is K * (r-l) * (sin(c*t) - sin(c*b)) with
//     K = orb.EarthRadius^2 * pi/180 and c = pi/180 up to 1e-9.

type geoAreaCtx struct {
	second AV
	negate bool
	box    [4]int // atoms l, b, r, t
}

func geoRingInvarianceSpecs(thorough bool) []composeSpec {
	maxN := 5
	if thorough {
		maxN = 6
	}
	var cases []composeCase
	for n := 3; n <= maxN; n++ {
		for _, closed := range []bool{false, true} {
			for k := 1; k <= n; k++ { // k == n: the reversal
				n, closed, k := n, closed, k
				lab := fmt.Sprintf("%d vertices", n)
				if closed {
					lab += " and the closing point"
				}
				if k == n {
					lab += ", reversed"
				} else {
					lab += fmt.Sprintf(", started at vertex %d", k)
				}
				cases = append(cases, composeCase{lab, func(it *Interp, s *State) ([]AV, interface{}) {
					var vs []AV
					for i := 0; i < n; i++ {
						vs = append(vs, freePointAV(it))
					}
					mk := func(order []int) AV {
						var el []AV
						for _, i := range order {
							el = append(el, vs[i])
						}
						if closed {
							el = append(el, vs[order[0]])
						}
						return SliceV{Arr: it.newCell(s, ArrV{N: len(el), Elems: el, Def: ArrV{N: 2, Elems: []AV{FloatV{Finite: true}, FloatV{Finite: true}}}}), Hi: len(el), Cap: len(el)}
					}
					var first, second []int
					for i := 0; i < n; i++ {
						first = append(first, i)
						if k == n {
							second = append(second, n-1-i)
						} else {
							second = append(second, (i+k)%n)
						}
					}
					return []AV{mk(first)}, &geoAreaCtx{second: mk(second), negate: k == n}
				}})
			}
		}
	}
	steps := []composeStep{func(it *Interp, st *State, cx interface{}) (string, []AV, bool) {
		ctx := cx.(*geoAreaCtx)
		if st.notes == nil {
			st.notes = map[string]AV{}
		}
		st.notes["first"] = st.result[0]
		return "geo.ringArea", []AV{ctx.second}, true
	}}
	inv := composeSpec{
		entry: "geo.ringArea", tag: "rotation and reversal", terms: true, generalPosition: true, steps: steps, cases: cases,
		desc: "the signed area of a ring is the same rational function of the coordinates and of the sines of the latitudes whichever vertex the ring starts at, and its negation for the reversed ring",
		judge: func(it *Interp, cx interface{}, st *State) string {
			ctx := cx.(*geoAreaCtx)
			a, b := floatTerm(it, st.notes["first"]), floatTerm(it, st.result[0])
			if a == nil || b == nil {
				return "an area is not a followed quantity"
			}
			if a.isZero() || b.isZero() {
				return "the area is identically zero"
			}
			if ctx.negate {
				b = termAdd(termConst(0), b, -1)
			}
			if !termEqual(a, b) {
				if ctx.negate {
					return "the area of the reversed ring is not the negation of the ring's area"
				}
				return "the area changes with the vertex the ring starts at"
			}
			return ""
		},
	}
	var boxCases []composeCase
	for _, closed := range []bool{false, true} {
		for rot := 0; rot < 4; rot++ {
			closed, rot := closed, rot
			lab := fmt.Sprintf("box started at corner %d", rot)
			if closed {
				lab += " with the closing point"
			}
			boxCases = append(boxCases, composeCase{lab, func(it *Interp, s *State) ([]AV, interface{}) {
				l, b, r, t := it.freeFloat().(FloatV), it.freeFloat().(FloatV), it.freeFloat().(FloatV), it.freeFloat().(FloatV)
				corners := []AV{
					ArrV{N: 2, Elems: []AV{l, b}}, ArrV{N: 2, Elems: []AV{r, b}}, ArrV{N: 2, Elems: []AV{r, t}}, ArrV{N: 2, Elems: []AV{l, t}},
				}
				var el []AV
				for i := 0; i < 4; i++ {
					el = append(el, corners[(i+rot)%4])
				}
				if closed {
					el = append(el, el[0])
				}
				ring := SliceV{Arr: it.newCell(s, ArrV{N: len(el), Elems: el, Def: ArrV{N: 2, Elems: []AV{FloatV{Finite: true}, FloatV{Finite: true}}}}), Hi: len(el), Cap: len(el)}
				return []AV{ring}, &geoAreaCtx{box: [4]int{l.Sym, b.Sym, r.Sym, t.Sym}}
			}})
		}
	}
	box := composeSpec{
		entry: "geo.ringArea", tag: "box", terms: true, generalPosition: true, cases: boxCases,
		desc: "the area of the counter-clockwise longitude/latitude box (l,b)-(r,t) is K*(r-l)*(sin(c*t) - sin(c*b)) with K = orb.EarthRadius^2*pi/180 and c = pi/180 (to 1e-9)",
		judge: func(it *Interp, cx interface{}, st *State) string {
			ctx := cx.(*geoAreaCtx)
			res := floatTerm(it, st.result[0])
			if res == nil {
				return "the area is not a followed quantity"
			}
			// the sine atoms of the two latitudes: sin(c * atom)
			sinOf := func(atom int) (int, float64) {
				for id, fn := range it.atomFn {
					if fn != "sin" {
						continue
					}
					arg := it.absOf[id]
					if arg == nil || len(arg.N) != 1 || len(arg.D) != 1 {
						continue
					}
					for k, c := range arg.N {
						m := parseMono(k)
						if len(m) == 1 && m[atom] == 1 {
							d := arg.D[""]
							if d == nil {
								continue
							}
							f, _ := new(big.Rat).Quo(c, d).Float64()
							return id, f
						}
					}
				}
				return 0, 0
			}
			sb, cb := sinOf(ctx.box[1])
			stp, ct := sinOf(ctx.box[3])
			if sb == 0 || stp == 0 {
				return "the sines of the two latitudes do not occur in the area"
			}
			c := math.Pi / 180
			if math.Abs(cb-c) > 1e-9*c || math.Abs(ct-c) > 1e-9*c {
				return "a latitude is not converted to radians by pi/180 before its sine is taken"
			}
			shape := termMul(termAdd(termAtom(ctx.box[2]), termAtom(ctx.box[0]), -1), termAdd(termAtom(stp), termAtom(sb), -1))
			ratio := termDiv(res, shape)
			if ratio == nil || len(ratio.N) == 0 {
				return "the area is not a multiple of (r-l)*(sin t - sin b)"
			}
			// a constant ratio: numerator and denominator are proportional polynomials
			var k *big.Rat
			for mono, cn := range ratio.N {
				cd, ok := ratio.D[mono]
				if !ok {
					return "the area is not a constant multiple of (r-l)*(sin t - sin b)"
				}
				q := new(big.Rat).Quo(cn, cd)
				if k == nil {
					k = q
				} else if k.Cmp(q) != 0 {
					return "the area is not a constant multiple of (r-l)*(sin t - sin b)"
				}
			}
			if len(ratio.N) != len(ratio.D) {
				return "the area is not a constant multiple of (r-l)*(sin t - sin b)"
			}
			kf, _ := k.Float64()
			R := 0.0
			if pk := it.p.Pkgs[orbPath]; pk != nil {
				if cst, ok := pk.Types.Scope().Lookup("EarthRadius").(*types.Const); ok {
					R, _ = constant.Float64Val(constant.ToFloat(cst.Val()))
				}
			}
			if R == 0 {
				return "orb.EarthRadius is not found"
			}
			want := R * R * c
			if math.Abs(kf-want) > 1e-9*want {
				return fmt.Sprintf("the box area is %.6g * (r-l)*(sin t - sin b), want R^2*pi/180 = %.6g", kf, want)
			}
			return ""
		},
	}
	return []composeSpec{inv, box}
}

// geo.Distance / DistanceHaversine are symmetric: the function is run on (p, q) and on (q, p); both results
// must be the same expression in the coordinates, with abs / cos even, sin odd and atan2, sqrt uninterpreted.
func geoSymmetrySpecs(thorough bool) []composeSpec {
	type symCtx struct{ p, q AV }
	mk := func(entry string) composeSpec {
		return composeSpec{
			entry: entry, tag: "symmetry", terms: true, generalPosition: true,
			cases: []composeCase{{"any two points", func(it *Interp, s *State) ([]AV, interface{}) {
				p, q := freePointAV(it), freePointAV(it)
				return []AV{p, q}, &symCtx{p: p, q: q}
			}}},
			steps: []composeStep{func(it *Interp, st *State, cx interface{}) (string, []AV, bool) {
				ctx := cx.(*symCtx)
				if st.notes == nil {
					st.notes = map[string]AV{}
				}
				st.notes["first"] = st.result[0]
				return entry, []AV{ctx.q, ctx.p}, true
			}},
			desc: "the distance from p to q and from q to p are the same expression in the coordinates (abs and cos even, sin odd, sqrt and atan2 uninterpreted)",
			judge: func(it *Interp, cx interface{}, st *State) string {
				a, b := floatTerm(it, st.notes["first"]), floatTerm(it, st.result[0])
				if a == nil || b == nil {
					return "a distance is not a followed quantity"
				}
				if !termEqual(a, b) {
					return "the distance from p to q is not the expression that the distance from q to p is"
				}
				return ""
			},
		}
	}
	return []composeSpec{mk("geo.Distance"), mk("geo.DistanceHaversine")}
}
