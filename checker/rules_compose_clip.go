package main

// A-comp specs for the clipping helpers (C07, C08): a multi geometry is clipped
// member by member.  With the member clipper uninterpreted (it answers "nothing
// left" or a fresh non-empty piece), the result must be the members' non-empty
// answers in order, every member clipped exactly once against the same box.

import (
	"fmt"
	"strings"

	"golang.org/x/tools/go/ssa"
)

type clipCtx struct {
	box    string
	member map[string]int
	n      int
}

// oracleNilOrFresh: the member clipper returns nothing, or a fresh non-empty value.
func oracleNilOrFresh(fresh func(it *Interp, s *State) AV, empty AV) func(*ssa.Function) oracleFunc {
	return func(*ssa.Function) oracleFunc {
		return func(it *Interp, s *State, _ []AV) [][]AV {
			return [][]AV{{empty}, {fresh(it, s)}}
		}
	}
}

func freshSliceOf(n int, elem func(it *Interp, s *State) AV) func(it *Interp, s *State) AV {
	return func(it *Interp, s *State) AV {
		arr := ArrV{N: n, Elems: make([]AV, n)}
		for i := range arr.Elems {
			arr.Elems[i] = elem(it, s)
		}
		return SliceV{Arr: it.newCell(s, arr), Hi: n, Cap: n}
	}
}

func clipMemberSpecsAll(thorough bool) []composeSpec {
	maxM := 3
	if thorough {
		maxM = 5
	}
	freshPoint := func(it *Interp, s *State) AV { return freePointAV(it) }
	freshRing := freshSliceOf(4, freshPoint)
	freshLine := freshSliceOf(2, freshPoint)
	freshPolygon := freshSliceOf(1, freshRing)
	boxOf := func(it *Interp) (AV, string) {
		b := StructV{Fields: []AV{freePointAV(it), freePointAV(it)}}
		return b, identString(b)
	}
	mkCases := func(kind string, member func() *GeomHyp, from int, extra ...AV) []composeCase {
		var cases []composeCase
		for m := from; m <= maxM; m++ {
			m := m
			cases = append(cases, composeCase{fmt.Sprintf("%d members", m), func(it *Interp, s *State) ([]AV, interface{}) {
				var hs []*GeomHyp
				for i := 0; i < m; i++ {
					hs = append(hs, member())
				}
				g := it.buildGeom(s, of(kind, hs...))
				b, bid := boxOf(it)
				ctx := &clipCtx{box: bid, member: map[string]int{}, n: m}
				for i, e := range membersOf(s, g) {
					if iv, ok := e.(IfaceV); ok {
						ctx.member[identString(iv.Val)] = i
					} else {
						ctx.member[identString(e)] = i
					}
				}
				return append([]AV{b, g}, extra...), ctx
			}})
		}
		return cases
	}
	// judge: result == the kept answers in member order (concat: each answer is a list to append)
	mkJudge := func(oracle string, memberArg int, nonEmpty func(st *State, out AV) bool, concat bool, headRule bool) func(it *Interp, cx interface{}, st *State) string {
		return func(it *Interp, cx interface{}, st *State) string {
			ctx := cx.(*clipCtx)
			by := map[int][]oracleEvent{}
			for _, ev := range eventsOf(st, oracle) {
				if identString(ev.Args[0]) != ctx.box {
					return fmt.Sprintf("the member clipper at %s is not given the box", ev.Pos)
				}
				a := ev.Args[memberArg]
				if iv, ok := a.(IfaceV); ok {
					a = iv.Val
				}
				i, ok := ctx.member[identString(a)]
				if !ok {
					return fmt.Sprintf("the member clipper at %s is given a value that is not a member", ev.Pos)
				}
				by[i] = append(by[i], ev)
			}
			var want []string
			headGone := false
			for i := 0; i < ctx.n; i++ {
				if headGone {
					break
				}
				if len(by[i]) != 1 {
					return fmt.Sprintf("member %d is clipped %d time(s), want once", i, len(by[i]))
				}
				out := by[i][0].Out[0]
				if !nonEmpty(st, out) {
					if headRule && i == 0 {
						headGone = true // the outer ring is gone: nothing remains, the holes need not be looked at
					}
					continue
				}
				if concat {
					for _, e := range membersOf(st, out) {
						want = append(want, contentString(st, e))
					}
				} else {
					want = append(want, contentString(st, out))
				}
			}
			if headGone {
				want = nil
			}
			var got []string
			if res, ok := st.result[0].(SliceV); ok {
				for _, e := range membersOf(st, res) {
					got = append(got, contentString(st, e))
				}
			} else {
				return "the result is not a list"
			}
			if strings.Join(got, " | ") != strings.Join(want, " | ") {
				return fmt.Sprintf("the result has %d part(s), the members' non-empty answers in order are %d: a member's answer is lost, repeated, reordered or replaced", len(got), len(want))
			}
			return ""
		}
	}
	sliceNonEmpty := func(st *State, out AV) bool {
		sl, ok := out.(SliceV)
		return ok && !sl.Nil && sl.Hi-sl.Lo > 0
	}
	ifaceNonNil := func(st *State, out AV) bool {
		iv, ok := out.(IfaceV)
		return ok && !iv.Nil
	}
	ring4 := func() *GeomHyp { return pts("Ring", 4) }
	return []composeSpec{
		{
			entry: "clip.MultiPolygon", cases: mkCases("MultiPolygon", func() *GeomHyp { return of("Polygon", ring4()) }, 0),
			desc:    "the member polygons' non-empty clips, in order, each member clipped once against the box",
			oracles: map[string]func(*ssa.Function) oracleFunc{"clip.Polygon": oracleNilOrFresh(freshPolygon, SliceV{Nil: true})},
			judge:   mkJudge("clip.Polygon", 1, sliceNonEmpty, false, false),
		},
		{
			entry: "clip.Polygon", cases: mkCases("Polygon", ring4, 1),
			desc:    "nothing when the outer ring clips to nothing, otherwise the outer ring's clip followed by the holes' non-empty clips in order",
			oracles: map[string]func(*ssa.Function) oracleFunc{"clip.Ring": oracleNilOrFresh(freshRing, SliceV{Nil: true})},
			judge:   mkJudge("clip.Ring", 1, sliceNonEmpty, false, true),
		},
		{
			entry: "clip.MultiLineString", cases: mkCases("MultiLineString", func() *GeomHyp { return pts("LineString", 3) }, 0, SliceV{Nil: true}),
			desc: "the concatenation of the member lines' clipped pieces, in order, each member clipped once against the box",
			oracles: map[string]func(*ssa.Function) oracleFunc{"clip.line": func(*ssa.Function) oracleFunc {
				return func(it *Interp, s *State, _ []AV) [][]AV {
					return [][]AV{{SliceV{Nil: true}}, {freshSliceOf(1, freshLine)(it, s)}, {freshSliceOf(2, freshLine)(it, s)}}
				}
			}},
			judge: mkJudge("clip.line", 1, sliceNonEmpty, true, false),
		},
		{
			entry: "clip.Collection", cases: mkCases("Collection", func() *GeomHyp { return pts("LineString", 2) }, 0),
			desc: "the members' non-nil clips, in order, each member clipped once against the box",
			oracles: map[string]func(*ssa.Function) oracleFunc{"clip.Geometry": func(*ssa.Function) oracleFunc {
				return func(it *Interp, s *State, _ []AV) [][]AV {
					return [][]AV{{IfaceV{Nil: true}}, {IfaceV{Typ: it.p.Kind("LineString"), Val: freshLine(it, s)}}}
				}
			}},
			judge: mkJudge("clip.Geometry", 1, ifaceNonNil, false, false),
		},
	}
}

func clipLineMemberSpecs(thorough bool) []composeSpec {
	var out []composeSpec
	for _, sp := range clipMemberSpecsAll(thorough) {
		if sp.entry == "clip.MultiLineString" || sp.entry == "clip.Collection" {
			out = append(out, sp)
		}
	}
	return out
}

func clipRingMemberSpecs(thorough bool) []composeSpec {
	var out []composeSpec
	for _, sp := range clipMemberSpecsAll(thorough) {
		if sp.entry != "clip.MultiLineString" {
			out = append(out, sp)
		}
	}
	return out
}

// ---------------------------------------------------------------------------
// vertices of a clipped line / ring against the order facts of the path

type clipVertexCtx struct {
	ids    []string
	pts    [][2]*fterm
	edges  [4]*fterm // l, b, l+w, b+h
	isRing bool
}

func symBox(it *Interp) (StructV, [4]*fterm) {
	l, b := it.freeFloat().(FloatV), it.freeFloat().(FloatV)
	w, h := it.freeFloat().(FloatV), it.freeFloat().(FloatV)
	if it.NonNeg == nil {
		it.NonNeg, it.Positive = map[int]bool{}, map[int]bool{}
	}
	for _, f := range []FloatV{w, h} {
		it.NonNeg[f.Sym], it.Positive[f.Sym] = true, true
	}
	sum := func(a, c FloatV) FloatV {
		it.nextSym++
		return FloatV{Finite: true, Sym: it.nextSym, Term: termAdd(termAtom(a.Sym), termAtom(c.Sym), 1)}
	}
	r, t := sum(l, w), sum(b, h)
	return StructV{Fields: []AV{ArrV{N: 2, Elems: []AV{l, b}}, ArrV{N: 2, Elems: []AV{r, t}}}},
		[4]*fterm{termAtom(l.Sym), termAtom(b.Sym), r.Term, t.Term}
}

func clipVertexSpecs(thorough bool) []composeSpec {
	maxN := 2
	if thorough {
		maxN = 3
	}
	judge := func(it *Interp, cx interface{}, st *State) string {
		ctx := cx.(*clipVertexCtx)
		g := pathOrderTerms(it, st)
		inside := func(p [2]*fterm) bool {
			return g.leq(ctx.edges[0], p[0]) && g.leq(p[0], ctx.edges[2]) && g.leq(ctx.edges[1], p[1]) && g.leq(p[1], ctx.edges[3])
		}
		index := map[string]int{}
		for i, id := range ctx.ids {
			if _, dup := index[id]; !dup {
				index[id] = i
			}
		}
		// flatten the output
		var outPts []AV
		switch res := st.result[0].(type) {
		case SliceV:
			for _, e := range membersOf(st, res) {
				if sl, ok := e.(SliceV); ok {
					outPts = append(outPts, membersOf(st, sl)...)
				} else {
					outPts = append(outPts, e)
				}
			}
		default:
			return "the result is not a list of points or lines"
		}
		seen := map[int]bool{}
		last := -1
		for k, o := range outPts {
			id := identString(o)
			if i, ok := index[id]; ok {
				if !inside(ctx.pts[i]) {
					return fmt.Sprintf("output vertex %d is input vertex %d, which nothing on this path places inside the box", k, i)
				}
				seen[i] = true
				if !ctx.isRing {
					if i < last {
						return fmt.Sprintf("input vertex %d comes out after input vertex %d: the travel order is not kept", i, last)
					}
					last = i
				}
				continue
			}
			pt := pointTerms(it, o)
			onEdge := false
			for e, t := range ctx.edges {
				if pt[e%2] != nil && termEqual(pt[e%2], t) {
					onEdge = true
				}
			}
			if !onEdge {
				return fmt.Sprintf("output vertex %d is neither an input vertex nor on a line of the box", k)
			}
			// a cut point of a line is classified again before it is accepted: those comparisons must place it
			// inside the box (a ring's cut points are inside by convexity of the later passes, which no
			// comparison states)
			if !ctx.isRing && !inside(pt) {
				return fmt.Sprintf("output vertex %d is a cut point on a line of the box, but nothing on this path places it between the box's other two edges (it may lie beside the box)", k)
			}
		}
		for i := range ctx.ids {
			if len(ctx.ids) < 2 && !ctx.isRing {
				break // a line of one vertex has no length: nothing is expected of it
			}
			if !seen[index[ctx.ids[i]]] && inside(ctx.pts[i]) {
				var outs []string
				for _, o := range outPts {
					outs = append(outs, identString(o))
				}
				return fmt.Sprintf("input vertex %d (%s) lies inside the box on this path but is missing from the result %v", i, ctx.ids[i], outs)
			}
		}
		return ""
	}
	var specs []composeSpec
	mk := func(entry, kind string, open int, desc string) {
		var cases []composeCase
		for n := 0; n <= maxN; n++ {
			n := n
			cases = append(cases, composeCase{fmt.Sprintf("%d vertices", n), func(it *Interp, s *State) ([]AV, interface{}) {
				box, edges := symBox(it)
				ln := it.buildGeom(s, pts(kind, n)).(SliceV)
				ctx := &clipVertexCtx{edges: edges, isRing: kind == "Ring"}
				for _, e := range membersOf(s, ln) {
					ctx.ids = append(ctx.ids, identString(e))
					ctx.pts = append(ctx.pts, pointTerms(it, e))
				}
				args := []AV{box, ln}
				switch open {
				case 0:
					args = append(args, boolOf(false))
				case 1:
					args = append(args, boolOf(true))
				case 2:
					args = append(args, SliceV{Nil: true}) // no options
				}
				return args, ctx
			}})
		}
		// repeated vertices: the same point twice in a row (at the end, at the start)
		for _, dup := range [][]int{{0, 0}, {0, 1, 1}, {0, 0, 1}} {
			dup := dup
			if len(dup) > maxN+1 {
				continue
			}
			cases = append(cases, composeCase{fmt.Sprintf("%d vertices, repeated %v", len(dup), dup), func(it *Interp, s *State) ([]AV, interface{}) {
				box, edges := symBox(it)
				ln := it.buildGeom(s, pts(kind, len(dup))).(SliceV)
				arr := s.heap[ln.Arr].(ArrV)
				orig := append([]AV(nil), arr.Elems...)
				for i, j := range dup {
					arr.Elems[i] = orig[j]
				}
				s.heap[ln.Arr] = arr
				ctx := &clipVertexCtx{edges: edges, isRing: kind == "Ring"}
				for _, e := range membersOf(s, ln) {
					ctx.ids = append(ctx.ids, identString(e))
					ctx.pts = append(ctx.pts, pointTerms(it, e))
				}
				args := []AV{box, ln}
				switch open {
				case 0:
					args = append(args, boolOf(false))
				case 1:
					args = append(args, boolOf(true))
				case 2:
					args = append(args, SliceV{Nil: true})
				}
				return args, ctx
			}})
		}
		specs = append(specs, composeSpec{entry: entry, tag: desc, terms: true, anyPath: true, skipTruncated: true, generalPosition: true, maxVisits: 6, maxIter: 6, termLimit: 4, cases: cases,
			desc:  "every input vertex in the result is placed inside the box by the comparisons made on the path, every other result vertex lies on a line of the box (for a line: and between the other two edges, by the comparisons that classified it again), every input vertex the path places inside the box is in the result, and the travel order is kept",
			judge: judge})
	}
	mk("clip.line", "LineString", 0, "closed box")
	mk("clip.line", "LineString", 1, "open box")
	mk("clip.LineString", "LineString", 2, "no options")
	return specs
}

func clipRingVertexSpecs(thorough bool) []composeSpec {
	sp := clipVertexSpecs(thorough)[0]
	maxN := 3
	if thorough {
		maxN = 4
	}
	var cases []composeCase
	for n := 0; n <= maxN; n++ {
		for _, closed := range []bool{false, true} {
			if closed && n < 3 {
				continue
			}
			n, closed := n, closed
			lab := fmt.Sprintf("%d vertices", n)
			if closed {
				lab += ", last = first"
			}
			cases = append(cases, composeCase{lab, func(it *Interp, s *State) ([]AV, interface{}) {
				box, edges := symBox(it)
				ln := it.buildGeom(s, pts("Ring", n)).(SliceV)
				if closed {
					arr := s.heap[ln.Arr].(ArrV)
					arr.Elems[n-1] = arr.Elems[0]
					s.heap[ln.Arr] = arr
				}
				ctx := &clipVertexCtx{edges: edges, isRing: true}
				for _, e := range membersOf(s, ln) {
					ctx.ids = append(ctx.ids, identString(e))
					ctx.pts = append(ctx.pts, pointTerms(it, e))
				}
				return []AV{box, ln}, ctx
			}})
		}
	}
	sp.entry, sp.tag, sp.cases = "clip.Ring", "", cases
	sp.maxIter, sp.maxVisits = 0, 0 // the ring clipper's loops are bounded by the input
	return []composeSpec{sp}
}

// ---------------------------------------------------------------------------
// clip.intersect: the cut point is on the line through a and b and on a box line the code names

type intersectCtx struct {
	a, b  [2]*fterm
	edges [4]*fterm // minx, miny, maxx, maxy
	code  int
}

func clipIntersectSpecs(thorough bool) []composeSpec {
	var cases []composeCase
	for _, code := range []int{1, 2, 4, 8, 5, 6, 9, 10} {
		code := code
		cases = append(cases, composeCase{fmt.Sprintf("region code %04b", code), func(it *Interp, s *State) ([]AV, interface{}) {
			box, edges := symBox(it)
			a, b := freePointAV(it), freePointAV(it)
			return []AV{box, IntV{Known: true, V: int64(code)}, a, b}, &intersectCtx{a: pointTerms(it, a), b: pointTerms(it, b), edges: edges, code: code}
		}})
	}
	return []composeSpec{{
		entry: "clip.intersect", terms: true, cases: cases,
		desc: "the point returned lies on the line through a and b (its cross product with b-a vanishes identically) and has, on the matching axis, exactly the coordinate of a box line named by the region code (bit 1 left, 2 right, 4 bottom, 8 top)",
		judge: func(it *Interp, cx interface{}, st *State) string {
			ctx := cx.(*intersectCtx)
			r := pointTerms(it, st.result[0])
			if r[0] == nil || r[1] == nil {
				return "the point returned is not a followed quantity"
			}
			onLine := false
			for bit, ax := range map[int][2]int{1: {0, 0}, 2: {0, 2}, 4: {1, 1}, 8: {1, 3}} {
				if ctx.code&bit != 0 && termEqual(r[ax[0]], ctx.edges[ax[1]]) {
					onLine = true
				}
			}
			if !onLine {
				return "no coordinate of the point returned is the coordinate of a box line the region code names"
			}
			// (r - a) x (b - a) == 0
			cross := termAdd(termMul(termAdd(r[0], ctx.a[0], -1), termAdd(ctx.b[1], ctx.a[1], -1)), termMul(termAdd(r[1], ctx.a[1], -1), termAdd(ctx.b[0], ctx.a[0], -1)), -1)
			if cross == nil || !cross.isZero() {
				return "the point returned is not on the line through a and b"
			}
			return ""
		},
	}}
}
