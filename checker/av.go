package main

// Engine A — abstract values.
//
// The interpreter evaluates go/ssa over abstract values: dynamic kinds, nil-ness
// and lengths are tracked exactly, floating-point coordinates and byte contents
// are always unknown (top).  Every unknown carries a taint: "free" (a pure
// function of unconstrained inputs: coordinates, free parameters, hostile
// bytes) or "opaque" (depends on an unmodelled library result).

import (
	"fmt"
	"go/types"
	"strings"
)

type AV interface{}

type BoolV struct {
	T, F bool // may be true / may be false
	Opq  bool
	Der  bool       // undecided comparison between computed floats: the two outcomes may be correlated with earlier ones
	Src  *floatFact // Interp.Terms only: the comparison this undecided value came from
	Neg  bool       // ... negated
}

type IntV struct {
	Known bool
	V     int64 // two's complement bits, interpreted by the static type
	Opq   bool
	Sym   int // >0: symbolic value Sym*A+B over symbol table (stage 2)
	A, B  int64
	Bits  *bitVec  // bit-level reading of an unsigned value (interp_bits.go), nil when not tracked
	Hex   *hexChar // Interp.Precise: this byte is a hex digit of another (unknown) byte
}

// hexChar: the high or low hex digit of the byte Of.
type hexChar struct {
	Of IntV
	Hi bool
}

type FloatV struct {
	Known  bool
	V      float64
	Opq    bool
	Finite bool   // an input the properties' domains keep finite (coordinates, thresholds)
	Sym    int    // >0: identity of this unknown; State.fsyms keeps the interval comparisons with constants have established
	Input  bool   // the unknown is a direct input (coordinate, parameter), independent of every other input
	Term   *fterm // Interp.Terms only: the rational function of identified unknowns this value denotes
}

type StrV struct {
	LenKnown bool
	Len      int
	HasLit   bool
	Lit      string
	Opq      bool
}

// PtrV points into a heap cell, optionally at a sub-component.
type PtrV struct {
	Nil     bool // definitely nil
	Top     bool // unknown pointer
	Opq     bool
	MayNil  bool // free-nilable: may be nil or the cell below (attacker's choice)
	Hostile bool // points into a structure filled from hostile input: what is loaded through it is attacker-chosen
	Cell    int
	Path    []int // field / element indices; -1 = unknown element
}

// SliceV is a view [Lo,Hi) with capacity limit Cap on the array in cell Arr.
type SliceV struct {
	Nil     bool
	Top     bool // unknown slice (unknown length)
	Opq     bool
	MayNil  bool
	Arr     int
	Lo, Hi  int
	Cap     int  // absolute end of capacity in the backing array
	CapUnk  bool // capacity not known (make with an undetermined cap): at least Hi
	Hostile bool // filled from hostile input: length and elements are attacker-chosen
}

type ArrV struct {
	N     int  // number of elements
	Elems []AV // len == N when materialised, nil when lazy (huge or unknown)
	Def   AV   // value of unmaterialised elements
}

type StructV struct {
	Fields []AV
}

type IfaceV struct {
	Nil    bool
	Top    bool // unknown dynamic value
	Opq    bool
	User   bool // caller-supplied implementation: methods are pure and return free values
	MayNil bool
	Typ    types.Type
	Val    AV
}

type FuncV struct {
	Nil      bool
	Top      bool
	Opq      bool
	User     bool        // caller-supplied function: pure, returns free values
	Fn       interface{} // *ssa.Function
	Bindings []AV
	Recv     AV // bound method receiver (MakeClosure of bound method wrappers)
}

type MapV struct {
	Nil  bool
	Opq  bool
	Cell int
}

type TupleV struct {
	Vals []AV
}

// TopV is an unknown value of a type the interpreter does not model.
type TopV struct {
	Opq bool
}

func isOpq(v AV) bool {
	switch x := v.(type) {
	case BoolV:
		return x.Opq
	case IntV:
		return x.Opq
	case FloatV:
		return x.Opq
	case StrV:
		return x.Opq
	case PtrV:
		return x.Opq
	case SliceV:
		return x.Opq
	case IfaceV:
		return x.Opq
	case FuncV:
		return x.Opq
	case MapV:
		return x.Opq
	case TopV:
		return x.Opq
	case TupleV:
		for _, e := range x.Vals {
			if isOpq(e) {
				return true
			}
		}
	case StructV:
		for _, e := range x.Fields {
			if isOpq(e) {
				return true
			}
		}
	}
	return false
}

func boolOf(b bool) BoolV { return BoolV{T: b, F: !b} }
func intOf(v int64) IntV  { return IntV{Known: true, V: v} }

// zeroOf builds the zero value of a type.
func zeroOf(t types.Type) AV {
	switch u := t.Underlying().(type) {
	case *types.Basic:
		switch {
		case u.Info()&types.IsBoolean != 0:
			return boolOf(false)
		case u.Info()&types.IsInteger != 0:
			return intOf(0)
		case u.Info()&types.IsFloat != 0:
			return FloatV{Known: true}
		case u.Info()&types.IsString != 0:
			return StrV{LenKnown: true, HasLit: true}
		case u.Kind() == types.UnsafePointer:
			return PtrV{Nil: true}
		}
		return TopV{}
	case *types.Pointer:
		return PtrV{Nil: true}
	case *types.Slice:
		return SliceV{Nil: true}
	case *types.Array:
		n := int(u.Len())
		a := ArrV{N: n, Def: zeroOf(u.Elem())}
		if n <= 4096 {
			a.Elems = make([]AV, n)
			for i := range a.Elems {
				a.Elems[i] = a.Def
			}
		}
		return a
	case *types.Struct:
		s := StructV{Fields: make([]AV, u.NumFields())}
		for i := range s.Fields {
			s.Fields[i] = zeroOf(u.Field(i).Type())
		}
		return s
	case *types.Interface:
		return IfaceV{Nil: true}
	case *types.Signature:
		return FuncV{Nil: true}
	case *types.Map:
		return MapV{Nil: true}
	case *types.Chan:
		return TopV{}
	case *types.Tuple:
		tv := TupleV{Vals: make([]AV, u.Len())}
		for i := range tv.Vals {
			tv.Vals[i] = zeroOf(u.At(i).Type())
		}
		return tv
	}
	return TopV{}
}

// topOf builds an unknown value of a type with the given taint.
func topOf(t types.Type, opq bool) AV {
	switch u := t.Underlying().(type) {
	case *types.Basic:
		switch {
		case u.Info()&types.IsBoolean != 0:
			return BoolV{T: true, F: true, Opq: opq}
		case u.Info()&types.IsInteger != 0:
			return IntV{Opq: opq}
		case u.Info()&types.IsFloat != 0:
			return FloatV{Opq: opq}
		case u.Info()&types.IsString != 0:
			return StrV{Opq: opq}
		}
		return TopV{Opq: opq}
	case *types.Pointer:
		return PtrV{Top: true, Opq: opq}
	case *types.Slice:
		return SliceV{Top: true, Opq: opq}
	case *types.Array:
		n := int(u.Len())
		a := ArrV{N: n, Def: topOf(u.Elem(), opq)}
		if n <= 64 {
			a.Elems = make([]AV, n)
			for i := range a.Elems {
				a.Elems[i] = a.Def
			}
		}
		return a
	case *types.Struct:
		s := StructV{Fields: make([]AV, u.NumFields())}
		for i := range s.Fields {
			s.Fields[i] = topOf(u.Field(i).Type(), opq)
		}
		return s
	case *types.Interface:
		return IfaceV{Top: true, Opq: opq}
	case *types.Signature:
		return FuncV{Top: true, Opq: opq}
	case *types.Map:
		return MapV{Opq: opq}
	case *types.Tuple:
		tv := TupleV{Vals: make([]AV, u.Len())}
		for i := range tv.Vals {
			tv.Vals[i] = topOf(u.At(i).Type(), opq)
		}
		return tv
	}
	return TopV{Opq: opq}
}

func avString(v AV) string {
	switch x := v.(type) {
	case BoolV:
		switch {
		case x.T && x.F:
			return "bool?"
		case x.T:
			return "true"
		}
		return "false"
	case IntV:
		if x.Known {
			return fmt.Sprintf("%d", x.V)
		}
		return "int?"
	case FloatV:
		return "float?"
	case StrV:
		if x.HasLit {
			return fmt.Sprintf("%q", x.Lit)
		}
		if x.LenKnown {
			return fmt.Sprintf("string(len %d)", x.Len)
		}
		return "string?"
	case PtrV:
		if x.Nil {
			return "nil"
		}
		if x.Top {
			return "ptr?"
		}
		return fmt.Sprintf("&c%d%v", x.Cell, x.Path)
	case SliceV:
		if x.Nil {
			return "nil-slice"
		}
		if x.Top {
			return "slice?"
		}
		return fmt.Sprintf("slice[len %d]", x.Hi-x.Lo)
	case IfaceV:
		if x.Nil {
			return "nil-iface"
		}
		if x.Top {
			return "iface?"
		}
		if x.Typ != nil {
			return "iface(" + shortType(x.Typ) + ")"
		}
		return "iface"
	case StructV:
		var parts []string
		for _, f := range x.Fields {
			parts = append(parts, avString(f))
		}
		return "{" + strings.Join(parts, ",") + "}"
	case ArrV:
		return fmt.Sprintf("array[%d]", x.N)
	case FuncV:
		if x.Nil {
			return "nil-func"
		}
		return "func"
	case TupleV:
		var parts []string
		for _, f := range x.Vals {
			parts = append(parts, avString(f))
		}
		return "(" + strings.Join(parts, ",") + ")"
	}
	return "?"
}
