package main

// Engine A — models of the decoding primitives fed with hostile data.  Scalars
// and errors they return are free (the attacker chooses them); lengths and
// offsets produced by text helpers are opaque (library invariants the attacker
// does not control).

import (
	"go/types"
	"strings"

	"golang.org/x/tools/go/ssa"
)

// a protoscan.Message / Iterator is modelled as a pointer to a one-field cell
// holding the number of input bytes it scans when that is known.
func (it *Interp) newScanObj(s *State, n IntV) AV {
	return PtrV{Cell: it.newCell(s, StructV{Fields: []AV{n}})}
}

func (it *Interp) scanLen(s *State, v AV) (int64, bool) {
	p, ok := v.(PtrV)
	if !ok || p.Nil || p.Top {
		return 0, false
	}
	sv, ok := s.heap[p.Cell].(StructV)
	if !ok || len(sv.Fields) != 1 {
		return 0, false
	}
	n, ok := sv.Fields[0].(IntV)
	return n.V, ok && n.Known
}

func freeErr() AV { return IfaceV{MayNil: true} }

func (it *Interp) modelDecoders(s *State, fr *Frame, call *ssa.Call, name string, args []AV) (AV, bool) {
	rt := call.Type()
	tuple := func(vals ...AV) AV { return TupleV{Vals: vals} }
	switch {
	case name == "github.com/paulmach/protoscan.New":
		n := IntV{}
		if ln, ok := it.sliceLen(args[0]); ok {
			n = intOf(int64(ln))
		}
		return it.newScanObj(s, n), true
	case strings.HasPrefix(name, "github.com/paulmach/protoscan.(*Message).") ||
		strings.HasPrefix(name, "github.com/paulmach/protoscan.(*Iterator).") ||
		strings.HasPrefix(name, "github.com/paulmach/protoscan.(*base)."):
		recv, _ := args[0].(PtrV)
		m := name[strings.LastIndex(name, ".")+1:]
		if recv.Nil {
			it.fault(s, "nil-deref", call, "method "+m+" of protoscan called on a nil receiver (the decoder object was never set for this message)")
			s.done = true
			it.stop("")
		}
		if recv.MayNil {
			it.forkNil(s, call, "scanner object", recv.Opq)
		}
		n, known := it.scanLen(s, recv)
		empty := known && n == 0
		switch m {
		case "Next", "HasNext":
			if empty {
				return boolOf(false), true
			}
			return BoolV{T: true, F: true}, true
		case "Err":
			if empty {
				return IfaceV{Nil: true}, true
			}
			return freeErr(), true
		case "FieldNumber", "WireType":
			return it.freshFreeInt(s, 29), true
		case "Skip", "Reset":
			if m == "Reset" && len(args) > 1 {
				// rescan another buffer
				ln := IntV{}
				if l, ok := it.sliceLen(args[1]); ok {
					ln = intOf(int64(l))
				}
				if !recv.Top {
					s.heap[recv.Cell] = StructV{Fields: []AV{ln}}
				}
			}
			return nil, true
		case "Count":
			v := it.freshSym(s, 0, 1<<31-1, false)
			s.sym(v.Sym).Bounded = true
			if empty {
				return intOf(0), true
			}
			return v, true
		case "Message", "Iterator":
			return tuple(it.newScanObj(s, IntV{}), freeErr()), true
		case "MessageData", "Bytes":
			return tuple(SliceV{Top: true}, freeErr()), true
		case "String":
			return tuple(StrV{}, freeErr()), true
		case "Bool":
			return tuple(BoolV{T: true, F: true}, freeErr()), true
		case "Float", "Double":
			return tuple(FloatV{}, freeErr()), true
		case "Uint32", "Fixed32":
			return tuple(it.freshFreeInt(s, 32), freeErr()), true
		case "Int32", "Sint32", "Sfixed32", "Int64", "Sint64", "Sfixed64", "Varint64":
			return tuple(IntV{}, freeErr()), true
		case "Uint64", "Fixed64", "Varint":
			return tuple(it.freshFreeInt(s, 64), freeErr()), true
		}
		if tup, ok := rt.(*types.Tuple); ok && tup.Len() == 2 {
			return tuple(topOf(tup.At(0).Type(), false), freeErr()), true
		}
		return topOf(rt, false), true
	case name == "encoding/hex.Decode":
		// decodes in place: at most half the source length, attacker-chosen error
		it.havoc(s, args[:1])
		v := it.freshSym(s, 0, 1<<30, false)
		if ln, ok := it.sliceLen(args[1]); ok {
			s.sym(v.Sym).Hi = int64(ln / 2)
		}
		if sl, ok := args[0].(SliceV); ok && !sl.Nil && !sl.Top {
			if arr, ok := s.heap[sl.Arr].(ArrV); ok && arr.Elems != nil {
				e := append([]AV(nil), arr.Elems...)
				for i := sl.Lo; i < sl.Hi && i < len(e); i++ {
					e[i] = IntV{}
				}
				s.heap[sl.Arr] = ArrV{N: arr.N, Elems: e, Def: IntV{}}
			}
		}
		return tuple(v, freeErr()), true
	case name == "encoding/hex.EncodeToString" || name == "encoding/hex.DecodeString":
		if name == "encoding/hex.DecodeString" {
			return tuple(SliceV{Top: true}, freeErr()), true
		}
		return StrV{Opq: true}, true
	case name == "strconv.ParseFloat":
		return tuple(FloatV{}, freeErr()), true
	case strings.HasPrefix(name, "strings.") || strings.HasPrefix(name, "regexp.") || strings.HasPrefix(name, "bytes.") || strings.HasPrefix(name, "unicode"):
		// results obey library invariants the attacker does not control: opaque
		switch name {
		case "strings.EqualFold", "bytes.HasPrefix", "bytes.Equal", "strings.HasPrefix", "strings.Contains", "strings.HasSuffix":
			return it.modelPrefix(s, name, args), true
		case "strings.Count":
			v := it.freshSym(s, 0, 1<<31-1, true)
			s.sym(v.Sym).Bounded = true
			return v, true
		}
		return topOf(rt, true), true
	case name == "encoding/json.Unmarshal" || name == "go.mongodb.org/mongo-driver/bson.Unmarshal" ||
		strings.HasSuffix(name, "bson.RawValue).Unmarshal"):
		// fills the destination from hostile data: every reference inside may be nil
		if len(args) > 1 {
			it.makeFreeNilable(s, args[len(args)-1])
		}
		return freeErr(), true
	}
	return nil, false
}

// modelPrefix: literal comparisons are decided when both sides are literals;
// otherwise the answer is attacker-chosen (free), and a true HasPrefix implies
// the subject is at least as long as the literal.
func (it *Interp) modelPrefix(s *State, name string, args []AV) AV {
	lit := func(v AV) (string, bool) {
		switch x := v.(type) {
		case StrV:
			return x.Lit, x.HasLit
		case SliceV:
			if x.Nil || x.Top {
				return "", false
			}
			arr, ok := s.heap[x.Arr].(ArrV)
			if !ok || arr.Elems == nil {
				return "", false
			}
			b := make([]byte, 0, x.Hi-x.Lo)
			for i := x.Lo; i < x.Hi; i++ {
				iv, ok := arr.Elems[i].(IntV)
				if !ok || !iv.Known {
					return "", false
				}
				b = append(b, byte(iv.V))
			}
			return string(b), true
		}
		return "", false
	}
	a, oka := lit(args[0])
	b, okb := lit(args[1])
	if oka && okb {
		switch name {
		case "strings.EqualFold":
			return boolOf(strings.EqualFold(a, b))
		case "bytes.HasPrefix", "strings.HasPrefix":
			return boolOf(strings.HasPrefix(a, b))
		case "bytes.Equal":
			return boolOf(a == b)
		case "strings.Contains":
			return boolOf(strings.Contains(a, b))
		case "strings.HasSuffix":
			return boolOf(strings.HasSuffix(a, b))
		}
	}
	// prefix test against a literal with a partially known subject: a known byte
	// that differs refutes it (the zero padding of a fixed-size prefix buffer)
	if okb && (name == "bytes.HasPrefix" || name == "strings.HasPrefix") {
		if sl, ok := args[0].(SliceV); ok && !sl.Nil && !sl.Top {
			if arr, ok := s.heap[sl.Arr].(ArrV); ok && arr.Elems != nil {
				if sl.Hi-sl.Lo < len(b) {
					return boolOf(false)
				}
				all := true
				for i := 0; i < len(b); i++ {
					iv, ok := arr.Elems[sl.Lo+i].(IntV)
					if ok && iv.Known {
						if byte(iv.V) != b[i] {
							return boolOf(false)
						}
					} else {
						all = false
					}
				}
				if all {
					return boolOf(true)
				}
			}
		}
	}
	// length-based refutation
	la, oka2 := it.sliceLen(args[0])
	lb, okb2 := it.sliceLen(args[1])
	if oka2 && okb2 {
		switch name {
		case "strings.EqualFold", "bytes.Equal":
			if la != lb && name == "bytes.Equal" {
				return boolOf(false)
			}
		case "bytes.HasPrefix", "strings.HasPrefix", "strings.Contains", "strings.HasSuffix":
			if la < lb {
				return boolOf(false)
			}
		}
	}
	return BoolV{T: true, F: true, Opq: isOpq(args[0]) || isOpq(args[1])}
}

// makeFreeNilable: a structure filled by reflection-based unmarshalling of
// hostile data; every pointer, slice and interface inside may be nil or not.
func (it *Interp) makeFreeNilable(s *State, dst AV) {
	if iv, isIface := dst.(IfaceV); isIface && iv.Val != nil {
		dst = iv.Val
	}
	p, ok := dst.(PtrV)
	if !ok || p.Nil || p.Top {
		return
	}
	cell, ok := s.heap[p.Cell]
	if !ok {
		return
	}
	var conv func(v AV, depth int) AV
	conv = func(v AV, depth int) AV {
		switch x := v.(type) {
		case StructV:
			f := make([]AV, len(x.Fields))
			for i := range f {
				f[i] = conv(x.Fields[i], depth+1)
			}
			return StructV{Fields: f}
		case PtrV:
			if !x.Nil && !x.Top && depth < 3 {
				if c, ok := s.heap[x.Cell]; ok {
					s.heap[x.Cell] = conv(c, depth+1)
				}
				return x
			}
			return PtrV{Top: true, MayNil: true, Hostile: true}
		case SliceV:
			return SliceV{Top: true, MayNil: true, Hostile: true, Arr: it.newCell(s, ArrV{N: 0})}
		case IfaceV:
			return IfaceV{Top: true, MayNil: true}
		case MapV:
			return MapV{}
		case IntV:
			return IntV{}
		case FloatV:
			return FloatV{}
		case StrV:
			return StrV{}
		case BoolV:
			return BoolV{T: true, F: true}
		case ArrV:
			return havocVal(x)
		}
		return v
	}
	s.heap[p.Cell] = writePath(cell, p.Path, conv(readPath(cell, p.Path), 0))
}
