package main

// T10 — closed-box predicate tables.  The comparisons of every box predicate
// (Bound.IsEmpty / Contains / Intersects, the quadtree's cell pruning and its
// in-bound filter) are read from the syntax tree as atoms
// (operand role, relation, operand role) with roles (owner, Min|Max|point, axis).
// Every atom is a rejecting test and must (a) compare the same axis, (b) be
// strict - boundaries belong to a closed box, a one-point bound is not empty,
// touching boxes intersect - and (c) point the right way: "below Min", "above
// Max" or "Max below Min".

import (
	"fmt"
	"go/ast"
	"go/token"
	"go/types"
	"strings"

	"golang.org/x/tools/go/packages"
)

type boxRole struct {
	owner string
	side  string // "Min", "Max", "point"
	axis  int64
}

// onceDefs: locals assigned exactly once in the function, with their defining expression
// (so that `x, y := point[0], point[1]` lets x stand for point[0]).
func onceDefs(pkg *packages.Package, fd *ast.FuncDecl) map[types.Object]ast.Expr {
	count := map[types.Object]int{}
	def := map[types.Object]ast.Expr{}
	ast.Inspect(fd.Body, func(n ast.Node) bool {
		switch s := n.(type) {
		case *ast.AssignStmt:
			for i, l := range s.Lhs {
				id, ok := l.(*ast.Ident)
				if !ok {
					continue
				}
				obj := pkg.TypesInfo.Defs[id]
				if obj == nil {
					obj = pkg.TypesInfo.Uses[id]
				}
				if obj == nil {
					continue
				}
				count[obj]++
				if len(s.Lhs) == len(s.Rhs) {
					def[obj] = s.Rhs[i]
				}
			}
		case *ast.IncDecStmt:
			if id, ok := s.X.(*ast.Ident); ok {
				count[pkg.TypesInfo.Uses[id]] += 2
			}
		}
		return true
	})
	out := map[types.Object]ast.Expr{}
	for o, n := range count {
		if n == 1 && def[o] != nil {
			out[o] = def[o]
		}
	}
	return out
}

var roleDefs map[types.Object]ast.Expr // set by the caller for the function being read

func roleOf(pkg *packages.Package, e ast.Expr, named map[types.Object]boxRole) (boxRole, bool) {
	e = ast.Unparen(e)
	if id, ok := e.(*ast.Ident); ok {
		if r, ok := named[pkg.TypesInfo.Uses[id]]; ok {
			return r, true
		}
		if d, ok := roleDefs[pkg.TypesInfo.Uses[id]]; ok {
			return roleOf(pkg, d, named)
		}
		return boxRole{}, false
	}
	ie, ok := e.(*ast.IndexExpr)
	if !ok {
		return boxRole{}, false
	}
	ax, ok := constInt(pkg, ie.Index)
	if !ok {
		return boxRole{}, false
	}
	x := ast.Unparen(ie.X)
	if se, ok := x.(*ast.SelectorExpr); ok && (se.Sel.Name == "Min" || se.Sel.Name == "Max") {
		return boxRole{owner: exprKey(se.X), side: se.Sel.Name, axis: ax}, true
	}
	if t := pkg.TypesInfo.TypeOf(x); t != nil && strings.HasSuffix(t.String(), "orb.Point") {
		return boxRole{owner: exprKey(x), side: "point", axis: ax}, true
	}
	return boxRole{}, false
}

type boxSpec struct {
	pkg, recv, name string
	atoms           int
	// roles of plain parameters, derived from a call site (quadtree cell edges)
	paramRolesFrom string
}

func findMethodDecl(p *Program, pkgPath, recv, name string) (*packages.Package, *ast.FuncDecl) {
	pk := p.Pkgs[pkgPath]
	if pk == nil {
		return nil, nil
	}
	for _, f := range pk.Syntax {
		for _, d := range f.Decls {
			fd, ok := d.(*ast.FuncDecl)
			if !ok || fd.Name.Name != name || fd.Body == nil {
				continue
			}
			if recv == "" && fd.Recv == nil {
				return pk, fd
			}
			if recv != "" && fd.Recv != nil && strings.TrimPrefix(types.ExprString(fd.Recv.List[0].Type), "*") == recv {
				return pk, fd
			}
		}
	}
	return nil, nil
}

func ruleBoxPredicates(specs []boxSpec) ruleFunc {
	return func(c *Ctx) {
		p := c.P
		c.R.Rule("T10: comparison atoms of the box predicates read from the syntax tree with roles (owner, Min|Max|point, axis): same axis on both sides, strict relation (closed boxes: boundary inside, one-point bound not empty, touching boxes intersect), rejecting direction (below Min / above Max / Max below Min)")
		for _, sp := range specs {
			pk, fd := findMethodDecl(p, orbPath+sp.pkg, sp.recv, sp.name)
			key := ShortKey(orbPath + sp.pkg + "." + sp.name)
			if sp.recv != "" {
				key = ShortKey(fmt.Sprintf("%s%s.(%s).%s", orbPath, sp.pkg, sp.recv, sp.name))
			}
			if fd == nil {
				c.R.Unknown("T10-box-predicates", key, "", "predicate not found")
				continue
			}
			named := map[types.Object]boxRole{}
			if sp.paramRolesFrom != "" {
				// roles of the float parameters from a call whose arguments are box coordinates
				var params []types.Object
				for _, f := range fd.Type.Params.List {
					for _, n := range f.Names {
						params = append(params, pk.TypesInfo.Defs[n])
					}
				}
				_, caller := findMethodDecl(p, orbPath+sp.pkg, strings.Split(sp.paramRolesFrom, ".")[0], strings.Split(sp.paramRolesFrom, ".")[1])
				if caller != nil {
					ast.Inspect(caller.Body, func(n ast.Node) bool {
						call, ok := n.(*ast.CallExpr)
						if !ok || len(call.Args) != len(params) {
							return true
						}
						se, ok := call.Fun.(*ast.SelectorExpr)
						if !ok || se.Sel.Name != sp.name {
							return true
						}
						for i, a := range call.Args {
							if r, ok := roleOf(pk, a, nil); ok && r.side != "point" {
								named[params[i]] = boxRole{owner: "cell", side: r.side, axis: r.axis}
							}
						}
						return true
					})
				}
				if len(named) != 4 {
					c.R.Unknown("T10-box-predicates", key, p.Pos(fd.Pos()), "could not derive the roles of the cell-edge parameters from "+sp.paramRolesFrom)
					continue
				}
			}
			var atoms []string
			bad := ""
			roleDefs = onceDefs(pk, fd)
			ast.Inspect(fd.Body, func(n ast.Node) bool {
				be, ok := n.(*ast.BinaryExpr)
				if !ok {
					return true
				}
				if _, isCmp := flipRel[be.Op]; !isCmp {
					return true
				}
				l, ok1 := roleOf(pk, be.X, named)
				r, ok2 := roleOf(pk, be.Y, named)
				if !ok1 || !ok2 {
					return true
				}
				op := be.Op
				// normalise to small < big
				small, big := l, r
				if op == token.GTR || op == token.GEQ {
					small, big = r, l
				}
				strict := op == token.LSS || op == token.GTR
				txt := types.ExprString(be)
				atoms = append(atoms, txt)
				if small.axis != big.axis {
					bad += fmt.Sprintf(" %s compares axis %d with axis %d;", txt, small.axis, big.axis)
				}
				if !strict {
					bad += fmt.Sprintf(" %s is not strict: values exactly on the boundary are rejected (the box is closed);", txt)
				}
				okDir := (small.side == "Max" && big.side == "Min") || (small.side == "point" && big.side == "Min") || (small.side == "Max" && big.side == "point")
				if sp.name == "IsEmpty" {
					okDir = small.side == "Max" && big.side == "Min" && small.owner == big.owner
				}
				if !okDir {
					bad += fmt.Sprintf(" %s rejects when %s[%d] is below %s[%d]: wrong direction for a rejecting test;", txt, small.side, small.axis, big.side, big.axis)
				}
				return true
			})
			switch {
			case len(atoms) != sp.atoms:
				c.R.Unknown("T10-box-predicates", key, p.Pos(fd.Pos()), fmt.Sprintf("expected %d coordinate comparisons, found %d %v: the predicate no longer has the shape this rule reads", sp.atoms, len(atoms), atoms))
			case bad != "":
				c.R.Bad("T10-box-predicates", key, p.Pos(fd.Pos()), strings.TrimSpace(bad))
			default:
				c.R.OK("T10-box-predicates", key, p.Pos(fd.Pos()), strings.Join(atoms, " ; "))
			}
		}
	}
}

var orbBoundPredicates = []boxSpec{
	{pkg: "", recv: "Bound", name: "IsEmpty", atoms: 2},
	{pkg: "", recv: "Bound", name: "Contains", atoms: 4},
	{pkg: "", recv: "Bound", name: "Intersects", atoms: 4},
}

var quadtreeBoxPredicates = []boxSpec{
	{pkg: "/quadtree", recv: "visit", name: "Visit", atoms: 4, paramRolesFrom: "Quadtree.Matching"},
	{pkg: "/quadtree", recv: "inBoundVisitor", name: "Visit", atoms: 4},
}
