package main

// More loop-shape rules.
//
//   D4  member delegation: in a loop over tree members (orb.Collection elements,
//       []*geojson.Geometry) each member is handed to a call (as receiver or
//       argument) — a member whose field is read directly is not recursed into;
//   D5  no early exit from an accumulating member loop: a loop over a geometry
//       slice that appends to a result (or fills a set) must not `break` out —
//       the remaining members/segments would be silently skipped;
//   L2  last-iteration-wins: a variable overwritten in every iteration with a
//       value that does not depend on its previous value, in a loop without an
//       early exit, and read only after the loop, reflects the last element only.

import (
	"fmt"
	"go/ast"
	"go/token"
	"go/types"
	"strings"

	"golang.org/x/tools/go/packages"
	"golang.org/x/tools/go/ssa"
)

func isTreeSlice(p *Program, t types.Type) bool {
	if t == nil {
		return false
	}
	if p.KindOf(t) == "Collection" {
		return true
	}
	sl, ok := t.Underlying().(*types.Slice)
	if !ok {
		return false
	}
	if pt, ok := sl.Elem().(*types.Pointer); ok {
		if nt, ok := pt.Elem().(*types.Named); ok && nt.Obj().Name() == "Geometry" && nt.Obj().Pkg() != nil && strings.HasSuffix(nt.Obj().Pkg().Path(), "/geojson") {
			return true
		}
	}
	return false
}

// d5Exceptions: accumulating member loops that legitimately stop early.
var d5Exceptions = map[string]string{}

func ruleLoopShapes(keep func(string) bool, floorD4, floorD5 int) ruleFunc {
	return func(c *Ctx) {
		p := c.P
		c.R.Rule("D4: in every loop over tree members (orb.Collection elements, []*geojson.Geometry) the member is passed to a call as receiver or argument (recursion/delegation), not picked apart directly; " +
			"D5: a loop over a geometry slice that accumulates results (append / set insert) or stores the transformed member back in place contains no break that leaves it early")
		nD4, nD5 := 0, 0
		p.eachFuncDecl(func(pkg *packages.Package, fd *ast.FuncDecl) {
			key := ShortKey(funcDeclKey(pkg, fd))
			if keep != nil && !keep(key) {
				return
			}
			ord4, ord5 := 0, 0
			var visit func(n ast.Node)
			visit = func(n ast.Node) {
				ast.Inspect(n, func(m ast.Node) bool {
					var body *ast.BlockStmt
					var rangeX ast.Expr
					var valueVar *ast.Ident
					switch x := m.(type) {
					case *ast.RangeStmt:
						body, rangeX = x.Body, x.X
						if id, ok := x.Value.(*ast.Ident); ok && id.Name != "_" {
							valueVar = id
						}
					case *ast.ForStmt:
						body = x.Body
						if cl := analyseCounted(&loopInfo{pkg: pkg, fn: fd, stmt: x}); cl != nil && cl.base != nil {
							rangeX = cl.base
						}
					default:
						return true
					}
					if rangeX == nil {
						return true
					}
					t := pkg.TypesInfo.TypeOf(rangeX)
					// D4
					if isTreeSlice(p, t) && valueVar != nil {
						nD4++
						cons := fmt.Sprintf("%s#members(%s)#%d", key, shortType(t), ord4)
						ord4++
						obj := pkg.TypesInfo.Defs[valueVar]
						passed := false
						ast.Inspect(body, func(k ast.Node) bool {
							call, ok := k.(*ast.CallExpr)
							if !ok {
								return true
							}
							for _, a := range call.Args {
								if id, ok := ast.Unparen(a).(*ast.Ident); ok && pkg.TypesInfo.Uses[id] == obj {
									if bi, isB := call.Fun.(*ast.Ident); isB && (bi.Name == "append" || bi.Name == "len") {
										if _, isBuiltin := pkg.TypesInfo.Uses[bi].(*types.Builtin); isBuiltin {
											continue
										}
									}
									passed = true
								}
							}
							if se, ok := call.Fun.(*ast.SelectorExpr); ok {
								if id, ok := ast.Unparen(se.X).(*ast.Ident); ok && pkg.TypesInfo.Uses[id] == obj {
									passed = true
								}
							}
							return true
						})
						// a type switch / nil test on the member is also a way of handling it
						ast.Inspect(body, func(k ast.Node) bool {
							if ta, ok := k.(*ast.TypeAssertExpr); ok {
								if id, ok := ast.Unparen(ta.X).(*ast.Ident); ok && pkg.TypesInfo.Uses[id] == obj {
									passed = true
								}
							}
							return true
						})
						builds := false
						ast.Inspect(body, func(k ast.Node) bool {
							switch y := k.(type) {
							case *ast.CallExpr:
								if id, ok := y.Fun.(*ast.Ident); ok && id.Name == "append" {
									builds = true
								}
							case *ast.AssignStmt:
								builds = true
							case *ast.IncDecStmt:
								builds = true
							}
							return true
						})
						if !builds {
							c.R.OK("D4-member-delegation", cons, p.Pos(m.Pos()), "checking loop (builds nothing from the members)")
						} else if passed {
							c.R.OK("D4-member-delegation", cons, p.Pos(m.Pos()), "each member is handed to a call")
						} else {
							c.R.Bad("D4-member-delegation", cons, p.Pos(m.Pos()), "the loop over "+exprKey(rangeX)+" never passes the member to a function or method: nested members (a collection inside a collection) are not recursed into")
						}
					}
					// L5: growing the slice being ranged over: the new elements are never visited
					if rsx, isRange := m.(*ast.RangeStmt); isRange {
						if xid, ok := ast.Unparen(rsx.X).(*ast.Ident); ok {
							xobj := pkg.TypesInfo.Uses[xid]
							ast.Inspect(body, func(k ast.Node) bool {
								as, ok := k.(*ast.AssignStmt)
								if !ok || len(as.Lhs) != 1 || len(as.Rhs) != 1 {
									return true
								}
								lid, ok := as.Lhs[0].(*ast.Ident)
								if !ok || pkg.TypesInfo.Uses[lid] != xobj || xobj == nil {
									return true
								}
								if call, ok := as.Rhs[0].(*ast.CallExpr); ok {
									if fid, ok := call.Fun.(*ast.Ident); ok && fid.Name == "append" {
										c.R.Bad("L5-range-grow", fmt.Sprintf("%s#range(%s)", key, xid.Name), p.Pos(as.Pos()),
											"the loop appends to "+xid.Name+", the slice it ranges over: range evaluates its operand once, so the appended members are never visited")
									}
								}
								return true
							})
						}
					}
					// D5
					if c.P.memberSlice(t) {
						accum := false
						var brk token.Pos
						var scan func(st ast.Node, depth int)
						scan = func(st ast.Node, depth int) {
							ast.Inspect(st, func(k ast.Node) bool {
								switch y := k.(type) {
								case *ast.ForStmt, *ast.RangeStmt, *ast.SwitchStmt, *ast.TypeSwitchStmt, *ast.SelectStmt:
									if k != st {
										// a break inside these belongs to them; still look for accumulation
										ast.Inspect(k, func(z ast.Node) bool {
											if call, ok := z.(*ast.CallExpr); ok {
												if id, ok := call.Fun.(*ast.Ident); ok && id.Name == "append" {
													accum = true
												}
											}
											return true
										})
										return false
									}
								case *ast.BranchStmt:
									if y.Tok == token.BREAK && y.Label == nil {
										brk = y.Pos()
									}
								case *ast.CallExpr:
									if id, ok := y.Fun.(*ast.Ident); ok && id.Name == "append" {
										accum = true
									}
								case *ast.ExprStmt:
									// a call made for its effect on shared state (add this member to the result)
									if call, ok := y.X.(*ast.CallExpr); ok {
										if id, ok := call.Fun.(*ast.Ident); !ok || (id.Name != "panic" && id.Name != "print" && id.Name != "println") {
											accum = true
										}
									}
								case *ast.IfStmt:
									// if err := addX(result, member); err != nil { return err }
									if as, ok := y.Init.(*ast.AssignStmt); ok && len(as.Rhs) == 1 {
										if call, ok := as.Rhs[0].(*ast.CallExpr); ok && len(as.Lhs) == 1 {
											if t := pkg.TypesInfo.TypeOf(call); t != nil && t.String() == "error" {
												accum = true
											}
										}
									}
								case *ast.AssignStmt:
									for _, l := range y.Lhs {
										if ie, ok := l.(*ast.IndexExpr); ok {
											if _, isMap := pkg.TypesInfo.TypeOf(ie.X).Underlying().(*types.Map); isMap {
												accum = true
											}
											// in-place transformation: the member is stored back into the slice being walked
											if exprKey(ie.X) == exprKey(rangeX) {
												accum = true
											}
										}
									}
								case *ast.FuncLit:
									return false
								}
								return true
							})
						}
						scan(body, 0)
						if accum {
							nD5++
							cons := fmt.Sprintf("%s#accumulate(%s)#%d", key, exprKey(rangeX), ord5)
							ord5++
							if brk.IsValid() {
								if why, ok := d5Exceptions[cons]; ok {
									c.R.OK("D5-early-exit", cons, p.Pos(brk), "reviewed exception: "+why)
								} else {
									c.R.Bad("D5-early-exit", cons, p.Pos(brk), "the loop over "+exprKey(rangeX)+" collects results but a break leaves it early: every later member/segment is silently skipped")
								}
							} else {
								c.R.OK("D5-early-exit", cons, p.Pos(m.Pos()), "no early exit")
							}
						}
					}
					return true
				})
			}
			visit(fd.Body)
		})
		c.R.Floor("D4-member-delegation", nD4, floorD4)
		c.R.Floor("D5-early-exit", nD5, floorD5)
	}
}

// ruleLastIterationWins: L2 on SSA.
func ruleLastIterationWins(keep func(string) bool, floor int) ruleFunc {
	return func(c *Ctx) {
		p := c.P
		c.R.Rule("L2: no loop-carried variable is overwritten in every iteration with a value independent of its previous value while being read only after the loop and the loop has no early exit (the result would reflect the last element only)")
		n := 0
		for _, fn := range p.Funcs() {
			key := ShortKey(FuncKey(fn))
			if keep != nil && !keep(key) {
				continue
			}
			for li, l := range ssaLoops(fn) {
				// early exits other than the header's own
				exits := 0
				for b := range l.blocks {
					for _, s := range b.Succs {
						if !l.blocks[s] && b != l.head {
							exits++
						}
					}
					if _, ok := b.Instrs[len(b.Instrs)-1].(*ssa.Return); ok {
						exits++
					}
				}
				for _, in := range l.head.Instrs {
					phi, ok := in.(*ssa.Phi)
					if !ok {
						break
					}
					n++
					// back-edge values
					var back []ssa.Value
					for i, pb := range l.head.Preds {
						if l.blocks[pb] {
							back = append(back, phi.Edges[i])
						}
					}
					// uses of phi inside the loop
					usedInside := false
					for _, r := range *phi.Referrers() {
						if l.blocks[r.Block()] {
							usedInside = true
						}
					}
					if usedInside || exits > 0 || len(back) == 0 {
						continue
					}
					// the back value is computed inside the loop and does not depend on phi (it cannot: phi unused inside)
					computedInside := false
					for _, v := range back {
						if ins, ok := v.(ssa.Instruction); ok && l.blocks[ins.Block()] {
							computedInside = true
						}
					}
					if !computedInside {
						continue
					}
					usedAfter := false
					for _, r := range *phi.Referrers() {
						if !l.blocks[r.Block()] {
							usedAfter = true
						}
					}
					if !usedAfter {
						continue
					}
					cons := fmt.Sprintf("%s#loop%d#%s", key, li, phi.Comment)
					c.R.Bad("L2-last-iteration-wins", cons, p.InstrPos(phi), fmt.Sprintf("variable %q is overwritten in every iteration without looking at its previous value and is only read after the loop: it reflects the last element, not all of them", phi.Comment))
				}
			}
		}
		c.R.Floor("L2-last-iteration-wins", n, floor)
		if n > 0 {
			c.R.OK("L2-last-iteration-wins", "summary", "", fmt.Sprintf("%d loop-carried variables examined", n))
		}
	}
}

// rulePluralDelegates (D4b): a method M on a slice type whose element type has a
// method of the same name applies M to every element: the loop over the
// receiver calls element.M(...).  A plural method that re-implements the work
// with shared state (one projection for all layers) drifts from the per-element
// method.
func rulePluralDelegates(keep func(string) bool, floor int) ruleFunc {
	return func(c *Ctx) {
		p := c.P
		c.R.Rule("D4b: a method M on a slice type whose element type also has a method M calls element.M for every element of the receiver")
		n := 0
		p.eachFuncDecl(func(pkg *packages.Package, fd *ast.FuncDecl) {
			key := ShortKey(funcDeclKey(pkg, fd))
			if keep != nil && !keep(key) || fd.Recv == nil || len(fd.Recv.List) != 1 || len(fd.Recv.List[0].Names) != 1 {
				return
			}
			rt := pkg.TypesInfo.TypeOf(fd.Recv.List[0].Type)
			sl, ok := rt.Underlying().(*types.Slice)
			if !ok {
				return
			}
			ms := types.NewMethodSet(sl.Elem())
			if ms.Lookup(pkg.Types, fd.Name.Name) == nil {
				if _, isPtr := sl.Elem().(*types.Pointer); isPtr || types.NewMethodSet(types.NewPointer(sl.Elem())).Lookup(pkg.Types, fd.Name.Name) == nil {
					return
				}
			}
			n++
			recvObj := pkg.TypesInfo.Defs[fd.Recv.List[0].Names[0]]
			delegated := false
			ast.Inspect(fd.Body, func(nd ast.Node) bool {
				rs, ok := nd.(*ast.RangeStmt)
				if !ok {
					return true
				}
				id, ok := ast.Unparen(rs.X).(*ast.Ident)
				if !ok || pkg.TypesInfo.Uses[id] != recvObj {
					return true
				}
				var elemObj types.Object
				if vid, ok := rs.Value.(*ast.Ident); ok {
					elemObj = pkg.TypesInfo.Defs[vid]
				}
				ast.Inspect(rs.Body, func(m ast.Node) bool {
					call, ok := m.(*ast.CallExpr)
					if !ok {
						return true
					}
					se, ok := call.Fun.(*ast.SelectorExpr)
					if !ok || se.Sel.Name != fd.Name.Name {
						return true
					}
					switch x := ast.Unparen(se.X).(type) {
					case *ast.Ident:
						if elemObj != nil && pkg.TypesInfo.Uses[x] == elemObj {
							delegated = true
						}
					case *ast.IndexExpr:
						if bid, ok := ast.Unparen(x.X).(*ast.Ident); ok && pkg.TypesInfo.Uses[bid] == recvObj {
							delegated = true
						}
					}
					return true
				})
				return true
			})
			if delegated {
				c.R.OK("D4b-plural-delegates", key, p.Pos(fd.Pos()), "calls the element's "+fd.Name.Name+" for every element")
			} else {
				c.R.Bad("D4b-plural-delegates", key, p.Pos(fd.Pos()), "the plural "+fd.Name.Name+" does not call "+fd.Name.Name+" on each element of its receiver: per-element settings (each layer's own extent/version) are not honoured")
			}
		})
		c.R.Floor("D4b-plural-delegates", n, floor)
	}
}
