package main

// Engine A rules: run the abstract interpreter from every selected entry point
// under every hypothesis (kind x degenerate shape x enumerated parameters) and
// report the faults that are certain under the abstract state.

import (
	"fmt"
	"go/types"
	"os"
	"runtime"
	"sort"
	"strings"
	"sync"

	"golang.org/x/tools/go/ssa"
)

type geomParam struct {
	idx  int
	kind string // "" = orb.Geometry interface
}

type shapeRun struct {
	entry       *ssa.Function
	label       string
	faults      []*Fault
	paths       int
	trunc       int
	truncWhy    map[string]int
	steps       int
	finished    []*State
	unsupported map[string]int
}

type shapeConfig struct {
	label       string
	keep        func(key string) bool
	override    paramOverride
	floor       int
	onlyGeneric bool // only entries that take the orb.Geometry interface
	hostile     bool // decoder entries: judge allocation sizes against the input length
	// extra entries that are not exported (by ShortKey)
	extra []string
	post  func(c *Ctx, run *shapeRun, hyps []*GeomHyp, labels []string)
	lim   Limits
}

func defaultLimits(thorough bool) Limits {
	if thorough {
		return Limits{MaxStates: 6000, MaxSteps: 60000, MaxVisits: 40, MaxDepth: 40}
	}
	return Limits{MaxStates: 1500, MaxSteps: 30000, MaxVisits: 24, MaxDepth: 40}
}

// geomParams lists the parameters (receiver first) that are geometries.
func (p *Program) geomParams(fn *ssa.Function) []geomParam {
	var out []geomParam
	for i, par := range fn.Params {
		if p.IsGeometry(par.Type()) {
			out = append(out, geomParam{i, ""})
		} else if k := p.KindOf(par.Type()); k != "" && k != "Point" && k != "Bound" {
			out = append(out, geomParam{i, k})
		}
	}
	return out
}

// shapeEntries: exported functions and methods (on exported types) with a
// geometry parameter, filtered by keep.
func (p *Program) shapeEntries(keep func(string) bool, extra []string) []*ssa.Function {
	var out []*ssa.Function
	for _, fn := range p.Funcs() {
		if fn.Parent() != nil || len(fn.Blocks) == 0 {
			continue
		}
		key := ShortKey(FuncKey(fn))
		isExtra := false
		for _, e := range extra {
			if e == key {
				isExtra = true
			}
		}
		if !isExtra {
			if fn.Object() == nil || !fn.Object().Exported() {
				continue
			}
			if recv := fn.Signature.Recv(); recv != nil {
				t := recv.Type()
				if pt, ok := t.(*types.Pointer); ok {
					t = pt.Elem()
				}
				if nt, ok := t.(*types.Named); ok && !nt.Obj().Exported() {
					continue
				}
			}
			if len(p.geomParams(fn)) == 0 {
				continue
			}
			if keep != nil && !keep(key) {
				continue
			}
		}
		out = append(out, fn)
	}
	return out
}

func secondaryHyps(kind string) []*GeomHyp {
	if kind == "" {
		return []*GeomHyp{nil, {Kind: "Point"}, pts("MultiPoint", 2), pts("LineString", 2), of("MultiLineString", pts("LineString", 2)),
			pts("Ring", 4), of("Polygon", pts("Ring", 4)), of("MultiPolygon", of("Polygon", pts("Ring", 4))), {Kind: "Bound"},
			of("Collection", &GeomHyp{Kind: "Point"}), pts("LineString", 0), of("Polygon")}
	}
	sh := hypsOfKind(kind, false)
	if len(sh) > 5 {
		sh = sh[:5]
	}
	return sh
}

type combo struct {
	label string
	build []func(it *Interp, s *State) AV
	hyp   *GeomHyp
}

func (p *Program) combosFor(fn *ssa.Function, thorough bool, ov paramOverride) []combo {
	gps := p.geomParams(fn)
	isGeom := map[int]geomParam{}
	for _, g := range gps {
		isGeom[g.idx] = g
	}
	kindNames := []string{}
	for _, k := range p.Kinds {
		kindNames = append(kindNames, k.Obj().Name())
	}
	combos := []combo{{}}
	first := true
	for i, par := range fn.Params {
		var choices []argChoice
		var hyps []*GeomHyp
		if g, ok := isGeom[i]; ok {
			if first {
				if g.kind == "" {
					hyps = allHyps(kindNames, thorough)
				} else {
					hyps = hypsOfKind(g.kind, thorough)
				}
				first = false
			} else {
				hyps = secondaryHyps(g.kind)
			}
			for _, h := range hyps {
				h := h
				g := g
				choices = append(choices, argChoice{par.Name() + "=" + h.String(), func(it *Interp, s *State) AV {
					if g.kind == "" {
						return it.buildIface(s, h)
					}
					if h == nil {
						return SliceV{Nil: true}
					}
					return it.buildGeom(s, h)
				}})
			}
		} else {
			choices = p.choicesFor(fn, par, ov)
		}
		var next []combo
		for _, c := range combos {
			for ci, ch := range choices {
				nc := combo{label: c.label, build: append(append([]func(*Interp, *State) AV(nil), c.build...), ch.build), hyp: c.hyp}
				if ch.label != "" {
					if nc.label != "" {
						nc.label += ", "
					}
					nc.label += ch.label
				}
				if hyps != nil && nc.hyp == nil {
					nc.hyp = hyps[ci]
				}
				next = append(next, nc)
			}
		}
		combos = next
		if len(combos) > 20000 {
			combos = combos[:20000]
		}
	}
	return combos
}

type siteReport struct {
	site     string
	kind     string
	first    *Fault
	firstLab string
	entries  map[string]bool
	hyps     int
	violated bool
}

func faultSite(f *Fault) string {
	return ShortKey(FuncKey(f.Fn)) + "#" + instrOrdinal(f.In)
}

func ruleShapeFaults(cfg shapeConfig) ruleFunc {
	return func(c *Ctx) {
		p := c.P
		c.R.Rule("A (" + cfg.label + "): path-sensitive abstract interpretation of the SSA from every exported entry with a geometry parameter under every hypothesis " +
			"(dynamic kind incl. nil x degenerate shape: typed nil, empty, 1..4 vertices, empty/nil members at every nesting level; declared constants of enum parameters; coordinates and other scalars unknown). " +
			"A fault (index/slice out of range, nil dereference, negative make, failed assertion, division by zero) that is certain in the abstract state on a path whose undecided branches depend only on free inputs is a violation; " +
			"an explicit panic is a violation when the path is decided by the hypothesis alone. Faults behind an opaque (unmodelled library) branch are recorded as unconfirmed.")
		lim := cfg.lim
		if lim.MaxStates == 0 {
			lim = defaultLimits(c.Thorough())
		}
		entries := p.shapeEntries(cfg.keep, cfg.extra)
		if cfg.onlyGeneric {
			var g []*ssa.Function
			for _, fn := range entries {
				for _, gp := range p.geomParams(fn) {
					if gp.kind == "" {
						g = append(g, fn)
						break
					}
				}
			}
			entries = g
		}
		type result struct {
			fn       *ssa.Function
			combos   int
			paths    int
			trunc    int
			steps    int
			truncWhy map[string]int
			faults   []*Fault
			labels   []string
			unsup    map[string]int
			postObl  []func()
		}
		results := make([]*result, len(entries))
		type job struct {
			ei int
			cb combo
		}
		jobs := make(chan job, 256)
		var mu sync.Mutex
		var wg sync.WaitGroup
		for ei, fn := range entries {
			results[ei] = &result{fn: fn, truncWhy: map[string]int{}, unsup: map[string]int{}}
		}
		nw := runtime.NumCPU()
		for w := 0; w < nw; w++ {
			wg.Add(1)
			go func() {
				defer wg.Done()
				it := NewInterp(p, lim)
				it.KeepFinished = cfg.post != nil
				mu.Lock()
				for path, note := range it.InitNotes {
					if note != "evaluated" {
						c.R.Note("A-init-not-evaluated", ShortKey(path)+": "+note)
					}
				}
				mu.Unlock()
				if cfg.hostile {
					it.Hostile = true
					it.allocLimit = func(n int64, in ssa.Instruction, s *State) string {
						limit := int64(4*it.inputLen) + 1<<16
						if n > limit {
							return fmt.Sprintf("allocation of up to %d elements is reachable for an input of %d bytes (bound: 4 x input + 65536): the size is a decoded count that no guard ties to the input length", n, it.inputLen)
						}
						return ""
					}
				}
				for j := range jobs {
					func() {
						res := results[j.ei]
						fn := res.fn
						cb := j.cb
						defer func() {
							if x := recover(); x != nil {
								mu.Lock()
								c.R.Add("A-internal", ShortKey(FuncKey(fn))+"("+cb.label+")", Undecided, "", fmt.Sprintf("interpreter panic: %v", x))
								mu.Unlock()
							}
						}()
						it.Faults, it.Finished = nil, nil
						it.Paths, it.Truncated, it.Steps = 0, 0, 0
						it.TruncWhy = map[string]int{}
						it.Unsupported = map[string]int{}
						s := &State{heap: make(map[int]AV, len(it.baseHeap)+16)}
						for k, v := range it.baseHeap {
							s.heap[k] = v
						}
						args := make([]AV, len(cb.build))
						for i, b := range cb.build {
							args[i] = b(it, s)
						}
						it.pushFrame(s, fn, args, nil, nil)
						it.Run(s)
						if os.Getenv("ORBCHECK_LABEL") != "" {
							fmt.Printf("DEBUG %s(%s): paths=%d finished=%d truncated=%d %v merged=%d faults=%d steps=%d\n", ShortKey(FuncKey(fn)), cb.label, it.Paths, it.NFinished, it.Truncated, it.TruncWhy, it.Merged, len(it.Faults), it.Steps)
						}
						mu.Lock()
						defer mu.Unlock()
						res.paths += it.Paths
						res.trunc += it.Truncated
						res.steps += it.Steps
						for k, v := range it.TruncWhy {
							res.truncWhy[k] += v
						}
						for k, v := range it.Unsupported {
							res.unsup[k] += v
						}
						for _, f := range it.Faults {
							res.faults = append(res.faults, f)
							res.labels = append(res.labels, cb.label)
						}
						if cfg.post != nil {
							run := &shapeRun{entry: fn, label: cb.label, faults: it.Faults, finished: it.Finished, paths: it.Paths, trunc: it.Truncated}
							hyp := cb.hyp
							res.postObl = append(res.postObl, func() { cfg.post(c, run, []*GeomHyp{hyp}, []string{cb.label}) })
						}
					}()
				}
			}()
		}
		dbgEntry, dbgLabel := os.Getenv("ORBCHECK_ENTRY"), os.Getenv("ORBCHECK_LABEL")
		for ei, fn := range entries {
			if dbgEntry != "" && !strings.Contains(ShortKey(FuncKey(fn)), dbgEntry) {
				continue
			}
			combos := p.combosFor(fn, c.Thorough(), cfg.override)
			results[ei].combos = len(combos)
			for _, cb := range combos {
				if dbgLabel != "" && cb.label != dbgLabel {
					continue
				}
				jobs <- job{ei, cb}
			}
		}
		close(jobs)
		wg.Wait()
		// deterministic order of faults within an entry
		for _, res := range results {
			idx := make([]int, len(res.faults))
			for i := range idx {
				idx[i] = i
			}
			sort.SliceStable(idx, func(a, b int) bool {
				fa, fb := res.faults[idx[a]], res.faults[idx[b]]
				if faultSite(fa) != faultSite(fb) {
					return faultSite(fa) < faultSite(fb)
				}
				if res.labels[idx[a]] != res.labels[idx[b]] {
					return res.labels[idx[a]] < res.labels[idx[b]]
				}
				return len(fa.Trail) < len(fb.Trail)
			})
			nf := make([]*Fault, len(idx))
			nl := make([]string, len(idx))
			for i, k := range idx {
				nf[i], nl[i] = res.faults[k], res.labels[k]
			}
			res.faults, res.labels = nf, nl
		}

		generic := map[*ssa.Function]bool{}
		for _, fn := range entries {
			for _, g := range p.geomParams(fn) {
				if g.kind == "" {
					generic[fn] = true
				}
			}
		}
		sites := map[string]*siteReport{}
		totalCombos, totalPaths, totalTrunc, totalSteps := 0, 0, 0, 0
		unsup := map[string]int{}
		truncWhy := map[string]int{}
		var entryNames []string
		for _, res := range results {
			if res == nil {
				continue
			}
			ekey := ShortKey(FuncKey(res.fn))
			entryNames = append(entryNames, ekey)
			totalCombos += res.combos
			totalPaths += res.paths
			totalTrunc += res.trunc
			totalSteps += res.steps
			for k, v := range res.unsup {
				unsup[k] += v
			}
			for k, v := range res.truncWhy {
				truncWhy[k] += v
			}
			entryBad := 0
			for i, f := range res.faults {
				viol := f.Free
				if f.Kind == "panic" {
					// an explicit panic is the "unsupported kind" clause: it counts only when the
					// hypothesis alone decides the path and the entry takes the geometry interface;
					// a typed function that validates its argument with a documented panic is its contract
					viol = f.Decided && generic[res.fn]
				}
				site := faultSite(f)
				sr := sites[site]
				if sr == nil {
					sr = &siteReport{site: site, kind: f.Kind, entries: map[string]bool{}}
					sites[site] = sr
				}
				sr.hyps++
				sr.entries[ekey] = true
				if viol && !sr.violated || sr.first == nil {
					sr.first, sr.firstLab = f, ekey+"("+res.labels[i]+")"
				}
				if viol {
					sr.violated = true
					entryBad++
				}
			}
			c.R.Add("A-entry", ekey, Discharged, p.Pos(res.fn.Pos()),
				fmt.Sprintf("%d hypotheses, %d paths explored, %d cut by the budget, %d certain faults on free paths", res.combos, res.paths, res.trunc, entryBad))
			for _, po := range res.postObl {
				po()
			}
		}
		var siteKeys []string
		for k := range sites {
			siteKeys = append(siteKeys, k)
		}
		sort.Strings(siteKeys)
		for _, k := range siteKeys {
			sr := sites[k]
			f := sr.first
			var ents []string
			for e := range sr.entries {
				ents = append(ents, e)
			}
			sort.Strings(ents)
			detail := fmt.Sprintf("%s: %s; first witness %s; reached from %d entr%s (%s) under %d hypotheses",
				f.Kind, f.Detail, sr.firstLab, len(ents), plural(len(ents), "y", "ies"), strings.Join(firstN(ents, 4), ", "), sr.hyps)
			var wit []string
			wit = append(wit, "call stack (innermost first): "+strings.Join(f.Stack, " <- "))
			for _, t := range f.Trail {
				tag := "free"
				if t.Opq {
					tag = "opaque"
				} else if t.Der {
					tag = "derived-float"
				}
				wit = append(wit, "branch ["+tag+"] "+t.Desc)
			}
			if len(wit) > 14 {
				wit = append(wit[:7], append([]string{"..."}, wit[len(wit)-6:]...)...)
			}
			if sr.violated {
				c.R.Add("A-fault", k, Violated, p.InstrPos(f.In), detail, wit...)
			} else {
				c.R.Add("A-fault", k, Unconfirmed, p.InstrPos(f.In), detail, wit...)
			}
		}
		sort.Strings(entryNames)
		c.R.Note("A-entries:"+cfg.label, entryNames...)
		c.R.Note("A-totals:"+cfg.label, fmt.Sprintf("%d entries, %d hypotheses, %d paths, %d abstract steps, %d paths cut (%v)", len(entries), totalCombos, totalPaths, totalSteps, totalTrunc, truncWhy))
		var us []string
		for k, v := range unsup {
			us = append(us, fmt.Sprintf("%s x%d", k, v))
		}
		sort.Strings(us)
		c.R.Note("A-unmodelled:"+cfg.label, us...)
		c.R.Floor("A-entries:"+cfg.label, len(entries), cfg.floor)
	}
}

func plural(n int, one, many string) string {
	if n == 1 {
		return one
	}
	return many
}

func firstN(s []string, n int) []string {
	if len(s) > n {
		return append(append([]string(nil), s[:n]...), "...")
	}
	return s
}
