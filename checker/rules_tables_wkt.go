package main

// T4 — WKT keyword / offset / EMPTY / float-format tables.
//
// Writer: for each arm of the type switch in the WKT writer, the keyword is the
// leading run of letters of the first string literal written, the EMPTY form is
// the literal containing " EMPTY".  Reader: the dispatch literals of Unmarshal
// and of each typed UnmarshalX, the constant K of `s[K:]` in each parser and
// its EqualFold literal.  Required: same keyword on both sides for each kind,
// K == len(keyword), identical EMPTY literal, no dispatch literal is a prefix
// of a later one, Ring/Bound written through the Polygon arm; every float verb
// in the writer is %g or %v without width/precision and the reader parses with
// bit size 64 (necessary for "every coordinate the identical float64").

import (
	"fmt"
	"go/ast"
	"go/constant"
	"go/token"
	"go/types"
	"regexp"
	"strconv"
	"strings"

	"golang.org/x/tools/go/packages"
	"golang.org/x/tools/go/ssa"
)

func strLit(pkg *packages.Package, e ast.Expr) (string, bool) {
	// "lit", `lit`, []byte("lit")
	e = ast.Unparen(e)
	if call, ok := e.(*ast.CallExpr); ok && len(call.Args) == 1 {
		if _, isArr := call.Fun.(*ast.ArrayType); isArr {
			e = ast.Unparen(call.Args[0])
		}
	}
	tv, ok := pkg.TypesInfo.Types[e]
	if ok && tv.Value != nil && tv.Value.Kind() == constant.String {
		return constant.StringVal(tv.Value), true
	}
	return "", false
}

var leadingLetters = regexp.MustCompile(`^[A-Z]+`)

func ruleWKTTables(c *Ctx) {
	p := c.P
	c.R.Rule("T4: WKT writer keyword/EMPTY literal per kind vs reader dispatch literal, slice offset and EMPTY literal per parser (syntax tree + constant evaluation); float verbs %g/%v only; ParseFloat bit size 64")
	pk := p.Pkgs[orbPath+"/encoding/wkt"]
	if pk == nil {
		c.R.Unknown("T4-wkt-tables", "encoding/wkt", "", "package not found")
		return
	}
	// ---- writer ----
	type wrow struct {
		keyword, empty string
		viaPolygon     bool
		pos            token.Pos
	}
	writer := map[string]*wrow{}
	var formats []string
	var formatPos []token.Pos
	for _, f := range pk.Syntax {
		ast.Inspect(f, func(n ast.Node) bool {
			if call, ok := n.(*ast.CallExpr); ok {
				if se, ok := call.Fun.(*ast.SelectorExpr); ok && strings.HasPrefix(se.Sel.Name, "Fprintf") || ok && se.Sel.Name == "Sprintf" {
					for _, a := range call.Args {
						if s, ok := strLit(pk, a); ok && strings.Contains(s, "%") {
							formats = append(formats, s)
							formatPos = append(formatPos, a.Pos())
						}
					}
				}
			}
			ts, ok := n.(*ast.TypeSwitchStmt)
			if !ok {
				return true
			}
			for _, cl := range ts.Body.List {
				cc := cl.(*ast.CaseClause)
				for _, te := range cc.List {
					kind := p.KindOf(pk.TypesInfo.TypeOf(te))
					if kind == "" {
						continue
					}
					row := &wrow{pos: cc.Pos()}
					var lits []string
					for _, st := range cc.Body {
						ast.Inspect(st, func(m ast.Node) bool {
							if e, ok := m.(ast.Expr); ok {
								if s, ok := strLit(pk, e); ok {
									if _, isLit := ast.Unparen(e).(*ast.BasicLit); isLit {
										lits = append(lits, s)
									}
								}
							}
							if call, ok := m.(*ast.CallExpr); ok {
								// recursion with a polygon argument
								for _, a := range call.Args {
									if p.KindOf(pk.TypesInfo.TypeOf(a)) == "Polygon" && kind != "Polygon" {
										row.viaPolygon = true
									}
								}
							}
							return true
						})
					}
					for _, l := range lits {
						if strings.Contains(l, " EMPTY") && row.empty == "" {
							row.empty = l
						}
					}
					for _, l := range lits {
						if kw := leadingLetters.FindString(l); kw != "" && !strings.Contains(l, " EMPTY") && row.keyword == "" {
							row.keyword = kw
						}
					}
					writer[kind] = row
				}
			}
			return true
		})
	}
	// ---- reader ----
	type rrow struct {
		lit    string
		fn     string
		kind   string
		offset int64
		hasOff bool
		empty  string
		pos    token.Pos
	}
	var dispatch []*rrow
	parserOf := map[string]*ast.FuncDecl{}
	for _, f := range pk.Syntax {
		for _, d := range f.Decls {
			if fd, ok := d.(*ast.FuncDecl); ok && fd.Body != nil {
				parserOf[fd.Name.Name] = fd
			}
		}
	}
	hasPrefixLit := func(e ast.Expr) (string, bool) {
		call, ok := ast.Unparen(e).(*ast.CallExpr)
		if !ok {
			if u, isU := ast.Unparen(e).(*ast.UnaryExpr); isU && u.Op == token.NOT {
				call, ok = ast.Unparen(u.X).(*ast.CallExpr)
			}
			if !ok {
				return "", false
			}
		}
		se, ok := call.Fun.(*ast.SelectorExpr)
		if !ok || se.Sel.Name != "HasPrefix" || len(call.Args) != 2 {
			return "", false
		}
		return strLit(pk, call.Args[1])
	}
	fillParser := func(r *rrow) {
		fd := parserOf[r.fn]
		if fd == nil {
			return
		}
		if res := fd.Type.Results; res != nil && len(res.List) > 0 {
			r.kind = p.KindOf(pk.TypesInfo.TypeOf(res.List[0].Type))
		}
		ast.Inspect(fd.Body, func(n ast.Node) bool {
			switch x := n.(type) {
			case *ast.SliceExpr:
				if x.Low != nil && x.High == nil && !r.hasOff {
					if v, ok := constInt(pk, x.Low); ok && v > 1 {
						r.offset, r.hasOff = v, true
					}
				}
			case *ast.CallExpr:
				if se, ok := x.Fun.(*ast.SelectorExpr); ok && se.Sel.Name == "EqualFold" && len(x.Args) == 2 {
					if s, ok := strLit(pk, x.Args[1]); ok {
						r.empty = s
					}
				}
			}
			return true
		})
	}
	if um := parserOf["Unmarshal"]; um != nil {
		ast.Inspect(um.Body, func(n ast.Node) bool {
			var cond ast.Expr
			var bodyStmts []ast.Stmt
			switch x := n.(type) {
			case *ast.IfStmt:
				cond, bodyStmts = x.Cond, x.Body.List
			case *ast.CaseClause:
				if len(x.List) != 1 {
					return true
				}
				cond, bodyStmts = x.List[0], x.Body
			default:
				return true
			}
			lit, ok := hasPrefixLit(cond)
			if !ok {
				return true
			}
			r := &rrow{lit: lit, pos: n.Pos()}
			for _, st := range bodyStmts {
				ast.Inspect(st, func(m ast.Node) bool {
					if call, ok := m.(*ast.CallExpr); ok {
						if id, ok := call.Fun.(*ast.Ident); ok && parserOf[id.Name] != nil && r.fn == "" {
							r.fn = id.Name
						}
					}
					return true
				})
			}
			fillParser(r)
			dispatch = append(dispatch, r)
			return true
		})
	}
	if len(dispatch) < 7 {
		c.R.Unknown("T4-wkt-tables", "encoding/wkt.Unmarshal", "", fmt.Sprintf("expected 7 dispatch arms, extracted %d", len(dispatch)))
		return
	}
	// prefix shadowing
	for i := range dispatch {
		for j := i + 1; j < len(dispatch); j++ {
			if strings.HasPrefix(dispatch[j].lit, dispatch[i].lit) {
				c.R.Bad("T4-wkt-tables", "encoding/wkt.Unmarshal#prefix:"+dispatch[j].lit, p.Pos(dispatch[j].pos),
					fmt.Sprintf("dispatch literal %q is tested before %q and is a prefix of it: the later arm is unreachable", dispatch[i].lit, dispatch[j].lit))
			}
		}
	}
	byKind := map[string]*rrow{}
	for _, r := range dispatch {
		byKind[r.kind] = r
	}
	for _, kind := range []string{"Point", "MultiPoint", "LineString", "MultiLineString", "Polygon", "MultiPolygon", "Collection"} {
		cons := "wkt:" + kind
		w, r := writer[kind], byKind[kind]
		if w == nil || r == nil {
			c.R.Unknown("T4-wkt-tables", cons, "", fmt.Sprintf("writer arm found: %v, reader arm found: %v", w != nil, r != nil))
			continue
		}
		var bad []string
		if w.keyword != r.lit {
			bad = append(bad, fmt.Sprintf("writer keyword %q, reader dispatches %s on %q", w.keyword, r.fn, r.lit))
		}
		if !r.hasOff {
			bad = append(bad, "the parser's keyword offset s[K:] was not found")
		} else if int(r.offset) != len(r.lit) {
			bad = append(bad, fmt.Sprintf("%s skips %d characters but its keyword %q has %d", r.fn, r.offset, r.lit, len(r.lit)))
		}
		if kind != "Point" {
			if w.empty == "" || r.empty == "" {
				bad = append(bad, fmt.Sprintf("EMPTY form: writer %q, reader %q", w.empty, r.empty))
			} else if w.empty != r.empty {
				bad = append(bad, fmt.Sprintf("writer emits %q for an empty value, the parser recognises %q", w.empty, r.empty))
			} else if w.empty != w.keyword+" EMPTY" {
				bad = append(bad, fmt.Sprintf("EMPTY literal %q does not start with the keyword %q", w.empty, w.keyword))
			}
		}
		// typed entry point
		if td := parserOf["Unmarshal"+kind]; td != nil {
			found := ""
			ast.Inspect(td.Body, func(n ast.Node) bool {
				if e, ok := n.(ast.Expr); ok {
					if s, ok := hasPrefixLit(e); ok {
						found = s
					}
				}
				return true
			})
			if found != r.lit {
				bad = append(bad, fmt.Sprintf("Unmarshal%s accepts prefix %q but its parser assumes %q", kind, found, r.lit))
			}
		}
		if len(bad) > 0 {
			c.R.Bad("T4-wkt-tables", cons, p.Pos(w.pos), strings.Join(bad, "; "))
		} else {
			c.R.OK("T4-wkt-tables", cons, p.Pos(w.pos), fmt.Sprintf("keyword %q, offset %d, EMPTY %q agree between writer and %s", w.keyword, r.offset, w.empty, r.fn))
		}
	}
	for _, kind := range []string{"Ring", "Bound"} {
		w := writer[kind]
		cons := "wkt:" + kind
		switch {
		case w == nil:
			c.R.Unknown("T4-wkt-tables", cons, "", "no writer arm")
		case !w.viaPolygon || w.keyword != "":
			c.R.Bad("T4-wkt-tables", cons, p.Pos(w.pos), kind+" must be written as the polygon it denotes (through the POLYGON arm), found keyword "+strconv.Quote(w.keyword))
		default:
			c.R.OK("T4-wkt-tables", cons, p.Pos(w.pos), "written through the Polygon arm")
		}
	}
	// float formats
	verb := regexp.MustCompile(`%[-+# 0-9.]*[a-zA-Z]`)
	nf := 0
	for i, f := range formats {
		for _, v := range verb.FindAllString(f, -1) {
			nf++
			cons := fmt.Sprintf("wkt-format:%q#%s", f, v)
			if v == "%g" || v == "%v" {
				c.R.OK("T4-float-format", cons, p.Pos(formatPos[i]), "shortest round-trip representation")
			} else if v == "%s" || v == "%d" || v == "%T" || v == "%q" {
				continue
			} else {
				c.R.Bad("T4-float-format", cons, p.Pos(formatPos[i]), "coordinates printed with "+v+" do not parse back to the identical float64 (only %g / %v without precision do)")
			}
		}
	}
	c.R.Floor("T4-float-format", nf, 6)
	// ParseFloat bit size
	npf := 0
	for _, f := range pk.Syntax {
		ast.Inspect(f, func(n ast.Node) bool {
			call, ok := n.(*ast.CallExpr)
			if !ok {
				return true
			}
			se, ok := call.Fun.(*ast.SelectorExpr)
			if !ok || se.Sel.Name != "ParseFloat" || len(call.Args) != 2 {
				return true
			}
			if obj, ok := pk.TypesInfo.Uses[se.Sel].(*types.Func); !ok || obj.Pkg().Path() != "strconv" {
				return true
			}
			npf++
			cons := fmt.Sprintf("wkt-parsefloat#%d", npf)
			if v, ok := constInt(pk, call.Args[1]); ok && v == 64 {
				c.R.OK("T4-float-format", cons, p.Pos(call.Pos()), "ParseFloat(…, 64)")
			} else {
				c.R.Bad("T4-float-format", cons, p.Pos(call.Pos()), "coordinates must be parsed with bit size 64")
			}
			return true
		})
	}
	c.R.Floor("T4-parsefloat", npf, 2)
}

// T4b — the typed WKT entry points look at trimmed text only: in every
// exported Unmarshal* function of encoding/wkt, the text handed to the keyword
// test (upperPrefix) and to the kind's parser has passed through trimSpace
// (the seven entry points are siblings: one that tests the raw argument rejects
// its own kind when the text starts with a blank).
func ruleWKTTrimFirst(c *Ctx) {
	p := c.P
	c.R.Rule("T4b: in every exported encoding/wkt.Unmarshal* the string handed to upperPrefix and to the unexported parsers is derived from a trimSpace call, never the raw parameter")
	n := 0
	for _, fn := range p.FuncsIn(orbPath + "/encoding/wkt") {
		if fn.Parent() != nil || fn.Object() == nil || !fn.Object().Exported() || !strings.HasPrefix(fn.Name(), "Unmarshal") || len(fn.Params) == 0 {
			continue
		}
		if b, ok := fn.Params[0].Type().Underlying().(*types.Basic); !ok || b.Kind() != types.String {
			continue
		}
		key := ShortKey(FuncKey(fn))
		for _, blk := range fn.Blocks {
			for _, in := range blk.Instrs {
				call, ok := in.(*ssa.Call)
				if !ok {
					continue
				}
				callee := call.Call.StaticCallee()
				if callee == nil || callee.Pkg != fn.Pkg || len(call.Call.Args) == 0 {
					continue
				}
				if strings.EqualFold(callee.Name(), "trimSpace") {
					continue
				}
				if b, ok := call.Call.Args[0].Type().Underlying().(*types.Basic); !ok || b.Kind() != types.String {
					continue
				}
				n++
				cons := fmt.Sprintf("%s->%s", key, callee.Name())
				// backward slice of the text argument: a trim call must be met before the raw parameter
				raw := false
				seen := map[ssa.Value]bool{}
				var walk func(v ssa.Value)
				walk = func(v ssa.Value) {
					if seen[v] {
						return
					}
					seen[v] = true
					switch x := v.(type) {
					case *ssa.Parameter:
						raw = true
					case *ssa.Call:
						if cal := x.Call.StaticCallee(); cal != nil && strings.Contains(strings.ToLower(cal.Name()), "trimspace") {
							return
						}
						// some other derivation (a helper): follow its string arguments
						for _, a := range x.Call.Args {
							if b, ok := a.Type().Underlying().(*types.Basic); ok && b.Kind() == types.String {
								walk(a)
							}
						}
					case *ssa.Slice:
						walk(x.X)
					case *ssa.Phi:
						for _, e := range x.Edges {
							walk(e)
						}
					case *ssa.Extract:
						walk(x.Tuple)
					case *ssa.Convert:
						walk(x.X)
					}
				}
				walk(call.Call.Args[0])
				if raw {
					c.R.Bad("T4b-trim-first", cons, p.InstrPos(call), "the text given to "+callee.Name()+" is the raw argument, not its trimmed form: text of the function's own kind that starts with a blank is rejected or mis-sliced")
				} else {
					c.R.OK("T4b-trim-first", cons, p.InstrPos(call), "text is trimmed first")
				}
			}
		}
	}
	c.R.Floor("T4b-trim-first", n, 14)
}

// ruleWKTCapacityHint (T4c): a slice whose capacity is computed from strings.Count(X, ",") is filled by splitting
// the same X.  The five coordinate-list parsers are siblings (count the commas of the list, allocate, split the
// list); counting the commas of an enclosing text instead makes every inner list allocate for the whole outer
// one - quadratic allocation on a hostile sentence.
func ruleWKTCapacityHint(c *Ctx) {
	p := c.P
	c.R.Rule("T4c: in encoding/wkt, a capacity computed from strings.Count(X, \",\") belongs to a slice filled by splitOnComma(X, ...) on the same X")
	n := 0
	for _, fn := range p.FuncsIn(orbPath + "/encoding/wkt") {
		var counts []*ssa.Call
		var splits []*ssa.Call
		usedAsCap := map[*ssa.Call]bool{}
		for _, blk := range fn.Blocks {
			for _, in := range blk.Instrs {
				switch x := in.(type) {
				case *ssa.Call:
					callee := x.Call.StaticCallee()
					if callee == nil || len(x.Call.Args) == 0 {
						continue
					}
					if callee.Pkg != nil && callee.Pkg.Pkg.Path() == "strings" && callee.Name() == "Count" {
						counts = append(counts, x)
					}
					if callee.Pkg == fn.Pkg && callee.Name() == "splitOnComma" {
						splits = append(splits, x)
					}
				case *ssa.MakeSlice:
					// the capacity expression: count + 1 (or count itself)
					var from func(v ssa.Value, depth int)
					from = func(v ssa.Value, depth int) {
						if depth > 3 {
							return
						}
						switch y := v.(type) {
						case *ssa.Call:
							usedAsCap[y] = true
						case *ssa.BinOp:
							from(y.X, depth+1)
							from(y.Y, depth+1)
						case *ssa.Convert:
							from(y.X, depth+1)
						}
					}
					from(x.Cap, 0)
				}
			}
		}
		k := 0
		for _, cnt := range counts {
			if !usedAsCap[cnt] {
				continue
			}
			n++
			k++
			cons := fmt.Sprintf("%s#Count#%d", ShortKey(FuncKey(fn)), k)
			if len(splits) != 1 {
				c.R.Add("T4c-capacity-hint", cons, Unconfirmed, p.InstrPos(cnt), fmt.Sprintf("%d splitOnComma calls in this function: the hint is not matched to one", len(splits)))
				continue
			}
			if splits[0].Call.Args[0] == cnt.Call.Args[0] {
				c.R.OK("T4c-capacity-hint", cons, p.InstrPos(cnt), "the commas counted are those of the text that is split")
			} else {
				c.R.Bad("T4c-capacity-hint", cons, p.InstrPos(cnt), "the capacity counts the commas of "+operandText(cnt.Call.Args[0])+" but the slice is filled from "+operandText(splits[0].Call.Args[0])+": every inner list allocates for the enclosing text (quadratic allocation)")
			}
		}
	}
	c.R.Floor("T4c-capacity-hint", n, 1) // five sites today; a shared helper would leave one
}
