package main

import (
	"fmt"
	"go/types"
	"sort"
	"strings"

	"golang.org/x/tools/go/ssa"
)

// Registration of the rule families that decide (clauses of) each property.
// A property is registered only with rules that are silent on the current
// tree (after the recorded fix: commits and known findings) and that fire on
// their mutants (see /verif/mutants and DESIGN.md).

func not(f func(string) bool) func(string) bool { return func(s string) bool { return !f(s) } }

func and(fs ...func(string) bool) func(string) bool {
	return func(s string) bool {
		for _, f := range fs {
			if !f(s) {
				return false
			}
		}
		return true
	}
}

var (
	inWKB        = inPkgs("encoding/internal/wkbcommon.", "encoding/wkb.", "encoding/ewkb.")
	inMVT        = and(inPkgs("encoding/mvt."), not(inPkgs("encoding/mvt/vectortile.")))
	inDecoders   = and(inPkgs("encoding/", "geojson."), not(inPkgs("encoding/mvt/vectortile.")))
	notGenerated = not(inPkgs("encoding/mvt/vectortile."))
)

func init() {
	register("DBG", "debug: every rule over the whole module",
		ruleLoopShapes(notGenerated, 0, 0), ruleLastIterationWins(notGenerated, 0))

	register("C19",
		"Sound may-write analysis of the six read-only quadtree queries: every store reachable from them targets a per-call allocation or the caller's result buffer; no package-level variable is written. Decided for all schedules and all trees, modulo the stated assumptions.",
		ruleNoWrite("quadtree queries", quadtreeQueries, 6, 20),
	)

	register("C06",
		"Structural necessary conditions of 'Clone is deep': points-to freshness of every Clone result at every nesting level and no write to the argument; coordinates are only moved. Equal/Bound numeric laws are NOT decided.",
		ruleFreshResult("clone family", cloneFamily, 8),
		ruleNoWrite("clone family", cloneFamily, 8, 5),
		ruleShapeFaults(shapeConfig{label: "orb core", keep: inPkgs("orb."), floor: 42}),
		ruleMemberLoops(inPkgs("orb."), 17, 0),
		ruleBoxPredicates(orbBoundPredicates),
		ruleEqualSameKind,
		ruleCompose(concatSpecs(reverseSpecs, cloneSpecs, boundSpecs, shoelaceSpecs("orientation"), equalSpecs), 200),
	)

	register("C01",
		"WKB/EWKB round trip, decided for the enumerated shapes with every coordinate and the SRID unknown: the encoder's output is followed byte by byte (constants, or eight bits of one coordinate) and handed to the byte-slice decoder, the stream decoder and the SQL scanner (every destination type) in the same abstract state; the decoded value has the kind, nesting, lengths and the very coordinates of the original (ring/bound as one-ring polygon), the SRID comes back, the three paths agree, the scanner applies exactly the documented coercions and fails with the wrong-geometry error otherwise. Plus the structural rules: coordinates only moved and bit-cast (H1), tables (T1-T3), member loops (D2), scanner state (G2). The scanner's input framings (hex text, backslash-x hex text, 4-byte SRID prefix) are covered with abstract hex digits. NOT decided: shapes beyond the enumerated ones; nil members inside multi geometries (outside the stated domain: the encoder skips them while counting them).",
		ruleFloatPure(inWKB, nil, 70),
		ruleMemberLoops(inWKB, 10, 0),
		ruleWKBTables,
		ruleScanCoercion,
		ruleMemberSizes,
		ruleScannerState,
		ruleNoGlobalResult("wkb encoders", marshalEntries("encoding/wkb.Marshal", "encoding/ewkb.Marshal", "encoding/internal/wkbcommon.Marshal"), 3),
		ruleCompose(wkbRoundTripSpecs, 400),
	)

	register("C02",
		"Structural necessary conditions of the GeoJSON/BSON round trip: the type-name tables of the JSON and BSON decoders agree with each other, with the GeoJSONType() constants and with the RFC 7946 nesting depths; marshal and unmarshal documents name the same members; Ring/Bound/Collection can never land in \"coordinates\"; member loops complete; NewGeometry/NewFeature total on every kind/shape. Float text round trip, properties/id/foreign members and byte-identical re-marshal are NOT decided (inside encoding/json and the bson driver).",
		ruleGeoJSONTables,
		ruleNullGuardSiblings,
		ruleMemberLoops(inPkgs("geojson."), 3, 0),
		ruleLoopShapes(inPkgs("geojson."), 3, 2),
		ruleContainerReset(inPkgs("geojson."), 2),
		ruleMakeThenAppend(inPkgs("geojson."), 0),
		ruleNoWriteOpt("geojson encoders", geojsonEncoders, 6, 4, true),
		ruleNoGlobalBehindParams("geojson decoders", geojsonDecoders, 4),
		ruleShapeFaults(shapeConfig{label: "geojson constructors", keep: inPkgs("geojson."), floor: 2}),
		ruleCompose(geojsonMemorySpecs, 30),
	)

	register("C03",
		"Structural necessary conditions of 'MVT round-trips and marshals deterministically': no map iteration order can reach the output of Marshal (decided for all inputs and all map orders); every collection member is encoded (run-once loops); member loops cover all features/parts. Zigzag arithmetic and ring regrouping are NOT decided.",
		ruleMapOrder([]string{"encoding/mvt.Marshal", "encoding/mvt.MarshalGzipped"}, []string{"encoding/mvt/vectortile"}, 1),
		ruleRunOnce(inMVT, 30),
		ruleLoopAlias(inMVT, 20),
		ruleLoopShapes(inMVT, 0, 5),
		rulePluralDelegates(inMVT, 4),
		ruleProtoTables,
		ruleMemberLoops(inMVT, 18, 0),
		ruleCompose(concatSpecs(mvtMarshalSpecs, mvtIDSpecs), 16),
	)

	register("C04",
		"Structural necessary conditions of the WKT round trip: writer and reader agree on keyword, keyword offset and EMPTY literal for every kind; Ring/Bound are written as POLYGON; floats are printed with %g/%v and parsed with 64 bits (necessary for identical float64); the writer is total on every kind/shape (abstract interpretation). The text grammar (collection splitting on exponents/nesting/EMPTY, whitespace handling) is NOT decided - a known round-trip failure there is out of reach of this family.",
		ruleWKTTables,
		ruleWKTTrimFirst,
		ruleNoGlobalResult("wkt encoders", marshalEntries("encoding/wkt.Marshal", "encoding/wkt.MarshalString"), 2),
		ruleShapeFaults(shapeConfig{label: "wkt writer", keep: inPkgs("encoding/wkt."), floor: 2}),
		ruleMemberLoops(inPkgs("encoding/wkt."), 6, 0),
	)

	register("C05",
		"Structural necessary conditions of 'decoders are total and allocation-bounded': no guard arithmetic on a decoded count can wrap in a narrow unsigned type. (Further clauses are added by the shape interpreter.)",
		ruleNarrowArith(inDecoders, 2),
		ruleQuadraticAlloc(inDecoders, 5),
		// x[0] of a decoded multi geometry only under len(x) == 1: an empty one must not be indexed.  When the
		// code is written in a form the table reader does not recognise the clause is left to C01 (whose round
		// trip decides it) rather than failed here
		softFloor(ruleScanCoercion, "T1c-"),
		softFloor(ruleWKTCapacityHint, "T4c-"),
		func(c *Ctx) {
			nb, ns, lim := 24, 16, Limits{MaxStates: 2500, MaxSteps: 20000, MaxVisits: 3, MaxDepth: 40}
			if c.Thorough() {
				nb, ns, lim = 64, 32, Limits{MaxStates: 8000, MaxSteps: 40000, MaxVisits: 4, MaxDepth: 48}
			}
			ruleShapeFaults(shapeConfig{label: "hostile input", keep: func(string) bool { return false }, extra: hostileEntries, floor: 34,
				override: hostileParams(nb, ns), hostile: true, lim: lim})(c)
		},
		ruleShapeFaults(shapeConfig{label: "wkb unit decoders", keep: func(string) bool { return false }, extra: wkbUnitDecoders, floor: 12,
			override: hostileParams(24, 0), hostile: true, lim: Limits{MaxStates: 1500, MaxSteps: 20000, MaxVisits: 3, MaxDepth: 40},
			post: rulePost("wkb decoders", decodedNonNil)}),
	)

	register("C07",
		"Structural necessary conditions of line clipping: clip.LineString/MultiLineString/MultiPoint never write their input and their pieces do not alias it (points-to, all inputs); no certain fault for nil/empty/1..4-vertex lines with closed and open bounds (abstract interpretation); the segment loop visits every segment. The geometry of the result is NOT decided.",
		ruleNoWrite("line clipping", lineClipEntries, 3, 8),
		ruleFreshResult("line clipping", lineClipEntries, 3),
		ruleShapeFaults(shapeConfig{label: "clip 0-d/1-d", keep: func(k string) bool {
			return k == "clip.LineString" || k == "clip.MultiLineString" || k == "clip.MultiPoint" || k == "clip.Geometry"
		}, floor: 4}),
		ruleMemberLoops(func(k string) bool { return k == "clip.line" || k == "clip.MultiLineString" || k == "clip.MultiPoint" }, 2, 1),
		ruleRegionCodes(clipRegionFuncs, true),
		ruleOpenFlagFlow,
		ruleCompose(concatSpecs(clipLineMemberSpecs, clipVertexSpecs, clipIntersectSpecs, boundSpecsOf("MultiPoint", "LineString", "MultiLineString")), 25),
	)

	register("C08",
		"Structural necessary conditions of ring/polygon clipping: no certain fault for any kind x degenerate shape through every clip entry; clip.Geometry returns a nil interface for nil/empty input and never a typed nil inside a non-nil interface (abstract interpretation, shape-decided postconditions); member loops complete. Region preservation and area additivity are NOT decided.",
		ruleShapeFaults(shapeConfig{label: "clip", keep: inPkgs("clip."), floor: 8,
			post: rulePost("clip", append(typedNilPost("clip.Geometry"), emptyInNilOut("clip.Geometry")))}),
		ruleMemberLoops(inPkgs("clip."), 6, 1),
		ruleRunOnce(inPkgs("clip."), 10),
		ruleRegionCodes(clipRegionFuncs, true),
		ruleLoopShapes(inPkgs("clip."), 1, 5),
		ruleBoxIntersection,
		ruleCompose(concatSpecs(clipRingMemberSpecs, clipRingVertexSpecs, clipIntersectSpecs, boundSpecsOf("Ring", "Polygon", "MultiPolygon", "Collection")), 26),
	)

	register("C09",
		"The composition clauses of 'point-in-ring/polygon matches even-odd geometry', decided with the callees uninterpreted: RingContains consults every edge of the implicitly closed ring exactly once (consecutive pairs and the closing pair), a boundary hit on any edge wins, otherwise the answer is the parity of the crossings; a polygon contains a point iff its outer ring does and no hole does; a multi-polygon iff any member does. What rayIntersect answers for one segment (the degenerate alignments, the one-ulp nudge, the slope comparison) is NOT decided.",
		ruleCompose(concatSpecs(planarContainsSpecs, rayIntersectSpecs, boundSpecsOf("Ring")), 150),
	)

	register("C10",
		"Structural necessary conditions of 'planar measures equal their exact values': every segment loop visits every consecutive pair and every member loop every member (or reads the skipped prefix elsewhere); and, with the parts' own formulas left uninterpreted, the composition formulas as rational functions of the parts' measures: polygon area = |outer| - sum |hole| with the matching centroid, multi-polygon and collection area = sum over (top-dimensional) members with the area-weighted centroid, length = the distance function summed over every segment once, distance-from = the smallest measured segment/point distance with every segment measured once. The shoelace, segment-distance and line-centroid formulas themselves and all rounding are NOT decided.",
		ruleMemberLoops(inPkgs("planar.", "internal/length."), 14, 5),
		ruleShapeFaults(shapeConfig{label: "planar measures", keep: and(inPkgs("planar.", "internal/length."), func(k string) bool { return !strings.Contains(k, "Contains") }), floor: 6}),
		ruleRunOnce(inPkgs("planar.", "internal/length."), 20),
		ruleCompose(concatSpecs(planarMeasureSpecs, planarLengthSpecs, lowerCentroidSpecs, shoelaceSpecs("area"), segmentDistanceSpecs), 114),
		ruleNoWrite("planar measures", planarObservers, 5, 0), // a measure that wrote its argument (or memory behind it) would change the next one
	)

	register("C13",
		"The integer clauses of 'tile arithmetic is a consistent quadtree', decided for every X and Y at each zoom by giving the coordinates a bit-level and a linear symbolic reading: Quadkey interleaves the bits of X and Y and FromQuadkey is its inverse; the four children are the distinct quadrants 2X+dx, 2Y+dy one zoom deeper and Parent/Siblings undo that; Valid is X,Y < 2^zoom; Contains is the ancestor relation; SharedParent is the deepest common ancestor; Range and ChildrenInZoomRange are exactly the descendants. The float clauses (At/Fraction in range, Bound/Center, shared edges) are NOT decided.",
		ruleCompose(tileSpecs, 60),
	)

	register("C14",
		"Structural necessary conditions of 'tile covers contain every tile touched': every member of a multi-geometry/collection contributes (no loop cut after its first member, no skipped prefix) and the line walk visits every segment. The DDA, scan fill and merge arithmetic are NOT decided.",
		ruleMergeSiblings,
		ruleRunOnce(inPkgs("maptile/tilecover."), 15),
		ruleMemberLoops(inPkgs("maptile/tilecover."), 5, 1),
		ruleShapeFaults(shapeConfig{label: "tilecover", keep: inPkgs("maptile/tilecover."), floor: 8}),
		ruleLoopShapes(inPkgs("maptile/tilecover."), 1, 3),
		ruleDispatchDelegation([]string{"maptile/tilecover"}, 6),
		ruleCompose(coverMemberSpecs, 10),
		ruleCompose(coverLineSpecs, 0), // no floor: a form the judge cannot read is kept as unconfirmed (requires), a missing entry is undecided
	)

	register("C18",
		"Structural necessary conditions of 'spherical measures sum over parts': member loops of polygon/multi-polygon/collection area and the shared length loops cover every member/segment; and, with ringArea and the distance functions left uninterpreted, polygon area = |outer| - sum |hole|, multi-polygon and collection area = sum over members, length = the distance function summed over every segment once (as rational functions of the parts' measures). Identities on the sphere (distance, bearing, midpoint, ring area) are NOT decided.",
		ruleMemberLoops(inPkgs("geo.", "internal/length."), 6, 2),
		ruleShapeFaults(shapeConfig{label: "geo measures", keep: inPkgs("geo.", "internal/length."), floor: 5}),
		ruleBoundAsPolygon,
		ruleRunOnce(inPkgs("geo.", "internal/length."), 8),
		ruleCompose(concatSpecs(geoAreaSpecs, geoLengthSpecs, geoRingInvarianceSpecs, geoSymmetrySpecs), 62),
	)

	register("C11",
		"Structural necessary conditions of 'the quadtree answers as a list would': no certain fault in any public method on a never-populated, one-point, two-level or emptied tree with boundary arguments (k in 0..3, buffers shorter/longer, nil/non-nil filter) - abstract interpretation. Histories: short Add/Remove sequences over points with unknown coordinates in a tree with an unknown bound are run path by path (every midline comparison a recorded order fact); Remove answers true exactly for a stored pointer, reading the tree back over its own bound gives exactly the pointers added and not removed, and InBound over an unknown box returns exactly the stored pointers the path's facts place inside it (A-comp). Nearest / k-nearest answers and their ordering are NOT decided.",
		ruleShapeFaults(shapeConfig{label: "quadtree API", keep: func(string) bool { return false }, extra: quadtreeAPI, floor: 9, override: quadtreeParams, post: rulePost("quadtree", quadtreePost)}),
		ruleRejectBeforeWrite("quadtree.(*Quadtree).Add", "orb.(Bound).Contains"),
		ruleBoxPredicates(append(append([]boxSpec(nil), quadtreeBoxPredicates...), orbBoundPredicates[1])),
		ruleQuadtreeTables,
		ruleCompose(quadtreeSpecs, 20),
		ruleNoWrite("quadtree queries", quadtreeQueries, 6, 20), // a query that changed the tree would change later answers
	)

	register("C12",
		"Structural necessary conditions of the simplifier property: no certain fault for any kind x degenerate shape through every exported simplify entry (abstract interpretation); member loops cover every member. Error bound, idempotence, counts are NOT decided.",
		ruleShapeFaults(shapeConfig{label: "simplify", keep: inPkgs("simplify."), floor: 21}),
		ruleMemberLoops(inPkgs("simplify."), 5, 0),
		ruleNoWrite("simplifier configuration", simplifierEntries, 20, 20),
		ruleAreaFlag,
		ruleVertexProvenance,
		ruleCompactionIndex(inPkgs("simplify."), 4),
		ruleDiscardedShortened(inPkgs("simplify."), inPkgs("simplify."), 20),
		ruleCompose(concatSpecs(simplifySpecs, triangleAreaSpecs), 63),
	)

	register("C15",
		"Structural necessary conditions of 'a projection transforms every vertex in place': every projection helper stores f(x[i]) back to x[i] for the loop's own i (so kind, nesting and order are preserved), the bound helper projects exactly its two corners, every member loop (incl. the layer/feature loops of the MVT projection) is complete, and no certain fault exists for any kind x shape. All numeric inverse/rounding claims are NOT decided.",
		ruleIndexPreserving("project.", 6),
		ruleTileRounding,
		rulePluralDelegates(inPkgs("encoding/mvt."), 4),
		ruleDiscardedResult(func(k string) bool {
			return inPkgs("project.")(k) || (inPkgs("encoding/mvt.")(k) && strings.Contains(k, "Project"))
		}),
		ruleMemberLoops(func(k string) bool {
			return inPkgs("project.")(k) || (inPkgs("encoding/mvt.")(k) && strings.Contains(k, "Project"))
		}, 8, 0),
		ruleShapeFaults(shapeConfig{label: "project", keep: inPkgs("project."), floor: 8}),
		ruleLoopShapes(inPkgs("project."), 0, 5),
	)

	register("C16",
		"Structural necessary conditions of smart clipping: no certain fault for any 2-d kind x degenerate shape x both orientations (abstract interpretation); member loops. Region equality is NOT decided.",
		ruleShapeFaults(shapeConfig{label: "smartclip", keep: inPkgs("clip/smartclip."), floor: 4}),
		ruleMemberLoops(inPkgs("clip/smartclip."), 10, 0),
		ruleLoopShapes(inPkgs("clip/smartclip."), 0, 1),
		ruleRegionCodes(append(append([]regionFunc(nil), clipRegionFuncs...), regionFunc{"clip/smartclip", "bitCodeOpen", true}), false),
		ruleCornerTables,
		ruleEndpointOrder,
		ruleCompactionIndex(inPkgs("clip/smartclip."), 1),
		ruleCompose(concatSpecs(smartclipSpecs, pnpolySpecs), 10),
	)

	register("C17",
		"Structural necessary conditions of resampling: no certain fault (negative make, index) for nil/empty/1..4-vertex lines x N in {-1,0,1,2,3,free} x free interval (abstract interpretation); the two distance loops visit every segment. Spacing and counts are NOT decided.",
		ruleShapeFaults(shapeConfig{label: "resample", keep: inPkgs("resample."), floor: 2, override: resampleParams, post: rulePost("resample", resamplePost)}),
		ruleMemberLoops(inPkgs("resample."), 1, 2),
		ruleLastIterationWins(inPkgs("resample."), 3),
		ruleCompose(resampleSpecs, 8),
	)

	register("C20",
		"Structural necessary conditions of 'generic entry points are total': typestate over dynamic kinds at every type switch / assertion on orb.Geometry, sealedness of the interface, no collection loop cut after its first member. Numeric agreement with typed functions is NOT decided.",
		ruleSealed, ruleKinds,
		ruleRunOnce(notGenerated, 200),
		ruleShapeFaults(shapeConfig{label: "generic entries", keep: notGenerated, onlyGeneric: true, floor: 41}),
		ruleNoWrite("observers", observerEntries, 25, 30),
		ruleDiscardedResult(notGenerated),
		ruleBoundAsPolygon,
		ruleLoopShapes(notGenerated, 18, 25),
		ruleCompactionIndex(notGenerated, 6),
		ruleMakeThenAppend(notGenerated, 8),
		ruleLastIterationWins(notGenerated, 100),
		ruleDispatchDelegation([]string{"maptile/tilecover", "clip", "project", "clip/smartclip", "simplify:simplify"}, 25),
		ruleAreaFlag, // the generic simplify entry treats a ring as a ring (area flag), as the typed methods do
	)

	// table rules whose clauses the A-comp rules of the same property decide semantically
	backedBy("C01", "T1-", "T1c-", "T2-", "T3-")
	backedBy("C11", "T9-")
	backedBy("C17", "D3-", "D2-")
	backedBy("C07", "T7-")
	backedBy("C08", "T7-")
	backedBy("C10", "D3-", "D2-")
	backedBy("C18", "D3-", "D2-")
}

func quadtreeQueries(c *Ctx) []effectEntry {
	var out []effectEntry
	for _, m := range []string{"Find", "Matching", "KNearest", "KNearestMatching", "InBound", "InBoundMatching"} {
		fn := c.P.funcByShortKey("quadtree.(*Quadtree)." + m)
		roles := map[int]paramRole{}
		if fn != nil {
			for i, par := range fn.Params {
				if par.Name() == "buf" {
					roles[i] = roleCallerBuf
				}
			}
		}
		out = append(out, effectEntry{key: "quadtree.(*Quadtree)." + m, roles: roles})
	}
	return out
}

// cloneFamily: orb.Clone and every Clone method of a geometry kind.
func cloneFamily(c *Ctx) []effectEntry {
	out := []effectEntry{{key: "orb.Clone"}}
	for _, k := range c.P.Kinds {
		key := "orb.(" + k.Obj().Name() + ").Clone"
		if c.P.funcByShortKey(key) != nil {
			out = append(out, effectEntry{key: key})
		}
	}
	return out
}

// resampleParams: the requested point count is enumerated around its edge cases.
func resampleParams(p *Program, fn *ssa.Function, par *ssa.Parameter) []argChoice {
	if par.Name() == "totalPoints" {
		return intChoices("totalPoints", -1, 0, 1, 2, 3)
	}
	if par.Name() == "dist" {
		return []argChoice{
			{"dist=-1", func(*Interp, *State) AV { return FloatV{Known: true, V: -1} }},
			{"dist=0", func(*Interp, *State) AV { return FloatV{Known: true, V: 0} }},
			{"dist=free", func(it *Interp, s *State) AV { return it.freeFloat() }},
		}
	}
	return nil
}

// quadtreeParams: receiver states and boundary arguments for the quadtree API.
func quadtreeParams(p *Program, fn *ssa.Function, par *ssa.Parameter) []argChoice {
	userPtr := func() AV { return IfaceV{User: true} }
	nilChildren := func() AV {
		return ArrV{N: 4, Elems: []AV{PtrV{Nil: true}, PtrV{Nil: true}, PtrV{Nil: true}, PtrV{Nil: true}}, Def: PtrV{Nil: true}}
	}
	node := func(it *Interp, s *State, val AV, child int, childNode AV) AV {
		ch := nilChildren().(ArrV)
		if child >= 0 {
			ch.Elems[child] = childNode
		}
		return PtrV{Cell: it.newCell(s, StructV{Fields: []AV{val, ch}})}
	}
	tree := func(build func(it *Interp, s *State) AV) func(*Interp, *State) AV {
		return func(it *Interp, s *State) AV {
			bound := it.freeValue(s, p.Pkgs[orbPath].Types.Scope().Lookup("Bound").Type(), 0)
			return PtrV{Cell: it.newCell(s, StructV{Fields: []AV{bound, build(it, s)}})}
		}
	}
	switch {
	case par.Name() == "q" && strings.HasSuffix(par.Type().String(), "quadtree.Quadtree"):
		return []argChoice{
			{"tree=never-populated", tree(func(*Interp, *State) AV { return PtrV{Nil: true} })},
			{"tree=one-point", tree(func(it *Interp, s *State) AV { return node(it, s, userPtr(), -1, nil) })},
			{"tree=root+child0", tree(func(it *Interp, s *State) AV { return node(it, s, userPtr(), 0, node(it, s, userPtr(), -1, nil)) })},
			{"tree=root+child3", tree(func(it *Interp, s *State) AV { return node(it, s, userPtr(), 3, node(it, s, userPtr(), -1, nil)) })},
			{"tree=emptied-root+child2", tree(func(it *Interp, s *State) AV {
				return node(it, s, IfaceV{Nil: true}, 2, node(it, s, userPtr(), -1, nil))
			})},
			{"tree=emptied-root", tree(func(it *Interp, s *State) AV { return node(it, s, IfaceV{Nil: true}, -1, nil) })},
		}
	case par.Name() == "k":
		return []argChoice{
			{"k=0", func(*Interp, *State) AV { return intOf(0) }},
			{"k=1", func(*Interp, *State) AV { return intOf(1) }},
			{"k=2", func(*Interp, *State) AV { return intOf(2) }},
			{"k=3", func(*Interp, *State) AV { return intOf(3) }},
		}
	case par.Name() == "maxDistance":
		return []argChoice{
			{"maxDistance=none", func(*Interp, *State) AV { return SliceV{Nil: true} }},
			{"maxDistance=[d]", func(it *Interp, s *State) AV {
				return SliceV{Arr: it.newCell(s, ArrV{N: 1, Elems: []AV{it.freeFloat()}, Def: FloatV{}}), Hi: 1, Cap: 1}
			}},
		}
	case par.Name() == "buf":
		mk := func(n, c int) func(it *Interp, s *State) AV {
			return func(it *Interp, s *State) AV {
				arr := ArrV{N: c, Elems: make([]AV, c), Def: IfaceV{Nil: true}}
				for i := range arr.Elems {
					arr.Elems[i] = IfaceV{Nil: true}
				}
				return SliceV{Arr: it.newCell(s, arr), Hi: n, Cap: c}
			}
		}
		return []argChoice{
			{"buf=nil", func(*Interp, *State) AV { return SliceV{Nil: true} }},
			{"buf=len0cap0", mk(0, 0)},
			{"buf=len1cap1", mk(1, 1)},
			{"buf=len0cap4", mk(0, 4)},
		}
	case par.Name() == "f" || par.Name() == "eq":
		return []argChoice{
			{par.Name() + "=nil", func(*Interp, *State) AV { return FuncV{Nil: true} }},
			{par.Name() + "=user", func(*Interp, *State) AV { return FuncV{User: true} }},
		}
	}
	return nil
}

var quadtreeAPI = []string{
	"quadtree.(*Quadtree).Add", "quadtree.(*Quadtree).Remove", "quadtree.(*Quadtree).Find", "quadtree.(*Quadtree).Matching",
	"quadtree.(*Quadtree).KNearest", "quadtree.(*Quadtree).KNearestMatching", "quadtree.(*Quadtree).InBound",
	"quadtree.(*Quadtree).InBoundMatching", "quadtree.(*Quadtree).Bound",
}

func lineClipEntries(c *Ctx) []effectEntry {
	return []effectEntry{{key: "clip.LineString"}, {key: "clip.MultiLineString"}, {key: "clip.MultiPoint"}}
}

// observerEntries: exported functions with an orb.Geometry parameter whose
// results contain no geometry (measures, predicates, encoders, covers), plus
// Clone/Equal.  They are read-only by contract; transformers that return
// geometry (clip 2-d, simplify, project, round, resample, smartclip) are
// documented as in-place and are not observers.  Derived from signatures.
func observerEntries(c *Ctx) []effectEntry {
	var out []effectEntry
	for _, fn := range c.P.shapeEntries(notGenerated, nil) {
		generic := false
		for _, g := range c.P.geomParams(fn) {
			if g.kind == "" {
				generic = true
			}
		}
		if !generic {
			continue
		}
		res := fn.Signature.Results()
		returnsGeom := false
		for i := 0; i < res.Len(); i++ {
			t := res.At(i).Type()
			if c.P.IsGeometry(t) {
				returnsGeom = true
			}
			if k := c.P.KindOf(t); k != "" && k != "Point" && k != "Bound" {
				returnsGeom = true
			}
		}
		key := ShortKey(FuncKey(fn))
		if returnsGeom && key != "orb.Clone" {
			continue
		}
		roles := map[int]paramRole{}
		for i, par := range fn.Params {
			if c.P.IsGeometry(par.Type()) || c.P.KindOf(par.Type()) != "" {
				roles[i] = roleInput
			} else if _, isFunc := par.Type().Underlying().(*types.Signature); isFunc {
				roles[i] = roleUser
			} else if mayPoint(par.Type()) {
				roles[i] = roleOwn
			}
		}
		out = append(out, effectEntry{key: key, roles: roles})
	}
	// 0-d / 1-d clipping is documented as returning new geometry ("MultiPoint returns a new set"; only
	// 1-d/2-d input is scratch space for clip.Geometry): read-only on their argument, see C07
	out = append(out, lineClipEntries(c)...)
	return out
}

// softFloor runs a table rule and keeps "the rule no longer sees its subject" as an unconfirmed note instead of a
// failure: for a clause that another property decides semantically.  A wrong table entry still fails.
func softFloor(rule ruleFunc, prefix string) ruleFunc {
	return func(c *Ctx) {
		before := len(c.R.Obls)
		rule(c)
		for _, o := range c.R.Obls[before:] {
			if o.Verdict == Undecided && o.Construct == "floor" && strings.HasPrefix(o.Rule, prefix) {
				o.Verdict = Unconfirmed
				o.Detail += " [form not recognised by the table reader; not judged here]"
			}
		}
	}
}

// planarObservers: the generic measuring entries of package planar.
func planarObservers(c *Ctx) []effectEntry {
	var out []effectEntry
	for _, e := range observerEntries(c) {
		if strings.HasPrefix(e.key, "planar.") {
			out = append(out, e)
		}
	}
	return out
}

var clipRegionFuncs = []regionFunc{{"clip", "bitCode", false}, {"clip", "bitCodeOpen", true}}

// hostileParams: decoder inputs.  A []byte / string parameter gets every length
// 0..max with attacker-chosen contents; an io.Reader is an arbitrary stream.
func hostileParams(maxBytes, maxStr int) paramOverride {
	return func(p *Program, fn *ssa.Function, par *ssa.Parameter) []argChoice {
		t := par.Type()
		byteSlice := func(n int) func(it *Interp, s *State) AV {
			return func(it *Interp, s *State) AV {
				arr := ArrV{N: n, Elems: make([]AV, n), Def: IntV{}}
				for i := range arr.Elems {
					arr.Elems[i] = IntV{}
				}
				it.inputLen = n
				return SliceV{Arr: it.newCell(s, arr), Hi: n, Cap: n}
			}
		}
		if sl, ok := t.Underlying().(*types.Slice); ok && par.Name() == "buf" && strings.Contains(FuncKey(fn), ".read") {
			if b, ok := sl.Elem().Underlying().(*types.Basic); ok && b.Kind() == types.Uint8 {
				return []argChoice{{"buf=[8]byte", func(it *Interp, s *State) AV { v := byteSlice(8)(it, s); it.inputLen = 0; return v }}}
			}
		}
		if sl, ok := t.Underlying().(*types.Slice); ok {
			if b, ok := sl.Elem().Underlying().(*types.Basic); ok && b.Kind() == types.Uint8 {
				var out []argChoice
				out = append(out, argChoice{par.Name() + "=nil", func(it *Interp, s *State) AV { it.inputLen = 0; return SliceV{Nil: true} }})
				mb := maxBytes
				if strings.Contains(FuncKey(fn), "/mvt.") {
					mb = 3 // the tile decoder looks at the raw bytes only through protoscan (modelled) and the two gzip magic bytes
				}
				for n := 0; n <= mb; n++ {
					out = append(out, argChoice{fmt.Sprintf("%s=[%d]byte", par.Name(), n), byteSlice(n)})
				}
				return out
			}
		}
		if b, ok := t.Underlying().(*types.Basic); ok && b.Info()&types.IsString != 0 {
			var out []argChoice
			for n := 0; n <= maxStr; n++ {
				n := n
				out = append(out, argChoice{fmt.Sprintf("%s=string(len %d)", par.Name(), n), func(it *Interp, s *State) AV {
					it.inputLen = n
					return StrV{LenKnown: true, Len: n}
				}})
			}
			return out
		}
		if t.String() == "io.Reader" {
			return []argChoice{{par.Name() + "=stream", func(it *Interp, s *State) AV { it.inputLen = 0; return IfaceV{} }}}
		}
		if pt, ok := t.Underlying().(*types.Pointer); ok {
			if nt, ok := pt.Elem().(*types.Named); ok && nt.Obj().Name() == "Message" && strings.HasSuffix(nt.Obj().Pkg().Path(), "protoscan") {
				return []argChoice{{par.Name() + "=message", func(it *Interp, s *State) AV { it.inputLen = 0; return it.newScanObj(s, IntV{}) }}}
			}
			if nt, ok := pt.Elem().(*types.Named); ok && nt.Obj().Name() == "decoder" && strings.HasSuffix(nt.Obj().Pkg().Path(), "/mvt") {
				// the tile decoder between features: 0..2 keys and values already collected, iterators from an earlier feature or none
				st := nt.Underlying().(*types.Struct)
				var out []argChoice
				for nk := 0; nk <= 2; nk++ {
					for nv := 0; nv <= 2; nv++ {
						nk, nv := nk, nv
						out = append(out, argChoice{fmt.Sprintf("decoder{keys:%d,values:%d}", nk, nv), func(it *Interp, s *State) AV {
							it.inputLen = 0
							sv := StructV{Fields: make([]AV, st.NumFields())}
							for i := range sv.Fields {
								f := st.Field(i)
								switch f.Name() {
								case "keys", "values":
									n := nk
									el := AV(StrV{})
									if f.Name() == "values" {
										n, el = nv, IfaceV{Top: true}
									}
									arr := ArrV{N: n, Elems: make([]AV, n), Def: el}
									for j := range arr.Elems {
										arr.Elems[j] = el
									}
									sv.Fields[i] = SliceV{Arr: it.newCell(s, arr), Hi: n, Cap: n}
								default:
									sv.Fields[i] = zeroOf(f.Type())
								}
							}
							return PtrV{Cell: it.newCell(s, sv)}
						}})
					}
				}
				return out
			}
			if nt, ok := pt.Elem().(*types.Named); ok && nt.Obj().Name() == "Decoder" {
				// a decoder over an arbitrary stream
				return []argChoice{{par.Name() + "=decoder(stream)", func(it *Interp, s *State) AV {
					it.inputLen = 0
					st := nt.Underlying().(*types.Struct)
					sv := StructV{Fields: make([]AV, st.NumFields())}
					for i := range sv.Fields {
						ft := st.Field(i).Type()
						if ft.String() == "io.Reader" {
							sv.Fields[i] = IfaceV{}
						} else if fpt, ok := ft.Underlying().(*types.Pointer); ok {
							// wrapped decoder (wkb.Decoder{dec: *wkbcommon.Decoder})
							if in, ok := fpt.Elem().Underlying().(*types.Struct); ok {
								inner := StructV{Fields: make([]AV, in.NumFields())}
								for j := range inner.Fields {
									if in.Field(j).Type().String() == "io.Reader" {
										inner.Fields[j] = IfaceV{}
									} else {
										inner.Fields[j] = it.freeValue(s, in.Field(j).Type(), 1)
									}
								}
								sv.Fields[i] = PtrV{Cell: it.newCell(s, inner)}
							} else {
								sv.Fields[i] = it.freeValue(s, ft, 1)
							}
						} else {
							sv.Fields[i] = it.freeValue(s, ft, 1)
						}
					}
					return PtrV{Cell: it.newCell(s, sv)}
				}}}
			}
		}
		return nil
	}
}

var hostileEntries = []string{
	"encoding/wkb.Unmarshal", "encoding/ewkb.Unmarshal", "encoding/internal/wkbcommon.Unmarshal",
	"encoding/internal/wkbcommon.ScanPoint", "encoding/internal/wkbcommon.ScanMultiPoint", "encoding/internal/wkbcommon.ScanLineString",
	"encoding/internal/wkbcommon.ScanMultiLineString", "encoding/internal/wkbcommon.ScanPolygon", "encoding/internal/wkbcommon.ScanMultiPolygon",
	"encoding/internal/wkbcommon.ScanCollection",
	"encoding/internal/wkbcommon.(*Decoder).Decode", "encoding/wkb.(*Decoder).Decode", "encoding/ewkb.(*Decoder).Decode",
	"encoding/mvt.Unmarshal", "encoding/mvt.(*decoder).Feature", "encoding/mvt.(*decoder).Layer", "encoding/mvt.decodeValueMsg",
	// the per-kind stream readers, so that every one is explored whatever the search order of Decode
	"encoding/internal/wkbcommon.readPoint", "encoding/internal/wkbcommon.readMultiPoint", "encoding/internal/wkbcommon.readLineString",
	"encoding/internal/wkbcommon.readMultiLineString", "encoding/internal/wkbcommon.readPolygon", "encoding/internal/wkbcommon.readMultiPolygon",
	"encoding/internal/wkbcommon.readCollection",
	// (Feature / FeatureCollection are not entries: their nested geometries are produced by (*Geometry).UnmarshalJSON
	// through encoding/json, which this model cannot replay; the geometry decoders themselves are entries)
	"geojson.(*Geometry).UnmarshalJSON", "geojson.(*Geometry).UnmarshalBSON",
	"encoding/wkt.Unmarshal", "encoding/wkt.UnmarshalPoint", "encoding/wkt.UnmarshalMultiPoint", "encoding/wkt.UnmarshalLineString",
	"encoding/wkt.UnmarshalMultiLineString", "encoding/wkt.UnmarshalPolygon", "encoding/wkt.UnmarshalMultiPolygon", "encoding/wkt.UnmarshalCollection",
}

// simplifierEntries: the simplify methods read their configuration (the
// receiver) and work on the geometry in place: the receiver is Input (must not be
// written), the geometry is the callee's to modify.
func simplifierEntries(c *Ctx) []effectEntry {
	var out []effectEntry
	for _, fn := range c.P.Funcs() {
		key := ShortKey(FuncKey(fn))
		if !strings.HasPrefix(key, "simplify.(*") || !strings.Contains(key, "Simplifier)") || fn.Parent() != nil || fn.Object() == nil || !fn.Object().Exported() {
			continue
		}
		roles := map[int]paramRole{0: roleInput}
		for i := range fn.Params {
			if i > 0 {
				roles[i] = roleOwn
			}
		}
		out = append(out, effectEntry{key: key, roles: roles})
	}
	return out
}

// marshalEntries: encoders returning bytes/strings; their result must not reference package-level memory.
func marshalEntries(keys ...string) func(c *Ctx) []effectEntry {
	return func(c *Ctx) []effectEntry {
		var out []effectEntry
		for _, k := range keys {
			out = append(out, effectEntry{key: k})
		}
		return out
	}
}

var wkbUnitDecoders = []string{
	"encoding/internal/wkbcommon.readMultiPoint", "encoding/internal/wkbcommon.readLineString", "encoding/internal/wkbcommon.readMultiLineString",
	"encoding/internal/wkbcommon.readPolygon", "encoding/internal/wkbcommon.readMultiPolygon", "encoding/internal/wkbcommon.readCollection",
	"encoding/internal/wkbcommon.unmarshalPoints", "encoding/internal/wkbcommon.unmarshalMultiPoint", "encoding/internal/wkbcommon.unmarshalLineString",
	"encoding/internal/wkbcommon.unmarshalMultiLineString", "encoding/internal/wkbcommon.unmarshalPolygon", "encoding/internal/wkbcommon.unmarshalMultiPolygon",
}

// geojsonEncoders: Marshal methods read the value they encode.
// geojsonDecoders: every Unmarshal* method of package geojson.
func geojsonDecoders(c *Ctx) []effectEntry {
	var out []effectEntry
	for _, fn := range c.P.FuncsIn(orbPath + "/geojson") {
		if fn.Parent() != nil || fn.Signature.Recv() == nil || !strings.HasPrefix(fn.Name(), "Unmarshal") {
			continue
		}
		out = append(out, effectEntry{key: ShortKey(FuncKey(fn)), roles: map[int]paramRole{}})
	}
	sort.Slice(out, func(i, j int) bool { return out[i].key < out[j].key })
	return out
}

func geojsonEncoders(c *Ctx) []effectEntry {
	var out []effectEntry
	for _, fn := range c.P.FuncsIn(orbPath + "/geojson") {
		if fn.Parent() != nil || fn.Signature.Recv() == nil || !strings.HasPrefix(fn.Name(), "Marshal") {
			continue
		}
		out = append(out, effectEntry{key: ShortKey(FuncKey(fn)), roles: map[int]paramRole{0: roleInput}})
	}
	return out
}
