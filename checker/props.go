package main

// Registration of the rule families that decide (clauses of) each property.
// A property is registered only with rules that are silent on the current
// tree (after the recorded fix: commits and known findings) and that fire on
// their mutants (see /verif/mutants and DESIGN.md).

func not(f func(string) bool) func(string) bool { return func(s string) bool { return !f(s) } }

func and(fs ...func(string) bool) func(string) bool {
	return func(s string) bool {
		for _, f := range fs {
			if !f(s) {
				return false
			}
		}
		return true
	}
}

var (
	inWKB      = inPkgs("encoding/internal/wkbcommon.", "encoding/wkb.", "encoding/ewkb.")
	inMVT      = and(inPkgs("encoding/mvt."), not(inPkgs("encoding/mvt/vectortile.")))
	inDecoders = and(inPkgs("encoding/", "geojson."), not(inPkgs("encoding/mvt/vectortile.")))
	notGenerated = not(inPkgs("encoding/mvt/vectortile."))
)

func init() {
	register("DBG", "debug: every rule over the whole module",
		ruleRunOnce(nil, 0), ruleMemberLoops(nil, 0, 0))

	register("C01",
		"Structural necessary conditions of 'WKB/EWKB is lossless': coordinates are only moved and bit-cast on the codec path (no float computation, so every float64 bit pattern survives); every member loop of the writer covers all members. Value-level round-trip equality is NOT decided.",
		ruleFloatPure(inWKB, nil, 70),
		ruleMemberLoops(inWKB, 10, 0),
	)

	register("C03",
		"Structural necessary conditions of 'MVT round-trips and marshals deterministically': no map iteration order can reach the output of Marshal (decided for all inputs and all map orders); every collection member is encoded (run-once loops); member loops cover all features/parts. Zigzag arithmetic and ring regrouping are NOT decided.",
		ruleMapOrder([]string{"encoding/mvt.Marshal", "encoding/mvt.MarshalGzipped"}, []string{"encoding/mvt/vectortile"}, 1),
		ruleRunOnce(inMVT, 30),
		ruleMemberLoops(inMVT, 18, 0),
	)

	register("C05",
		"Structural necessary conditions of 'decoders are total and allocation-bounded': no guard arithmetic on a decoded count can wrap in a narrow unsigned type. (Further clauses are added by the shape interpreter.)",
		ruleNarrowArith(inDecoders, 2),
	)

	register("C20",
		"Structural necessary conditions of 'generic entry points are total': typestate over dynamic kinds at every type switch / assertion on orb.Geometry, sealedness of the interface, no collection loop cut after its first member. Numeric agreement with typed functions is NOT decided.",
		ruleSealed, ruleKinds,
		ruleRunOnce(notGenerated, 200),
	)
}
