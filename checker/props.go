package main

import (
	"strings"

	"golang.org/x/tools/go/ssa"
)

// Registration of the rule families that decide (clauses of) each property.
// A property is registered only with rules that are silent on the current
// tree (after the recorded fix: commits and known findings) and that fire on
// their mutants (see /verif/mutants and DESIGN.md).

func not(f func(string) bool) func(string) bool { return func(s string) bool { return !f(s) } }

func and(fs ...func(string) bool) func(string) bool {
	return func(s string) bool {
		for _, f := range fs {
			if !f(s) {
				return false
			}
		}
		return true
	}
}

var (
	inWKB      = inPkgs("encoding/internal/wkbcommon.", "encoding/wkb.", "encoding/ewkb.")
	inMVT      = and(inPkgs("encoding/mvt."), not(inPkgs("encoding/mvt/vectortile.")))
	inDecoders = and(inPkgs("encoding/", "geojson."), not(inPkgs("encoding/mvt/vectortile.")))
	notGenerated = not(inPkgs("encoding/mvt/vectortile."))
)

func init() {
	register("DBG", "debug: every rule over the whole module",
		ruleShapeFaults(shapeConfig{label: "all", keep: notGenerated}))

	register("C19",
		"Sound may-write analysis of the six read-only quadtree queries: every store reachable from them targets a per-call allocation or the caller's result buffer; no package-level variable is written. Decided for all schedules and all trees, modulo the stated assumptions.",
		ruleNoWrite("quadtree queries", quadtreeQueries, 6, 20),
	)

	register("C06",
		"Structural necessary conditions of 'Clone is deep': points-to freshness of every Clone result at every nesting level and no write to the argument; coordinates are only moved. Equal/Bound numeric laws are NOT decided.",
		ruleFreshResult("clone family", cloneFamily, 8),
		ruleNoWrite("clone family", cloneFamily, 8, 5),
		ruleShapeFaults(shapeConfig{label: "orb core", keep: inPkgs("orb."), floor: 42}),
		ruleMemberLoops(inPkgs("orb."), 17, 0),
	)

	register("C01",
		"Structural necessary conditions of 'WKB/EWKB is lossless': coordinates are only moved and bit-cast on the codec path (no float computation, so every float64 bit pattern survives); every member loop of the writer covers all members. Value-level round-trip equality is NOT decided.",
		ruleFloatPure(inWKB, nil, 70),
		ruleMemberLoops(inWKB, 10, 0),
	)

	register("C03",
		"Structural necessary conditions of 'MVT round-trips and marshals deterministically': no map iteration order can reach the output of Marshal (decided for all inputs and all map orders); every collection member is encoded (run-once loops); member loops cover all features/parts. Zigzag arithmetic and ring regrouping are NOT decided.",
		ruleMapOrder([]string{"encoding/mvt.Marshal", "encoding/mvt.MarshalGzipped"}, []string{"encoding/mvt/vectortile"}, 1),
		ruleRunOnce(inMVT, 30),
		ruleMemberLoops(inMVT, 18, 0),
	)

	register("C05",
		"Structural necessary conditions of 'decoders are total and allocation-bounded': no guard arithmetic on a decoded count can wrap in a narrow unsigned type. (Further clauses are added by the shape interpreter.)",
		ruleNarrowArith(inDecoders, 2),
	)

	register("C10",
		"Structural necessary conditions of 'planar measures equal their exact values': every segment loop visits every consecutive pair and every member loop every member (or reads the skipped prefix elsewhere). Numeric identities are NOT decided.",
		ruleMemberLoops(inPkgs("planar.", "internal/length."), 14, 5),
		ruleShapeFaults(shapeConfig{label: "planar measures", keep: and(inPkgs("planar.", "internal/length."), func(k string) bool { return !strings.Contains(k, "Contains") }), floor: 6}),
		ruleRunOnce(inPkgs("planar.", "internal/length."), 20),
	)

	register("C14",
		"Structural necessary conditions of 'tile covers contain every tile touched': every member of a multi-geometry/collection contributes (no loop cut after its first member, no skipped prefix) and the line walk visits every segment. The DDA, scan fill and merge arithmetic are NOT decided.",
		ruleRunOnce(inPkgs("maptile/tilecover."), 15),
		ruleMemberLoops(inPkgs("maptile/tilecover."), 5, 1),
		ruleShapeFaults(shapeConfig{label: "tilecover", keep: inPkgs("maptile/tilecover."), floor: 8}),
	)

	register("C18",
		"Structural necessary conditions of 'spherical measures sum over parts': member loops of polygon/multi-polygon/collection area and the shared length loops cover every member/segment. Identities on the sphere are NOT decided (thin claim).",
		ruleMemberLoops(inPkgs("geo.", "internal/length."), 6, 2),
		ruleShapeFaults(shapeConfig{label: "geo measures", keep: inPkgs("geo.", "internal/length."), floor: 5}),
		ruleRunOnce(inPkgs("geo.", "internal/length."), 8),
	)

	register("C12",
		"Structural necessary conditions of the simplifier property: no certain fault for any kind x degenerate shape through every exported simplify entry (abstract interpretation); member loops cover every member. Error bound, idempotence, counts are NOT decided.",
		ruleShapeFaults(shapeConfig{label: "simplify", keep: inPkgs("simplify."), floor: 21}),
		ruleMemberLoops(inPkgs("simplify."), 5, 0),
	)

	register("C16",
		"Structural necessary conditions of smart clipping: no certain fault for any 2-d kind x degenerate shape x both orientations (abstract interpretation); member loops. Region equality is NOT decided.",
		ruleShapeFaults(shapeConfig{label: "smartclip", keep: inPkgs("clip/smartclip."), floor: 4}),
		ruleMemberLoops(inPkgs("clip/smartclip."), 10, 0),
	)

	register("C17",
		"Structural necessary conditions of resampling: no certain fault (negative make, index) for nil/empty/1..4-vertex lines x N in {-1,0,1,2,3,free} x free interval (abstract interpretation); the two distance loops visit every segment. Spacing and counts are NOT decided.",
		ruleShapeFaults(shapeConfig{label: "resample", keep: inPkgs("resample."), floor: 2, override: resampleParams}),
		ruleMemberLoops(inPkgs("resample."), 1, 2),
	)

	register("C20",
		"Structural necessary conditions of 'generic entry points are total': typestate over dynamic kinds at every type switch / assertion on orb.Geometry, sealedness of the interface, no collection loop cut after its first member. Numeric agreement with typed functions is NOT decided.",
		ruleSealed, ruleKinds,
		ruleRunOnce(notGenerated, 200),
		ruleShapeFaults(shapeConfig{label: "generic entries", keep: notGenerated, onlyGeneric: true, floor: 41}),
	)
}

func quadtreeQueries(c *Ctx) []effectEntry {
	var out []effectEntry
	for _, m := range []string{"Find", "Matching", "KNearest", "KNearestMatching", "InBound", "InBoundMatching"} {
		fn := c.P.funcByShortKey("quadtree.(*Quadtree)." + m)
		roles := map[int]paramRole{}
		if fn != nil {
			for i, par := range fn.Params {
				if par.Name() == "buf" {
					roles[i] = roleCallerBuf
				}
			}
		}
		out = append(out, effectEntry{key: "quadtree.(*Quadtree)." + m, roles: roles})
	}
	return out
}

// cloneFamily: orb.Clone and every Clone method of a geometry kind.
func cloneFamily(c *Ctx) []effectEntry {
	out := []effectEntry{{key: "orb.Clone"}}
	for _, k := range c.P.Kinds {
		key := "orb.(" + k.Obj().Name() + ").Clone"
		if c.P.funcByShortKey(key) != nil {
			out = append(out, effectEntry{key: key})
		}
	}
	return out
}

// resampleParams: the requested point count is enumerated around its edge cases.
func resampleParams(p *Program, fn *ssa.Function, par *ssa.Parameter) []argChoice {
	if par.Name() == "totalPoints" {
		return intChoices("totalPoints", -1, 0, 1, 2, 3)
	}
	return nil
}
