package main

func init() {
	register("C20",
		"Structural necessary conditions of 'generic entry points are total': typestate over dynamic kinds at every type switch / assertion on orb.Geometry, sealedness of the interface. Numeric agreement with typed functions is NOT decided.",
		ruleSealed, ruleKinds)
}
