package main

import (
	"fmt"
	"strings"
)

// geojson.NewGeometry then (*Geometry).Geometry: the in-memory half of the GeoJSON round trip.  The geometry
// that comes back has the kind, nesting, lengths and the very coordinates of the one that went in, a ring as
// the one-ring polygon, at every nesting level of collections; the Type member is the GeoJSON name of what the
// document holds.  (A Bound goes through ToPolygon, which C06/T-rules read; it is left out here.)
func geojsonMemorySpecs(thorough bool) []composeSpec {
	kinds := []string{"Point", "MultiPoint", "LineString", "MultiLineString", "Ring", "Polygon", "MultiPolygon", "Collection"}
	hasBound := func(h *GeomHyp) bool { return strings.Contains(h.String(), "Bound") }
	// expected content: rings (as interface values) become one-ring polygons
	var expect func(st *State, v AV) string
	expect = func(st *State, v AV) string {
		iv, ok := v.(IfaceV)
		if !ok {
			return contentString(st, v)
		}
		if iv.Nil || iv.Typ == nil {
			return "nil-interface"
		}
		switch kindName(iv.Typ) {
		case "Ring":
			return "Polygon:[" + contentString(st, iv.Val) + "]"
		case "Collection":
			sl, _ := iv.Val.(SliceV)
			var parts []string
			if !sl.Nil {
				for _, e := range membersOf(st, sl) {
					parts = append(parts, expect(st, e))
				}
			}
			return "Collection:[" + strings.Join(parts, " ") + "]"
		}
		return kindName(iv.Typ) + ":" + contentString(st, iv.Val)
	}
	var cases []composeCase
	for _, h := range allHyps(kinds, thorough) {
		h := h
		if h == nil || hasBound(h) || h.Nil {
			continue
		}
		cases = append(cases, composeCase{h.String(), func(it *Interp, s *State) ([]AV, interface{}) {
			g := it.buildIface(s, h)
			return []AV{g}, expect(s, g)
		}})
	}
	steps := []composeStep{func(it *Interp, st *State, cx interface{}) (string, []AV, bool) {
		return "geojson.(*Geometry).Geometry", []AV{st.result[0]}, true
	}}
	norm := func(s string) string {
		// a collection that went in nil comes back empty and non-nil: the same value for the round trip
		return strings.ReplaceAll(s, "Collection:nil", "Collection:[]")
	}
	return []composeSpec{{
		entry: "geojson.NewGeometry", steps: steps, cases: cases,
		desc: "NewGeometry(g).Geometry() has the kind, nesting, lengths and the very coordinates of g, a ring as the one-ring polygon, at every nesting level of collections",
		judge: func(_ *Interp, cx interface{}, st *State) string {
			want := norm(cx.(string))
			if len(st.result) != 1 {
				return "no result"
			}
			got := norm(expectBack(st, st.result[0]))
			if got != want {
				return fmt.Sprintf("what comes back is %s, what went in %s", got, want)
			}
			return ""
		},
	}}
}

// expectBack renders a returned geometry like contentString, descending into collections member by member.
func expectBack(st *State, v AV) string {
	iv, ok := v.(IfaceV)
	if !ok {
		return contentString(st, v)
	}
	if iv.Nil || iv.Typ == nil {
		return "nil-interface"
	}
	if kindName(iv.Typ) == "Collection" {
		sl, _ := iv.Val.(SliceV)
		var parts []string
		if !sl.Nil {
			for _, e := range membersOf(st, sl) {
				parts = append(parts, expectBack(st, e))
			}
		}
		return "Collection:[" + strings.Join(parts, " ") + "]"
	}
	return kindName(iv.Typ) + ":" + contentString(st, iv.Val)
}
