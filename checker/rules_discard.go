package main

// R1 — discarded transformer result.  A function that takes and returns the
// orb.Geometry interface transforms value kinds (Point, Bound) by returning a
// new value: a call whose result is dropped loses the transformation for those
// kinds (slice kinds happen to be updated in place, which is why tests with
// lines and polygons do not notice).

import (
	"fmt"
	"go/types"

	"golang.org/x/tools/go/ssa"
)

func ruleDiscardedResult(keep func(string) bool) ruleFunc {
	return func(c *Ctx) {
		p := c.P
		c.R.Rule("R1: every call of a module function that takes and returns orb.Geometry uses its result (a dropped result loses the transformation for the value kinds Point and Bound)")
		n := 0
		for _, fn := range p.Funcs() {
			key := ShortKey(FuncKey(fn))
			if keep != nil && !keep(key) {
				continue
			}
			ord := 0
			for _, b := range fn.Blocks {
				for _, in := range b.Instrs {
					call, ok := in.(*ssa.Call)
					if !ok {
						continue
					}
					callee := call.Call.StaticCallee()
					if callee == nil || callee.Pkg == nil || p.SSA[callee.Pkg.Pkg.Path()] == nil {
						continue
					}
					res := callee.Signature.Results()
					if res.Len() != 1 || !p.IsGeometry(res.At(0).Type()) {
						continue
					}
					takes := false
					for _, a := range call.Call.Args {
						if p.IsGeometry(a.Type()) {
							takes = true
						}
					}
					if !takes {
						continue
					}
					n++
					cons := fmt.Sprintf("%s#call(%s)#%d", key, ShortKey(FuncKey(callee)), ord)
					ord++
					if refs := call.Referrers(); refs == nil || len(*refs) == 0 {
						c.R.Bad("R1-discarded-result", cons, p.InstrPos(call),
							"the geometry returned by "+ShortKey(FuncKey(callee))+" is dropped: for Point and Bound members the transformed value is lost")
					} else {
						c.R.OK("R1-discarded-result", cons, p.InstrPos(call), "result used")
					}
				}
			}
		}
		floor := 12
		if keep != nil && !keep("orb.Round") {
			floor = 2
		}
		c.R.Floor("R1-discarded-result", n, floor)
	}
}

// ruleDiscardedShortened: R1s.  A simplifier returns its input cut short: the
// kept vertices are compacted to the front and the shortened slice header is
// the result.  A call of such a function (one of the module's functions kept by
// calleeKeep that takes a slice kind and returns the same kind) whose result is
// dropped leaves the caller with the old length: kept vertices followed by a
// stale tail.
func ruleDiscardedShortened(keep, calleeKeep func(string) bool, floor int) ruleFunc {
	return func(c *Ctx) {
		p := c.P
		c.R.Rule("R1s: every call of a shortening function (takes a slice kind, returns the same kind, may return it shorter) uses its result")
		n := 0
		for _, fn := range p.Funcs() {
			key := ShortKey(FuncKey(fn))
			if keep != nil && !keep(key) {
				continue
			}
			ord := 0
			for _, b := range fn.Blocks {
				for _, in := range b.Instrs {
					call, ok := in.(*ssa.Call)
					if !ok {
						continue
					}
					callee := call.Call.StaticCallee()
					if callee == nil || callee.Pkg == nil || p.SSA[callee.Pkg.Pkg.Path()] == nil || !calleeKeep(ShortKey(FuncKey(callee))) {
						continue
					}
					res := callee.Signature.Results()
					if res.Len() < 1 || p.KindOf(res.At(0).Type()) == "" {
						continue
					}
					if _, isSlice := res.At(0).Type().Underlying().(*types.Slice); !isSlice {
						continue
					}
					takes := false
					for _, a := range call.Call.Args {
						if types.Identical(a.Type(), res.At(0).Type()) {
							takes = true
						}
					}
					if !takes {
						continue
					}
					n++
					cons := fmt.Sprintf("%s#call(%s)#%d", key, ShortKey(FuncKey(callee)), ord)
					ord++
					used := false
					if refs := call.Referrers(); refs != nil {
						for _, r := range *refs {
							if ex, ok := r.(*ssa.Extract); ok {
								if ex.Index == 0 && ex.Referrers() != nil && len(*ex.Referrers()) > 0 {
									used = true
								}
								continue
							}
							used = true
						}
					}
					if !used {
						c.R.Bad("R1s-discarded-shortened", cons, p.InstrPos(call),
							"the slice returned by "+ShortKey(FuncKey(callee))+" is dropped: the caller keeps the old length (kept vertices followed by a stale tail)")
					} else {
						c.R.OK("R1s-discarded-shortened", cons, p.InstrPos(call), "result used")
					}
				}
			}
		}
		c.R.Floor("R1s-discarded-shortened", n, floor)
	}
}
