package main

// H5 — orb.Geometry is a sealed interface: it has an unexported method, so no
// package outside orb can add a tenth kind, and the kinds found by go/types are
// exactly the ones every type switch is checked against.  A compile-fail
// witness (a package declaring an outside implementer) is type-checked against
// the current tree and must be rejected.

import (
	"fmt"
	"go/ast"
	"go/importer"
	"go/parser"
	"go/token"
	"go/types"
	"strings"
)

const witnessSrc = `package witness

import "github.com/paulmach/orb"

// Tenth tries to be a geometry kind declared outside package orb.
type Tenth struct{}

func (Tenth) GeoJSONType() string { return "Tenth" }
func (Tenth) Dimensions() int     { return 0 }
func (Tenth) Bound() orb.Bound    { return orb.Bound{} }
func (Tenth) private()            {}

var _ orb.Geometry = Tenth{}
`

type mapImporter struct {
	m    map[string]*types.Package
	next types.Importer
}

func (m mapImporter) Import(path string) (*types.Package, error) {
	if p, ok := m.m[path]; ok {
		return p, nil
	}
	return m.next.Import(path)
}

func ruleSealed(c *Ctx) {
	p := c.P
	c.R.Rule("H5: orb.Geometry has an unexported method (sealed); its implementers are enumerated from go/types; a witness package declaring an outside implementer must fail to type-check")
	unexported := ""
	for i := 0; i < p.GeometryI.NumMethods(); i++ {
		m := p.GeometryI.Method(i)
		if !m.Exported() {
			unexported = m.Name()
		}
	}
	if unexported == "" {
		c.R.Bad("H5-sealed", "orb.Geometry", p.Pos(p.Geometry.Obj().Pos()), "orb.Geometry has no unexported method: packages outside orb can add kinds that no type switch handles")
	} else {
		c.R.OK("H5-sealed", "orb.Geometry", p.Pos(p.Geometry.Obj().Pos()), "sealed by unexported method "+unexported+"()")
	}
	var names []string
	for _, k := range p.Kinds {
		names = append(names, k.Obj().Name())
		if k.Obj().Pkg().Path() != orbPath {
			c.R.Bad("H5-sealed", "kind:"+k.Obj().Name(), p.Pos(k.Obj().Pos()), "geometry kind declared outside package orb")
		}
	}
	c.R.Note("kinds", names...)
	c.R.Floor("H5-kinds", len(p.Kinds), 9)

	// compile-fail witness
	fset := token.NewFileSet()
	f, err := parser.ParseFile(fset, "witness.go", witnessSrc, 0)
	if err != nil {
		c.R.Unknown("H5-witness", "witness", "", "witness does not parse: "+err.Error())
		return
	}
	var terrs []string
	conf := types.Config{
		Importer: mapImporter{m: map[string]*types.Package{orbPath: p.Pkgs[orbPath].Types}, next: importer.Default()},
		Error:    func(err error) { terrs = append(terrs, err.Error()) },
	}
	conf.Check("witness", fset, []*ast.File{f}, nil)
	ok := false
	for _, e := range terrs {
		if strings.Contains(e, "private") || strings.Contains(e, "does not implement") {
			ok = true
		}
	}
	if ok {
		c.R.OK("H5-witness", "witness", "", fmt.Sprintf("outside implementer rejected by the type checker: %s", strings.Join(terrs, "; ")))
	} else {
		c.R.Bad("H5-witness", "witness", "", fmt.Sprintf("a package outside orb can implement orb.Geometry (type errors: %v)", terrs))
	}
}
