package main

// T6 — protobuf field tables of the hand-written MVT decoder.  For every
// `switch msg.FieldNumber()` the vectortile message whose struct tags it matches
// best is inferred; every case number must exist in that message and the
// protoscan accessor called in that arm must be compatible with the tag's wire
// type and Go type (String<->bytes string, Float<->fixed32, Double<->fixed64,
// Uint32/Uint64/Int32/Int64/Bool<->varint of that width and sign,
// Sint64<->zigzag64, Message/MessageData<->bytes message, Iterator<->packed).

import (
	"fmt"
	"go/ast"
	"go/types"
	"reflect"
	"sort"
	"strconv"
	"strings"

	"golang.org/x/tools/go/packages"
)

type protoField struct {
	num    int64
	wire   string // varint, bytes, fixed32, fixed64, zigzag64, zigzag32
	packed bool
	goType string
	name   string
}

func protoFields(st *types.Struct) map[int64]protoField {
	out := map[int64]protoField{}
	for i := 0; i < st.NumFields(); i++ {
		tag := reflect.StructTag(st.Tag(i)).Get("protobuf")
		if tag == "" {
			continue
		}
		parts := strings.Split(tag, ",")
		if len(parts) < 2 {
			continue
		}
		n, err := strconv.ParseInt(parts[1], 10, 64)
		if err != nil {
			continue
		}
		pf := protoField{num: n, wire: parts[0], goType: st.Field(i).Type().String(), name: st.Field(i).Name()}
		for _, p := range parts[2:] {
			if p == "packed" {
				pf.packed = true
			}
		}
		out[n] = pf
	}
	return out
}

// accessors compatible with a field
func protoAccessors(f protoField) []string {
	base := strings.TrimPrefix(strings.TrimPrefix(f.goType, "[]"), "*")
	switch {
	case f.packed:
		return []string{"Iterator"}
	case f.wire == "bytes" && base == "string":
		return []string{"String"}
	case f.wire == "bytes" && base == "byte":
		return []string{"Bytes", "MessageData"}
	case f.wire == "bytes":
		return []string{"Message", "MessageData"}
	case f.wire == "fixed32" && base == "float32":
		return []string{"Float"}
	case f.wire == "fixed64" && base == "float64":
		return []string{"Double"}
	case f.wire == "zigzag64":
		return []string{"Sint64"}
	case f.wire == "zigzag32":
		return []string{"Sint32"}
	case f.wire == "varint":
		switch {
		case base == "uint32":
			return []string{"Uint32"}
		case base == "uint64":
			return []string{"Uint64"}
		case base == "int64":
			return []string{"Int64"}
		case base == "int32":
			return []string{"Int32"}
		case base == "bool":
			return []string{"Bool"}
		case strings.Contains(base, "Tile_GeomType"):
			return []string{"Int32", "Uint32"} // enum
		}
	}
	return nil
}

func ruleProtoTables(c *Ctx) {
	p := c.P
	c.R.Rule("T6: every switch over msg.FieldNumber() in the hand-written MVT decoder is matched to a vectortile message by its struct tags; every case number exists there and the protoscan accessor used in that arm fits the field's wire type and Go type")
	pk := p.Pkgs[orbPath+"/encoding/mvt"]
	vt := p.Pkgs[orbPath+"/encoding/mvt/vectortile"]
	if pk == nil || vt == nil {
		c.R.Unknown("T6-proto-fields", "encoding/mvt", "", "packages not found")
		return
	}
	msgs := map[string]map[int64]protoField{}
	for _, n := range vt.Types.Scope().Names() {
		if tn, ok := vt.Types.Scope().Lookup(n).(*types.TypeName); ok {
			if st, ok := tn.Type().Underlying().(*types.Struct); ok {
				if f := protoFields(st); len(f) > 0 {
					msgs[n] = f
				}
			}
		}
	}
	nsw := 0
	p.eachFuncDecl(func(pkg *packages.Package, fd *ast.FuncDecl) {
		if pkg != pk {
			return
		}
		key := ShortKey(funcDeclKey(pkg, fd))
		ast.Inspect(fd.Body, func(n ast.Node) bool {
			sw, ok := n.(*ast.SwitchStmt)
			if !ok || sw.Tag == nil {
				return true
			}
			call, ok := ast.Unparen(sw.Tag).(*ast.CallExpr)
			if !ok {
				return true
			}
			se, ok := call.Fun.(*ast.SelectorExpr)
			if !ok || se.Sel.Name != "FieldNumber" {
				return true
			}
			nsw++
			// arms: number -> accessor names used on the same receiver
			type arm struct {
				num int64
				acc []string
				pos ast.Node
			}
			var arms []arm
			for _, cl := range sw.Body.List {
				cc := cl.(*ast.CaseClause)
				for _, ce := range cc.List {
					num, ok := constInt(pkg, ce)
					if !ok {
						continue
					}
					a := arm{num: num, pos: cc}
					for _, st := range cc.Body {
						ast.Inspect(st, func(m ast.Node) bool {
							if c2, ok := m.(*ast.CallExpr); ok {
								if s2, ok := c2.Fun.(*ast.SelectorExpr); ok && exprKey(s2.X) == exprKey(se.X) {
									switch s2.Sel.Name {
									case "Skip", "Err", "Next", "FieldNumber", "Reset":
									default:
										a.acc = append(a.acc, s2.Sel.Name)
									}
								}
							}
							return true
						})
					}
					arms = append(arms, a)
				}
			}
			// best-matching message: most case numbers present, then accessor fits
			best, bestScore := "", -1
			var names []string
			for n := range msgs {
				names = append(names, n)
			}
			sort.Strings(names)
			for _, n := range names {
				score := 0
				for _, a := range arms {
					if f, ok := msgs[n][a.num]; ok {
						score += 2
						for _, acc := range a.acc {
							for _, okAcc := range protoAccessors(f) {
								if acc == okAcc {
									score++
								}
							}
						}
					}
				}
				if score > bestScore {
					best, bestScore = n, score
				}
			}
			for _, a := range arms {
				cons := fmt.Sprintf("%s#%s.field%d", key, best, a.num)
				f, ok := msgs[best][a.num]
				if !ok {
					c.R.Bad("T6-proto-fields", cons, p.Pos(a.pos.Pos()), fmt.Sprintf("case %d: message %s has no field %d", a.num, best, a.num))
					continue
				}
				want := protoAccessors(f)
				fits := len(a.acc) == 0
				for _, acc := range a.acc {
					for _, w := range want {
						if acc == w {
							fits = true
						}
					}
				}
				if fits {
					c.R.OK("T6-proto-fields", cons, p.Pos(a.pos.Pos()), fmt.Sprintf("%s.%s (%s %s) read with %v", best, f.name, f.wire, f.goType, a.acc))
				} else {
					c.R.Bad("T6-proto-fields", cons, p.Pos(a.pos.Pos()), fmt.Sprintf("field %d of %s is %s (%s, wire type %s) and must be read with %v, but the decoder uses %v: values are decoded with the wrong width or sign", a.num, best, f.name, f.goType, f.wire, want, a.acc))
				}
			}
			return true
		})
	})
	c.R.Floor("T6-proto-switches", nsw, 4)
}
