package main

// A-comp specs for the tile arithmetic (C13).  A tile's X and Y are unknown
// z-bit numbers: each carries the linear reading "s" (0 <= s < 2^z) and the bit
// reading [s_{z-1} .. s_0] (interp_bits.go).  The integer methods of
// maptile.Tile are then run for every zoom and the results compared with the
// quadtree identities, stated on bits / linear forms, for all X and Y at once.

import (
	"fmt"

	"golang.org/x/tools/go/ssa"
)

type tileCtx struct {
	z      int
	sx, sy int // symbols of the unknown parts
	aux    []int
	o, m   int
	note   string
}

// symUint: an unknown n-bit number with both readings.
func symUint(it *Interp, s *State, n int) (IntV, int) {
	hi := int64(1)<<uint(n) - 1
	if n == 0 {
		return intOf(0), 0
	}
	v := it.freshSym(s, 0, hi, false)
	v.Bits = bitsLits(v.Sym, n)
	return v, v.Sym
}

func tileOf(x, y AV, z int) StructV {
	return StructV{Fields: []AV{x, y, intOf(int64(z))}}
}

// concatBits: low ++ high, low occupying the n low bits.
func concatBits(low *bitVec, n int, high *bitVec) *bitVec {
	var r bitVec
	for i := 0; i < 64; i++ {
		switch {
		case i < n:
			if low != nil {
				r.B[i] = low.B[i]
			}
		case high != nil:
			r.B[i] = high.B[i-n]
		}
	}
	return &r
}

func withBits(it *Interp, s *State, b *bitVec, width int) IntV {
	if v, ok := b.constVal(); ok {
		return intOf(int64(v))
	}
	hi := int64(1)<<uint(width) - 1
	v := it.freshSym(s, 0, hi, false)
	v.Bits = b
	return v
}

func tileFields(v AV) (x, y, z IntV, ok bool) {
	st, isS := v.(StructV)
	if !isS || len(st.Fields) != 3 {
		return
	}
	x, ok1 := st.Fields[0].(IntV)
	y, ok2 := st.Fields[1].(IntV)
	z, ok3 := st.Fields[2].(IntV)
	return x, y, z, ok1 && ok2 && ok3
}

func wantBits(name string, got IntV, want *bitVec) string {
	gb := bitsOfInt(got)
	if gb == nil {
		return fmt.Sprintf("%s is not determined bit by bit", name)
	}
	if *gb != *want {
		return fmt.Sprintf("%s has bits %s, want %s (<s.i> = bit i of unknown s)", name, gb, want)
	}
	return ""
}

func wantLinear(name string, got IntV, sym int, a, b int64) string {
	if sym == 0 {
		if got.Known && got.V == b {
			return ""
		}
		return fmt.Sprintf("%s is not the constant %d", name, b)
	}
	if got.Known || got.Sym != sym || got.A != a || got.B != b {
		return fmt.Sprintf("%s is not %d*s+%d of the tile's coordinate s", name, a, b)
	}
	return ""
}

func wantZoom(got IntV, z int) string {
	if !got.Known || got.V != int64(z) {
		return fmt.Sprintf("the zoom is not %d", z)
	}
	return ""
}

func tileZooms(thorough bool) []int {
	if thorough {
		zs := make([]int, 31)
		for i := range zs {
			zs[i] = i
		}
		return zs
	}
	return []int{0, 1, 2, 3, 7, 16, 30}
}

func tileSpecs(thorough bool) []composeSpec {
	zs := tileZooms(thorough)
	mkTile := func(it *Interp, s *State, z int) (StructV, *tileCtx) {
		x, sx := symUint(it, s, z)
		y, sy := symUint(it, s, z)
		return tileOf(x, y, z), &tileCtx{z: z, sx: sx, sy: sy}
	}
	lits := func(sym, n int) *bitVec {
		if sym == 0 {
			return bitsConst(0)
		}
		return bitsLits(sym, n)
	}

	var specs []composeSpec

	// --- Quadkey / FromQuadkey -------------------------------------------
	var qk, fq []composeCase
	for _, z := range zs {
		z := z
		qk = append(qk, composeCase{fmt.Sprintf("zoom %d", z), func(it *Interp, s *State) ([]AV, interface{}) {
			t, ctx := mkTile(it, s, z)
			return []AV{t}, ctx
		}})
		fq = append(fq, composeCase{fmt.Sprintf("zoom %d", z), func(it *Interp, s *State) ([]AV, interface{}) {
			k, sk := symUint(it, s, 2*z)
			return []AV{k, intOf(int64(z))}, &tileCtx{z: z, sx: sk}
		}})
	}
	specs = append(specs, composeSpec{
		entry: "maptile.(Tile).Quadkey",
		desc:  "bit 2i of the key is bit i of X and bit 2i+1 is bit i of Y, for i < zoom; all other bits are zero",
		cases: qk,
		judge: func(_ *Interp, cx interface{}, st *State) string {
			ctx := cx.(*tileCtx)
			var want bitVec
			for i := 0; i < ctx.z; i++ {
				want.B[2*i] = bitSrc{K: bLit, Sym: int32(ctx.sx), Idx: uint8(i)}
				want.B[2*i+1] = bitSrc{K: bLit, Sym: int32(ctx.sy), Idx: uint8(i)}
			}
			k, _ := st.result[0].(IntV)
			return wantBits("the quadkey", k, &want)
		},
	}, composeSpec{
		entry: "maptile.FromQuadkey",
		desc:  "bit i of X is bit 2i of the key and bit i of Y is bit 2i+1, for i < zoom (the inverse of Quadkey); the zoom is kept",
		cases: fq,
		judge: func(_ *Interp, cx interface{}, st *State) string {
			ctx := cx.(*tileCtx)
			x, y, z, ok := tileFields(st.result[0])
			if !ok {
				return "the result is not a tile"
			}
			var wx, wy bitVec
			for i := 0; i < ctx.z; i++ {
				wx.B[i] = bitSrc{K: bLit, Sym: int32(ctx.sx), Idx: uint8(2 * i)}
				wy.B[i] = bitSrc{K: bLit, Sym: int32(ctx.sx), Idx: uint8(2*i + 1)}
			}
			if why := wantBits("X", x, &wx); why != "" {
				return why
			}
			if why := wantBits("Y", y, &wy); why != "" {
				return why
			}
			return wantZoom(z, ctx.z)
		},
	})

	// --- Children / Siblings / Parent -----------------------------------
	childrenJudge := func(parentBits func(ctx *tileCtx) (*bitVec, *bitVec, int)) func(_ *Interp, cx interface{}, st *State) string {
		return func(_ *Interp, cx interface{}, st *State) string {
			ctx := cx.(*tileCtx)
			px, py, pz := parentBits(ctx)
			res, ok := st.result[0].(SliceV)
			if !ok || res.Nil || res.Hi-res.Lo != 4 {
				return "four tiles are expected"
			}
			arr, _ := st.heap[res.Arr].(ArrV)
			seen := map[[2]uint8]bool{}
			for i, e := range arr.Elems[res.Lo:res.Hi] {
				x, y, z, ok := tileFields(e)
				if !ok {
					return "the result does not hold tiles"
				}
				if why := wantZoom(z, pz+1); why != "" {
					return fmt.Sprintf("child %d: %s", i, why)
				}
				xb, yb := bitsOfInt(x), bitsOfInt(y)
				if xb == nil || yb == nil || xb.B[0].K > bOne || yb.B[0].K > bOne {
					return fmt.Sprintf("child %d: the low bits of X and Y are not constants", i)
				}
				dx, dy := xb.B[0].K, yb.B[0].K
				if why := wantBits(fmt.Sprintf("child %d: X", i), x, concatBits(bitsConst(uint64(dx)), 1, px)); why != "" {
					return why
				}
				if why := wantBits(fmt.Sprintf("child %d: Y", i), y, concatBits(bitsConst(uint64(dy)), 1, py)); why != "" {
					return why
				}
				if seen[[2]uint8{dx, dy}] {
					return fmt.Sprintf("child %d repeats the quadrant (%d,%d): the four children are not distinct", i, dx, dy)
				}
				seen[[2]uint8{dx, dy}] = true
			}
			return ""
		}
	}
	var ch, sib, par []composeCase
	for _, z := range zs {
		z := z
		if z <= 29 {
			ch = append(ch, composeCase{fmt.Sprintf("zoom %d", z), func(it *Interp, s *State) ([]AV, interface{}) {
				t, ctx := mkTile(it, s, z)
				return []AV{t}, ctx
			}})
		}
		if z >= 1 {
			mk := func(it *Interp, s *State) ([]AV, interface{}) {
				_, ctx := mkTile(it, s, z-1) // the parent's unknowns
				cx, sa := symUint(it, s, 1)
				cy, sb := symUint(it, s, 1)
				ctx.aux = []int{sa, sb}
				ctx.z = z
				x := withBits(it, s, concatBits(cx.Bits, 1, lits(ctx.sx, z-1)), z)
				y := withBits(it, s, concatBits(cy.Bits, 1, lits(ctx.sy, z-1)), z)
				return []AV{tileOf(x, y, z)}, ctx
			}
			sib = append(sib, composeCase{fmt.Sprintf("zoom %d", z), mk})
			par = append(par, composeCase{fmt.Sprintf("zoom %d", z), mk})
		} else {
			par = append(par, composeCase{"zoom 0", func(it *Interp, s *State) ([]AV, interface{}) {
				t, ctx := mkTile(it, s, 0)
				return []AV{t}, ctx
			}})
		}
	}
	specs = append(specs,
		composeSpec{entry: "maptile.(Tile).Children", cases: ch,
			desc:  "four tiles one zoom deeper whose X and Y are 2X+dx, 2Y+dy with (dx,dy) ranging over the four quadrants, each once",
			judge: childrenJudge(func(c *tileCtx) (*bitVec, *bitVec, int) { return lits(c.sx, c.z), lits(c.sy, c.z), c.z }),
		},
		composeSpec{entry: "maptile.(Tile).Siblings", cases: sib,
			desc:  "the four children of the tile's parent",
			judge: childrenJudge(func(c *tileCtx) (*bitVec, *bitVec, int) { return lits(c.sx, c.z-1), lits(c.sy, c.z-1), c.z - 1 }),
		},
		composeSpec{entry: "maptile.(Tile).Parent", cases: par,
			desc: "X and Y lose their low bit and the zoom drops by one; the zoom-0 tile is its own parent",
			judge: func(_ *Interp, cx interface{}, st *State) string {
				ctx := cx.(*tileCtx)
				x, y, z, ok := tileFields(st.result[0])
				if !ok {
					return "the result is not a tile"
				}
				pz := ctx.z - 1
				if ctx.z == 0 {
					pz = 0
				}
				if why := wantBits("X", x, lits(ctx.sx, pz)); why != "" {
					return why
				}
				if why := wantBits("Y", y, lits(ctx.sy, pz)); why != "" {
					return why
				}
				return wantZoom(z, pz)
			},
		})

	// --- Valid ----------------------------------------------------------
	var valid []composeCase
	for _, z := range zs {
		z := z
		valid = append(valid, composeCase{fmt.Sprintf("zoom %d, X and Y below 2^zoom", z), func(it *Interp, s *State) ([]AV, interface{}) {
			t, ctx := mkTile(it, s, z)
			ctx.note = "valid"
			return []AV{t}, ctx
		}})
		for axis := 0; axis < 2; axis++ {
			axis := axis
			valid = append(valid, composeCase{fmt.Sprintf("zoom %d, coordinate %d at or above 2^zoom", z, axis), func(it *Interp, s *State) ([]AV, interface{}) {
				t, ctx := mkTile(it, s, z)
				ctx.note = "invalid"
				// 2^z + s with 0 <= s < 2^z (for z = 0: exactly 1)
				v := t.Fields[axis].(IntV)
				if v.Known {
					t.Fields[axis] = intOf(1)
				} else {
					t.Fields[axis] = IntV{Sym: v.Sym, A: 1, B: int64(1) << uint(z)}
				}
				return []AV{t}, ctx
			}})
		}
	}
	specs = append(specs, composeSpec{entry: "maptile.(Tile).Valid", cases: valid,
		desc: "true exactly when X < 2^zoom and Y < 2^zoom",
		judge: func(_ *Interp, cx interface{}, st *State) string {
			ctx := cx.(*tileCtx)
			b, ok := exactBool(st.result[0])
			if !ok {
				return "the answer is not decided by the ranges of X and Y"
			}
			if b != (ctx.note == "valid") {
				return fmt.Sprintf("a tile that is %s is reported %v", ctx.note, b)
			}
			return ""
		}})

	// --- Contains (ancestor relation) -----------------------------------
	var cont []composeCase
	for _, z := range zs {
		for _, o := range []int{0, 1, 3} {
			if z+o > 30 {
				continue
			}
			z, o := z, o
			mkDesc := func(flipAxis, flipBit int) func(it *Interp, s *State) ([]AV, interface{}) {
				return func(it *Interp, s *State) ([]AV, interface{}) {
					t, ctx := mkTile(it, s, z)
					lx, _ := symUint(it, s, o)
					ly, _ := symUint(it, s, o)
					hx, hy := lits(ctx.sx, z), lits(ctx.sy, z)
					if flipAxis == 0 {
						c := *hx
						c.B[flipBit] = notBit(c.B[flipBit])
						hx = &c
					} else if flipAxis == 1 {
						c := *hy
						c.B[flipBit] = notBit(c.B[flipBit])
						hy = &c
					}
					ctx.note = "inside"
					if flipAxis >= 0 {
						ctx.note = "outside"
					}
					x := withBits(it, s, concatBits(bitsOfInt(lx), o, hx), z+o)
					y := withBits(it, s, concatBits(bitsOfInt(ly), o, hy), z+o)
					return []AV{t, tileOf(x, y, z+o)}, ctx
				}
			}
			cont = append(cont, composeCase{fmt.Sprintf("zoom %d, a descendant %d levels down", z, o), mkDesc(-1, 0)})
			if z >= 1 {
				cont = append(cont, composeCase{fmt.Sprintf("zoom %d, %d levels down under a different X prefix", z, o), mkDesc(0, z-1)},
					composeCase{fmt.Sprintf("zoom %d, %d levels down under a different Y prefix", z, o), mkDesc(1, 0)})
			}
		}
		if z >= 1 {
			z := z
			cont = append(cont, composeCase{fmt.Sprintf("zoom %d, its own parent", z), func(it *Interp, s *State) ([]AV, interface{}) {
				t, ctx := mkTile(it, s, z)
				ctx.note = "outside"
				x := withBits(it, s, (&bitVec{}).orShift(lits(ctx.sx, z), 1), z-1)
				y := withBits(it, s, (&bitVec{}).orShift(lits(ctx.sy, z), 1), z-1)
				return []AV{t, tileOf(x, y, z-1)}, ctx
			}})
		}
	}
	specs = append(specs, composeSpec{entry: "maptile.(Tile).Contains", cases: cont,
		desc: "true exactly for the tile itself and its descendants (the tile's X and Y are the other's X and Y without their extra low bits); false for a shallower tile",
		judge: func(_ *Interp, cx interface{}, st *State) string {
			ctx := cx.(*tileCtx)
			b, ok := exactBool(st.result[0])
			if !ok {
				return "the answer is not decided bit by bit"
			}
			if b != (ctx.note == "inside") {
				return fmt.Sprintf("a tile that lies %s is reported %v", ctx.note, b)
			}
			return ""
		}})

	// --- SharedParent ----------------------------------------------------
	var sp []composeCase
	for _, z := range zs {
		if z == 0 {
			continue
		}
		ms := []int{0, z - 1}
		if z > 2 {
			ms = append(ms, z/2)
		}
		for _, m := range ms {
			for variant := 0; variant < 3; variant++ { // 0: X differs at m, 1: Y differs at m, 2: X at m and Y below
				for swap := 0; swap < 2; swap++ {
					z, m, variant, swap := z, m, variant, swap
					if variant == 2 && m == 0 {
						continue
					}
					sp = append(sp, composeCase{fmt.Sprintf("zoom %d, first difference at level %d (variant %d, order %d)", z, m, variant, swap), func(it *Interp, s *State) ([]AV, interface{}) {
						// common prefix a (z-m-1 bits), then the differing bit, then independent low parts
						ax, sax := symUint(it, s, z-m-1)
						ay, say := symUint(it, s, z-m-1)
						ctx := &tileCtx{z: z, m: m, sx: sax, sy: say}
						low := func() *bitVec { v, _ := symUint(it, s, m); return bitsOfInt(v) }
						mk := func(prefix *bitVec, bit uint8, lowPart *bitVec) IntV {
							mid := concatBits(lowPart, m, bitsConst(uint64(bit)))
							return withBits(it, s, concatBits(mid, m+1, prefix), z)
						}
						var x1, x2, y1, y2 IntV
						switch variant {
						case 0:
							x1, x2 = mk(bitsOfInt(ax), 0, low()), mk(bitsOfInt(ax), 1, low())
							sharedLow := low()
							sharedBit, _ := symUint(it, s, 1)
							mid := concatBits(sharedLow, m, bitsOfInt(sharedBit))
							y1 = withBits(it, s, concatBits(mid, m+1, bitsOfInt(ay)), z)
							y2 = y1
						case 1:
							y1, y2 = mk(bitsOfInt(ay), 1, low()), mk(bitsOfInt(ay), 0, low())
							sharedLow := low()
							sharedBit, _ := symUint(it, s, 1)
							mid := concatBits(sharedLow, m, bitsOfInt(sharedBit))
							x1 = withBits(it, s, concatBits(mid, m+1, bitsOfInt(ax)), z)
							x2 = x1
						default:
							x1, x2 = mk(bitsOfInt(ax), 1, low()), mk(bitsOfInt(ax), 0, low())
							// Y: same down to level m (a shared bit there), differing at level m-1
							sharedBit, _ := symUint(it, s, 1)
							yl := func(bit uint8) IntV {
								v, _ := symUint(it, s, m-1)
								lowm := concatBits(bitsOfInt(v), m-1, bitsConst(uint64(bit)))
								mid := concatBits(lowm, m, bitsOfInt(sharedBit))
								return withBits(it, s, concatBits(mid, m+1, bitsOfInt(ay)), z)
							}
							y1, y2 = yl(0), yl(1)
						}
						t1, t2 := tileOf(x1, y1, z), tileOf(x2, y2, z)
						if swap == 1 {
							t1, t2 = t2, t1
						}
						return []AV{t1, t2}, ctx
					}})
				}
			}
		}
	}
	specs = append(specs, composeSpec{entry: "maptile.(Tile).SharedParent", cases: sp,
		desc: "the deepest common ancestor: the common high bits of X and of Y above the first level at which the two tiles differ, at the zoom of that level",
		judge: func(_ *Interp, cx interface{}, st *State) string {
			ctx := cx.(*tileCtx)
			x, y, z, ok := tileFields(st.result[0])
			if !ok {
				return "the result is not a tile"
			}
			pz := ctx.z - ctx.m - 1
			if why := wantBits("X", x, lits(ctx.sx, pz)); why != "" {
				return why
			}
			if why := wantBits("Y", y, lits(ctx.sy, pz)); why != "" {
				return why
			}
			return wantZoom(z, pz)
		}})

	// --- Range -------------------------------------------------------------
	var rg []composeCase
	for _, z := range zs {
		for _, o := range []int{0, 1, 4} {
			if z+o > 30 {
				continue
			}
			z, o := z, o
			rg = append(rg, composeCase{fmt.Sprintf("zoom %d to %d", z, z+o), func(it *Interp, s *State) ([]AV, interface{}) {
				t, ctx := mkTile(it, s, z)
				ctx.o = o
				return []AV{t, intOf(int64(z + o))}, ctx
			}})
		}
		if z >= 2 {
			z := z
			rg = append(rg, composeCase{fmt.Sprintf("zoom %d to %d", z, z-2), func(it *Interp, s *State) ([]AV, interface{}) {
				t, ctx := mkTile(it, s, z)
				ctx.o = -2
				return []AV{t, intOf(int64(z - 2))}, ctx
			}})
		}
	}
	specs = append(specs, composeSpec{entry: "maptile.(Tile).Range", cases: rg,
		desc: "at a deeper zoom z+o: min = (X*2^o, Y*2^o), max = (X*2^o + 2^o - 1, Y*2^o + 2^o - 1), exactly the descendants; at a shallower zoom both are the ancestor",
		judge: func(_ *Interp, cx interface{}, st *State) string {
			ctx := cx.(*tileCtx)
			x1, y1, z1, ok1 := tileFields(st.result[0])
			x2, y2, z2, ok2 := tileFields(st.result[1])
			if !ok1 || !ok2 {
				return "two tiles are expected"
			}
			if ctx.o < 0 {
				up := -ctx.o
				wx := (&bitVec{}).orShift(lits(ctx.sx, ctx.z), up)
				wy := (&bitVec{}).orShift(lits(ctx.sy, ctx.z), up)
				for _, c := range []struct {
					n string
					v IntV
					w *bitVec
				}{{"min.X", x1, wx}, {"min.Y", y1, wy}, {"max.X", x2, wx}, {"max.Y", y2, wy}} {
					if why := wantBits(c.n, c.v, c.w); why != "" {
						return why
					}
				}
				if why := wantZoom(z1, ctx.z-up); why != "" {
					return why
				}
				return wantZoom(z2, ctx.z-up)
			}
			p := int64(1) << uint(ctx.o)
			for _, c := range []struct {
				n    string
				v    IntV
				sym  int
				a, b int64
			}{{"min.X", x1, ctx.sx, p, 0}, {"min.Y", y1, ctx.sy, p, 0}, {"max.X", x2, ctx.sx, p, p - 1}, {"max.Y", y2, ctx.sy, p, p - 1}} {
				if why := wantLinear(c.n, c.v, c.sym, c.a, c.b); why != "" {
					return why
				}
			}
			if why := wantZoom(z1, ctx.z+ctx.o); why != "" {
				return why
			}
			return wantZoom(z2, ctx.z+ctx.o)
		}})

	// --- ChildrenInZoomRange ----------------------------------------------
	var cz []composeCase
	for _, z := range zs {
		if z > 27 {
			continue
		}
		for _, r := range [][2]int{{0, 0}, {0, 1}, {1, 2}} {
			z, r := z, r
			cz = append(cz, composeCase{fmt.Sprintf("zoom %d, levels +%d..+%d", z, r[0], r[1]), func(it *Interp, s *State) ([]AV, interface{}) {
				t, ctx := mkTile(it, s, z)
				ctx.o, ctx.m = r[0], r[1]
				return []AV{t, intOf(int64(z + r[0])), intOf(int64(z + r[1]))}, ctx
			}})
		}
	}
	specs = append(specs, composeSpec{entry: "maptile.ChildrenInZoomRange", cases: cz,
		desc: "for every level d in the range, every tile (X*2^d + i, Y*2^d + j) with 0 <= i, j < 2^d at zoom+d, each exactly once: exactly the descendants at those zooms",
		judge: func(_ *Interp, cx interface{}, st *State) string {
			ctx := cx.(*tileCtx)
			res, ok := st.result[0].(SliceV)
			if !ok {
				return "a list of tiles is expected"
			}
			want := map[[3]int64]int{}
			for d := ctx.o; d <= ctx.m; d++ {
				for i := int64(0); i < 1<<uint(d); i++ {
					for j := int64(0); j < 1<<uint(d); j++ {
						want[[3]int64{int64(d), i, j}]++
					}
				}
			}
			if !res.Nil {
				arr, _ := st.heap[res.Arr].(ArrV)
				for k, e := range arr.Elems[res.Lo:res.Hi] {
					x, y, z, ok := tileFields(e)
					if !ok || !z.Known {
						return fmt.Sprintf("element %d is not a tile with a known zoom", k)
					}
					d := z.V - int64(ctx.z)
					if d < 0 || d > 40 {
						return fmt.Sprintf("element %d is at zoom %d", k, z.V)
					}
					p := int64(1) << uint(d)
					off := func(v IntV, sym int) (int64, bool) {
						if sym == 0 {
							return v.V, v.Known
						}
						if v.Known || v.Sym != sym || v.A != p {
							return 0, false
						}
						return v.B, true
					}
					i, ok1 := off(x, ctx.sx)
					j, ok2 := off(y, ctx.sy)
					if !ok1 || !ok2 {
						return fmt.Sprintf("element %d is not a descendant of the tile (X, Y are not X*2^d+i, Y*2^d+j)", k)
					}
					want[[3]int64{d, i, j}]--
				}
			}
			for k, n := range want {
				if n != 0 {
					return fmt.Sprintf("the descendant (X*2^%d+%d, Y*2^%d+%d) appears %d time(s), want once", k[0], k[1], k[0], k[2], 1-n)
				}
			}
			return ""
		}})
	// --- At: the tile of a point in range is valid ---------------------------
	var at []composeCase
	for _, z := range zs {
		z := z
		at = append(at, composeCase{fmt.Sprintf("zoom %d, longitude in [-180, 180], any latitude", z), func(it *Interp, s *State) ([]AV, interface{}) {
			lon := it.freeFloat().(FloatV)
			lat := it.freeFloat().(FloatV)
			it.setInterval(s, lon, -180, 180)
			return []AV{ArrV{N: 2, Elems: []AV{lon, lat}}, intOf(int64(z))}, &tileCtx{z: z}
		}})
	}
	specs = append(specs, composeSpec{entry: "maptile.At", cases: at, intervals: true, anyPath: true,
		desc: "for every longitude in [-180, 180] and every latitude the tile's X and Y are below 2^zoom (interval analysis of the float mapping, outward rounded)",
		judge: func(_ *Interp, cx interface{}, st *State) string {
			ctx := cx.(*tileCtx)
			x, y, z, ok := tileFields(st.result[0])
			if !ok {
				return "the result is not a tile"
			}
			if why := wantZoom(z, ctx.z); why != "" {
				return why
			}
			max := int64(1) << uint(ctx.z)
			for _, c := range []struct {
				n string
				v IntV
			}{{"X", x}, {"Y", y}} {
				_, hi, ok := st.bounds(c.v)
				if !ok {
					return fmt.Sprintf("the range of %s is not determined", c.n)
				}
				if hi >= max {
					where := ""
					for _, t := range st.trail {
						where += "; " + t.Desc
					}
					return fmt.Sprintf("%s can be as large as %d = 2^zoom or more: the tile is not valid at the end of the range%s", c.n, hi, where)
				}
			}
			return ""
		}})
	// --- Fraction: the latitude clamp applies beyond +-85.0511 only ----------
	type latCase struct {
		name string
		iv   fInterval
		want string // "formula", "top" (0) or "bottom" (2^zoom - 1)
	}
	lats := []latCase{
		{"latitude in the closed range [-85.0511, 85.0511]", fInterval{Lo: -85.0511, Hi: 85.0511}, "formula"},
		{"latitude exactly 85.0511", fInterval{Lo: 85.0511, Hi: 85.0511}, "formula"},
		{"latitude exactly -85.0511", fInterval{Lo: -85.0511, Hi: -85.0511}, "formula"},
		{"latitude in (85.0511, 90]", fInterval{Lo: 85.0511, Hi: 90, LoStrict: true}, "top"},
		{"latitude in [-90, -85.0511)", fInterval{Lo: -90, Hi: -85.0511, HiStrict: true}, "bottom"},
	}
	var fr []composeCase
	for _, z := range zs {
		for _, lc := range lats {
			z, lc := z, lc
			fr = append(fr, composeCase{fmt.Sprintf("zoom %d, %s", z, lc.name), func(it *Interp, s *State) ([]AV, interface{}) {
				lon := it.freeFloat().(FloatV)
				lat := it.freeFloat().(FloatV)
				it.setInterval(s, lon, -180, 180)
				if s.fsyms == nil {
					s.fsyms = map[int]fInterval{}
				}
				s.fsyms[lat.Sym] = lc.iv
				return []AV{ArrV{N: 2, Elems: []AV{lon, lat}}, intOf(int64(z))}, &fracCtx{z: z, want: lc.want}
			}})
		}
	}
	specs = append(specs, composeSpec{entry: "maptile.Fraction", cases: fr, intervals: true, anyPath: true,
		desc: "the row is clamped (0 at the top, 2^zoom - 1 at the bottom) only for latitudes beyond +-85.0511; for every latitude of the closed range, the end points included, it comes from the mercator formula",
		judge: func(_ *Interp, cx interface{}, st *State) string {
			ctx := cx.(*fracCtx)
			arr, ok := st.result[0].(ArrV)
			if !ok || len(arr.Elems) != 2 {
				return "the result is not a point"
			}
			y, ok := arr.Elems[1].(FloatV)
			if !ok {
				return "the row is not a float"
			}
			switch ctx.want {
			case "formula":
				if y.Known {
					return fmt.Sprintf("the row is the constant %g on this path: a latitude inside the closed range is clamped", y.V)
				}
			case "top":
				if !y.Known || y.V != 0 {
					return "a latitude beyond 85.0511 N is not clamped to row 0"
				}
			case "bottom":
				if want := float64(int64(1)<<uint(ctx.z)) - 1; !y.Known || y.V != want {
					return fmt.Sprintf("a latitude beyond 85.0511 S is not clamped to row 2^zoom - 1 = %g", want)
				}
			}
			return ""
		}})
	return specs
}

type fracCtx struct {
	z    int
	want string
}

// orShift: the receiver OR (b >> k), used to build expected vectors.
func (r *bitVec) orShift(b *bitVec, k int) *bitVec {
	var out bitVec
	for i := 0; i+k < 64; i++ {
		out.B[i] = b.B[i+k]
	}
	return &out
}

// ---------------------------------------------------------------------------
// C14: a cover of a multi geometry or collection is the union of its members' covers

type coverCtx struct {
	member map[string]int
	n      int
}

func coverMemberSpecs(thorough bool) []composeSpec {
	maxM := 3
	if thorough {
		maxM = 5
	}
	mkCases := func(kind string, member func() *GeomHyp) []composeCase {
		var cases []composeCase
		for m := 0; m <= maxM; m++ {
			m := m
			cases = append(cases, composeCase{fmt.Sprintf("%d members", m), func(it *Interp, s *State) ([]AV, interface{}) {
				var hs []*GeomHyp
				for i := 0; i < m; i++ {
					hs = append(hs, member())
				}
				g := it.buildGeom(s, of(kind, hs...))
				ctx := &coverCtx{member: map[string]int{}, n: m}
				for i, e := range membersOf(s, g) {
					if iv, ok := e.(IfaceV); ok {
						ctx.member[identString(iv.Val)] = i
					} else {
						ctx.member[identString(e)] = i
					}
				}
				return []AV{g, intOf(9)}, ctx
			}})
		}
		return cases
	}
	mapIdent := func(v AV) string {
		if m, ok := v.(MapV); ok {
			return fmt.Sprintf("map@%d", m.Cell)
		}
		return identString(v)
	}
	// every member is handed once (with the zoom) to the part function, together with / merged into the result set
	judge := func(part string, setArg, memberArg int, merge string) func(it *Interp, cx interface{}, st *State) string {
		return func(it *Interp, cx interface{}, st *State) string {
			ctx := cx.(*coverCtx)
			if len(st.result) == 2 {
				if isNil, known := nilness(st.result[1]); known && !isNil {
					return "" // a member failed: the error is passed on
				}
			}
			res := mapIdent(st.result[0])
			seen := map[int]int{}
			produced := map[string]int{}
			for _, ev := range eventsOf(st, part) {
				a := ev.Args[memberArg]
				if iv, ok := a.(IfaceV); ok {
					a = iv.Val
				}
				i, ok := ctx.member[identString(a)]
				if !ok {
					return fmt.Sprintf("the part function at %s is given a value that is not a member", ev.Pos)
				}
				seen[i]++
				if setArg >= 0 && mapIdent(ev.Args[setArg]) != res {
					return fmt.Sprintf("member %d is covered into a set that is not the result", i)
				}
				if merge != "" {
					produced[mapIdent(ev.Out[0])] = i
				}
			}
			for i := 0; i < ctx.n; i++ {
				if seen[i] != 1 {
					return fmt.Sprintf("member %d is covered %d time(s), want once", i, seen[i])
				}
			}
			if merge != "" {
				merged := map[int]int{}
				for _, ev := range eventsOf(st, merge) {
					if mapIdent(ev.Args[0]) != res {
						return "a member's cover is merged into a set that is not the result"
					}
					i, ok := produced[mapIdent(ev.Args[1])]
					if !ok {
						return "something that is not a member's cover is merged into the result"
					}
					merged[i]++
				}
				for i := 0; i < ctx.n; i++ {
					if merged[i] != 1 {
						return fmt.Sprintf("the cover of member %d is merged %d time(s) into the result, want once", i, merged[i])
					}
				}
			}
			return ""
		}
	}
	freshSetErr := func(fn *ssa.Function) oracleFunc {
		return func(it *Interp, s *State, _ []AV) [][]AV {
			return [][]AV{
				{MapV{Cell: it.newCell(s, TopV{})}, IfaceV{Nil: true}},
				{MapV{Nil: true}, nonNilError()},
			}
		}
	}
	errOrNil := func(fn *ssa.Function) oracleFunc {
		return func(it *Interp, s *State, _ []AV) [][]AV {
			return [][]AV{{IfaceV{Nil: true}}, {nonNilError()}}
		}
	}
	noResult := func(fn *ssa.Function) oracleFunc {
		res := fn.Signature.Results()
		return func(it *Interp, s *State, _ []AV) [][]AV {
			var o []AV
			for i := 0; i < res.Len(); i++ {
				o = append(o, topOf(res.At(i).Type(), false))
			}
			return [][]AV{o}
		}
	}
	pkg := "maptile/tilecover."
	return []composeSpec{
		{
			entry: pkg + "Collection", cases: mkCases("Collection", func() *GeomHyp { return pts("LineString", 2) }),
			desc:    "the union of the members' covers: every member covered once at the same zoom and merged once into the result; a member's error is passed on",
			oracles: map[string]func(*ssa.Function) oracleFunc{pkg + "Geometry": freshSetErr, "maptile.(Set).Merge": noResult},
			judge:   judge(pkg+"Geometry", -1, 0, "maptile.(Set).Merge"),
		},
		{
			entry: pkg + "MultiPolygon", cases: mkCases("MultiPolygon", func() *GeomHyp { return of("Polygon", pts("Ring", 4)) }),
			desc:    "every member polygon covered once into the result set; a member's error is passed on",
			oracles: map[string]func(*ssa.Function) oracleFunc{pkg + "polygon": errOrNil},
			judge:   judge(pkg+"polygon", 0, 1, ""),
		},
		{
			entry: pkg + "MultiLineString", cases: mkCases("MultiLineString", func() *GeomHyp { return pts("LineString", 2) }),
			desc:    "every member line covered once into the result set",
			oracles: map[string]func(*ssa.Function) oracleFunc{pkg + "line": noResult},
			judge:   judge(pkg+"line", 0, 1, ""),
		},
	}
}
