package main

// Engine D — loop completeness (structural, on the type-checked syntax tree
// and go/cfg).
//
//   D1  run-once loop: a for/range statement whose body has no path to the
//       next iteration (every path leaves the loop) treats a collection as its
//       first member;
//   D2  member loop: a loop over a slice covers the whole index range
//       (start 0, step 1, bound len) or the skipped prefix v[j], j < start, is
//       accessed elsewhere in the function through the same expression;
//   D3  segment loop: a loop that reads v[i+a] and v[i+b] (a<b) visits every
//       consecutive pair: start+a == 0 and the bound is len(v)-b.

import (
	"fmt"
	"go/ast"
	"go/constant"
	"go/token"
	"go/types"
	"sort"
	"strings"

	"golang.org/x/tools/go/cfg"
	"golang.org/x/tools/go/packages"
)

type loopInfo struct {
	pkg      *packages.Package
	fn       *ast.FuncDecl
	fnKey    string
	stmt     ast.Stmt // *ast.ForStmt or *ast.RangeStmt
	ordinal  int      // occurrence index of this loop kind in the function
	runOnce  bool
	rangeX   ast.Expr // for RangeStmt
	kindDesc string
}

// funcDeclKey mirrors FuncKey for syntax.
func funcDeclKey(pkg *packages.Package, fd *ast.FuncDecl) string {
	path := pkg.PkgPath
	if fd.Recv != nil && len(fd.Recv.List) == 1 {
		t := fd.Recv.List[0].Type
		ptr := ""
		if st, ok := t.(*ast.StarExpr); ok {
			t = st.X
			ptr = "*"
		}
		name := types.ExprString(t)
		return fmt.Sprintf("%s.(%s%s).%s", path, ptr, name, fd.Name.Name)
	}
	return path + "." + fd.Name.Name
}

// eachFuncDecl visits every function declaration with a body in the module.
func (p *Program) eachFuncDecl(f func(pkg *packages.Package, fd *ast.FuncDecl)) {
	for _, path := range p.Order {
		pk := p.Pkgs[path]
		for _, file := range pk.Syntax {
			for _, d := range file.Decls {
				if fd, ok := d.(*ast.FuncDecl); ok && fd.Body != nil {
					f(pk, fd)
				}
			}
		}
	}
}

func noReturnCall(pkg *packages.Package) func(*ast.CallExpr) bool {
	return func(call *ast.CallExpr) bool {
		if id, ok := call.Fun.(*ast.Ident); ok && id.Name == "panic" {
			if _, isBuiltin := pkg.TypesInfo.Uses[id].(*types.Builtin); isBuiltin {
				return false // mayReturn = false
			}
		}
		return true
	}
}

// collectLoops finds every loop statement of a function (including those in
// function literals) and decides whether its body can reach a next iteration.
func collectLoops(pkg *packages.Package, fd *ast.FuncDecl) []*loopInfo {
	var out []*loopInfo
	key := ShortKey(funcDeclKey(pkg, fd))
	counts := map[string]int{}
	var bodies []*ast.BlockStmt
	bodies = append(bodies, fd.Body)
	ast.Inspect(fd.Body, func(n ast.Node) bool {
		if fl, ok := n.(*ast.FuncLit); ok {
			bodies = append(bodies, fl.Body)
		}
		return true
	})
	mayReturn := noReturnCall(pkg)
	for _, body := range bodies {
		g := cfg.New(body, mayReturn)
		// header blocks per statement
		heads := map[ast.Stmt][]*cfg.Block{}
		bodyBlk := map[ast.Stmt]*cfg.Block{}
		for _, b := range g.Blocks {
			switch b.Kind {
			case cfg.KindForLoop, cfg.KindForPost, cfg.KindRangeLoop:
				heads[b.Stmt] = append(heads[b.Stmt], b)
			case cfg.KindForBody, cfg.KindRangeBody:
				bodyBlk[b.Stmt] = b
				if fs, ok := b.Stmt.(*ast.ForStmt); ok && fs.Cond == nil && fs.Post == nil {
					heads[b.Stmt] = append(heads[b.Stmt], b) // `for { }`: the body is its own head
				}
			}
		}
		var stmts []ast.Stmt
		for s := range bodyBlk {
			stmts = append(stmts, s)
		}
		sort.Slice(stmts, func(i, j int) bool { return stmts[i].Pos() < stmts[j].Pos() })
		for _, s := range stmts {
			bb := bodyBlk[s]
			if !bb.Live {
				continue
			}
			// reachability from the body block to any head block of the same statement
			seen := map[*cfg.Block]bool{}
			stack := []*cfg.Block{bb}
			back := false
			for len(stack) > 0 && !back {
				b := stack[len(stack)-1]
				stack = stack[:len(stack)-1]
				if seen[b] {
					continue
				}
				seen[b] = true
				for _, su := range b.Succs {
					for _, h := range heads[s] {
						if su == h {
							back = true
						}
					}
					stack = append(stack, su)
				}
			}
			li := &loopInfo{pkg: pkg, fn: fd, fnKey: key, stmt: s, runOnce: !back}
			switch x := s.(type) {
			case *ast.RangeStmt:
				li.rangeX = x.X
				t := pkg.TypesInfo.TypeOf(x.X)
				li.kindDesc = "range(" + shortType(t) + ")"
			case *ast.ForStmt:
				li.kindDesc = "for"
			}
			li.ordinal = counts[li.kindDesc]
			counts[li.kindDesc]++
			out = append(out, li)
		}
	}
	return out
}

func shortType(t types.Type) string {
	if t == nil {
		return "?"
	}
	return types.TypeString(t, func(p *types.Package) string {
		if p.Path() == orbPath {
			return "orb"
		}
		return p.Name()
	})
}

func (li *loopInfo) construct() string {
	c := fmt.Sprintf("%s#%s", li.fnKey, li.kindDesc)
	if li.ordinal > 0 {
		c += fmt.Sprintf("#%d", li.ordinal)
	}
	return c
}

// d1Exceptions: loops that leave after the first iteration on purpose.
var d1Exceptions = map[string]string{}

// ruleRunOnce is D1 for the functions selected by keep (nil = whole module).
func ruleRunOnce(keep func(fnKey string) bool, floor int) ruleFunc {
	return func(c *Ctx) {
		c.R.Rule("D1: a for/range statement whose body has no control-flow path to its next iteration (go/cfg reachability from the body block to the loop head) handles only the first element")
		n := 0
		c.P.eachFuncDecl(func(pkg *packages.Package, fd *ast.FuncDecl) {
			key := ShortKey(funcDeclKey(pkg, fd))
			if keep != nil && !keep(key) {
				return
			}
			for _, li := range collectLoops(pkg, fd) {
				n++
				cons := li.construct()
				pos := c.P.Pos(li.stmt.Pos())
				if li.runOnce {
					if why, ok := d1Exceptions[cons]; ok {
						c.R.OK("D1-run-once-loop", cons, pos, "reviewed exception: "+why)
						continue
					}
					c.R.Bad("D1-run-once-loop", cons, pos,
						"every path through the loop body leaves the loop: only the first element is processed (return/break inside the first iteration)")
				} else {
					c.R.OK("D1-run-once-loop", cons, pos, "body reaches the next iteration")
				}
			}
		})
		c.R.Floor("D1-run-once-loop", n, floor)
	}
}

// ---------------------------------------------------------------------------
// D2 / D3 on counted loops

type countedLoop struct {
	li      *loopInfo
	ivar    types.Object
	start   int64 // constant start
	startOK bool
	base    ast.Expr // v in `i < len(v)-k` / range v
	boundK  int64    // loop runs while i < len(base) - boundK
	boundOK bool
	sliceLo int64 // range v[lo:]
}

func constInt(pkg *packages.Package, e ast.Expr) (int64, bool) {
	tv, ok := pkg.TypesInfo.Types[e]
	if !ok || tv.Value == nil || tv.Value.Kind() != constant.Int {
		return 0, false
	}
	v, exact := constant.Int64Val(tv.Value)
	return v, exact
}

// lenMinus recognises len(x), len(x)-k, len(x)+k; returns x and k (value = len(x)-k).
func lenMinus(pkg *packages.Package, e ast.Expr) (ast.Expr, int64, bool) {
	e = ast.Unparen(e)
	switch x := e.(type) {
	case *ast.CallExpr:
		if id, ok := x.Fun.(*ast.Ident); ok && id.Name == "len" && len(x.Args) == 1 {
			if _, isB := pkg.TypesInfo.Uses[id].(*types.Builtin); isB {
				return ast.Unparen(x.Args[0]), 0, true
			}
		}
	case *ast.BinaryExpr:
		if x.Op == token.SUB || x.Op == token.ADD {
			if b, k, ok := lenMinus(pkg, x.X); ok {
				if c, ok := constInt(pkg, x.Y); ok {
					if x.Op == token.SUB {
						return b, k + c, true
					}
					return b, k - c, true
				}
			}
		}
	case *ast.Ident:
		// a local assigned once from len(x)... : resolved by caller
	}
	return nil, 0, false
}

// indexOffset recognises i, i+c, i-c, c+i for the variable ivar.
func indexOffset(pkg *packages.Package, e ast.Expr, ivar types.Object) (int64, bool) {
	e = ast.Unparen(e)
	switch x := e.(type) {
	case *ast.Ident:
		if pkg.TypesInfo.Uses[x] == ivar {
			return 0, true
		}
	case *ast.BinaryExpr:
		if x.Op == token.ADD || x.Op == token.SUB {
			if off, ok := indexOffset(pkg, x.X, ivar); ok {
				if c, ok := constInt(pkg, x.Y); ok {
					if x.Op == token.ADD {
						return off + c, true
					}
					return off - c, true
				}
			}
			if x.Op == token.ADD {
				if off, ok := indexOffset(pkg, x.Y, ivar); ok {
					if c, ok := constInt(pkg, x.X); ok {
						return off + c, true
					}
				}
			}
		}
	}
	return 0, false
}

func exprKey(e ast.Expr) string { return types.ExprString(ast.Unparen(e)) }

// singleAssignLen resolves an identifier that is assigned exactly once in the
// function from a len(x)±k expression (the `l := len(ls) - 1` idiom).
func singleAssignLen(pkg *packages.Package, fd *ast.FuncDecl, id *ast.Ident) (ast.Expr, int64, bool) {
	obj := pkg.TypesInfo.Uses[id]
	if obj == nil {
		return nil, 0, false
	}
	var rhs ast.Expr
	n := 0
	ast.Inspect(fd.Body, func(nd ast.Node) bool {
		switch s := nd.(type) {
		case *ast.AssignStmt:
			for i, l := range s.Lhs {
				if lid, ok := l.(*ast.Ident); ok && (pkg.TypesInfo.Defs[lid] == obj || pkg.TypesInfo.Uses[lid] == obj) {
					n++
					if len(s.Lhs) == len(s.Rhs) {
						rhs = s.Rhs[i]
					}
				}
			}
		case *ast.IncDecStmt:
			if lid, ok := s.X.(*ast.Ident); ok && pkg.TypesInfo.Uses[lid] == obj {
				n += 2
			}
		}
		return true
	})
	if n != 1 || rhs == nil {
		return nil, 0, false
	}
	return lenMinus(pkg, rhs)
}

func analyseCounted(li *loopInfo) *countedLoop {
	pkg := li.pkg
	switch s := li.stmt.(type) {
	case *ast.ForStmt:
		cl := &countedLoop{li: li}
		as, ok := s.Init.(*ast.AssignStmt)
		if !ok || len(as.Lhs) != 1 || len(as.Rhs) != 1 {
			return nil
		}
		id, ok := as.Lhs[0].(*ast.Ident)
		if !ok {
			return nil
		}
		cl.ivar = pkg.TypesInfo.Defs[id]
		if cl.ivar == nil {
			cl.ivar = pkg.TypesInfo.Uses[id]
		}
		if cl.ivar == nil {
			return nil
		}
		cl.start, cl.startOK = constInt(pkg, as.Rhs[0])
		inc, ok := s.Post.(*ast.IncDecStmt)
		if !ok || inc.Tok != token.INC {
			return nil
		}
		if iid, ok := inc.X.(*ast.Ident); !ok || pkg.TypesInfo.Uses[iid] != cl.ivar {
			return nil
		}
		be, ok := s.Cond.(*ast.BinaryExpr)
		if !ok {
			return nil
		}
		lhs, ok := ast.Unparen(be.X).(*ast.Ident)
		if !ok || pkg.TypesInfo.Uses[lhs] != cl.ivar {
			return nil
		}
		var base ast.Expr
		var k int64
		var okb bool
		base, k, okb = lenMinus(pkg, be.Y)
		if !okb {
			if rid, isID := ast.Unparen(be.Y).(*ast.Ident); isID {
				base, k, okb = singleAssignLen(pkg, li.fn, rid)
			}
		}
		if okb {
			switch be.Op {
			case token.LSS:
				cl.base, cl.boundK, cl.boundOK = base, k, true
			case token.LEQ:
				cl.base, cl.boundK, cl.boundOK = base, k-1, true
			}
		}
		return cl
	case *ast.RangeStmt:
		cl := &countedLoop{li: li, startOK: true, boundOK: true}
		x := ast.Unparen(s.X)
		if se, ok := x.(*ast.SliceExpr); ok {
			lo := int64(0)
			if se.Low != nil {
				v, ok := constInt(pkg, se.Low)
				if !ok {
					return nil
				}
				lo = v
			}
			if se.High != nil {
				return nil
			}
			cl.sliceLo = lo
			cl.start = lo
			x = ast.Unparen(se.X)
		}
		cl.base = x
		if id, ok := s.Key.(*ast.Ident); ok && id.Name != "_" {
			cl.ivar = pkg.TypesInfo.Defs[id]
		}
		return cl
	}
	return nil
}

// prefixAccessed reports whether fd's body contains base[j] for the constant j
// outside the given loop statement (or anywhere when inLoop is nil).
func prefixAccessed(pkg *packages.Package, fd *ast.FuncDecl, base ast.Expr, j int64) bool {
	want := exprKey(base)
	found := false
	ast.Inspect(fd.Body, func(n ast.Node) bool {
		ie, ok := n.(*ast.IndexExpr)
		if !ok {
			return true
		}
		if exprKey(ie.X) != want {
			return true
		}
		if v, ok := constInt(pkg, ie.Index); ok && v == j {
			found = true
		}
		return true
	})
	return found
}

// isSliceOfGeom: the loops D2 judges range over orb geometry slices (and
// slices of geojson features / layers selected by the caller).
func (p *Program) memberSlice(t types.Type) bool {
	if t == nil {
		return false
	}
	if _, ok := t.Underlying().(*types.Slice); !ok {
		return false
	}
	if p.KindOf(t) != "" {
		return true
	}
	// []orb.Point, []*geojson.Feature, Layers ...
	el := t.Underlying().(*types.Slice).Elem()
	if p.KindOf(el) != "" || p.IsGeometry(el) {
		return true
	}
	if pt, ok := el.(*types.Pointer); ok {
		if nt, ok := pt.Elem().(*types.Named); ok && nt.Obj().Pkg() != nil && strings.HasPrefix(nt.Obj().Pkg().Path(), orbPath) {
			return true
		}
	}
	return false
}

// d3Exceptions: segment loops that start at a later pair on purpose.
var d3Exceptions = map[string]string{
	"orb.(Ring).Orientation#for":  "origin-shifted shoelace: coordinates are taken relative to r[0], so the pairs touching r[0] contribute zero and the fan starts at (1,2)",
	"planar.ringCentroidArea#for": "origin-shifted shoelace with centroid accumulation: triangles (r[0], r[i], r[i+1]); the pair (0,1) is degenerate by construction",
}

// d2Exceptions: member loops that skip a prefix on purpose without touching it.
var d2Exceptions = map[string]string{
	"simplify.(*RadialSimplifier).simplify#for":      "ls[0] is read as ls[current] with current initialised to 0; the first vertex is always kept",
	"simplify.(*VisvalingamSimplifier).simplify#for": "loop builds the interior items only; first and last vertex are pushed explicitly before and after it with infinite area",
}

func ruleMemberLoops(keep func(fnKey string) bool, floorD2, floorD3 int) ruleFunc {
	return func(c *Ctx) {
		c.R.Rule("D2: a loop over a geometry slice starts at 0 (or the skipped prefix v[j] is read elsewhere in the function), steps by 1 and runs to len(v); " +
			"D3: a loop reading v[i+a] and v[i+b] visits every consecutive pair (start+a == 0, last index len(v)-1)")
		nD2, nD3 := 0, 0
		c.P.eachFuncDecl(func(pkg *packages.Package, fd *ast.FuncDecl) {
			key := ShortKey(funcDeclKey(pkg, fd))
			if keep != nil && !keep(key) {
				return
			}
			for _, li := range collectLoops(pkg, fd) {
				cl := analyseCounted(li)
				if cl == nil || cl.base == nil {
					continue
				}
				bt := pkg.TypesInfo.TypeOf(cl.base)
				if !c.P.memberSlice(bt) {
					continue
				}
				cons := li.construct()
				pos := c.P.Pos(li.stmt.Pos())
				// offsets used with the induction variable on the same base
				offs := map[int64]bool{}
				if cl.ivar != nil {
					want := exprKey(cl.base)
					var body ast.Node
					switch s := li.stmt.(type) {
					case *ast.ForStmt:
						body = s.Body
					case *ast.RangeStmt:
						body = s.Body
					}
					ast.Inspect(body, func(n ast.Node) bool {
						if ie, ok := n.(*ast.IndexExpr); ok && exprKey(ie.X) == want {
							if off, ok := indexOffset(pkg, ie.Index, cl.ivar); ok {
								offs[off] = true
							}
						}
						return true
					})
				}
				// the loop may run over one slice and read pairs of another (for i := range dists { f(ls[i], ls[i+1]) })
				if cl.ivar != nil && len(offs) < 2 {
					other := map[string]map[int64]bool{}
					var body ast.Node
					switch s := li.stmt.(type) {
					case *ast.ForStmt:
						body = s.Body
					case *ast.RangeStmt:
						body = s.Body
					}
					ast.Inspect(body, func(n ast.Node) bool {
						if ie, ok := n.(*ast.IndexExpr); ok && exprKey(ie.X) != exprKey(cl.base) && c.P.memberSlice(pkg.TypesInfo.TypeOf(ie.X)) {
							if off, ok := indexOffset(pkg, ie.Index, cl.ivar); ok {
								if other[exprKey(ie.X)] == nil {
									other[exprKey(ie.X)] = map[int64]bool{}
								}
								other[exprKey(ie.X)][off] = true
							}
						}
						return true
					})
					for x, o := range other {
						if len(o) >= 2 {
							nD3++
							c.R.Add("D3-segment-loop", cons, OutOfScope, pos, "reads consecutive elements of "+x+" but is bounded by the length of "+exprKey(cl.base)+": the relation between the two lengths is not decided here")
						}
					}
				}
				var offList []int64
				for o := range offs {
					offList = append(offList, o)
				}
				sort.Slice(offList, func(i, j int) bool { return offList[i] < offList[j] })
				_, isFor := li.stmt.(*ast.ForStmt)
				if isFor && len(offList) >= 2 {
					// D3 segment loop
					nD3++
					a, b := offList[0], offList[len(offList)-1]
					if !cl.startOK || !cl.boundOK {
						c.R.Add("D3-segment-loop", cons, OutOfScope, pos, "start or bound is not a constant/len form; not judged")
						continue
					}
					okStart := cl.start+a == 0
					okEnd := cl.boundK == b
					detail := fmt.Sprintf("reads %s[i%+d] and %s[i%+d]; i from %d while i < len-%d", exprKey(cl.base), a, exprKey(cl.base), b, cl.start, cl.boundK)
					if okStart && okEnd {
						c.R.OK("D3-segment-loop", cons, pos, detail+": every consecutive pair is visited")
					} else if why, ok := d3Exceptions[cons]; ok {
						c.R.OK("D3-segment-loop", cons, pos, "reviewed exception: "+why+" ("+detail+")")
						c.R.Suppressed = append(c.R.Suppressed, "D3 "+cons+": "+why)
					} else {
						what := ""
						if !okStart {
							what += fmt.Sprintf(" first pair visited is (%d,%d), not (0,%d);", cl.start+a, cl.start+b, b-a)
						}
						if !okEnd {
							what += fmt.Sprintf(" last index read is len-%d, not len-1;", cl.boundK-b+1)
						}
						c.R.Bad("D3-segment-loop", cons, pos, detail+":"+what+" a segment is dropped")
					}
					continue
				}
				// D2 member loop
				nD2++
				if !cl.startOK || !cl.boundOK {
					c.R.Add("D2-member-loop", cons, OutOfScope, pos, "start or bound is not a constant/len form; not judged")
					continue
				}
				off := int64(0)
				if len(offList) == 1 {
					off = offList[0]
				}
				first := cl.start + off
				problems := ""
				if first < 0 {
					problems += fmt.Sprintf(" first index is %d;", first)
				}
				for j := int64(0); j < first; j++ {
					if !prefixAccessed(pkg, fd, cl.base, j) {
						problems += fmt.Sprintf(" %s[%d] is skipped and never read in this function;", exprKey(cl.base), j)
					}
				}
				if isFor && cl.boundK-off != 0 {
					if cl.boundK-off > 0 {
						problems += fmt.Sprintf(" the last %d member(s) are not visited (bound len-%d, offset %+d);", cl.boundK-off, cl.boundK, off)
					}
				}
				detail := fmt.Sprintf("over %s (%s), first index %d", exprKey(cl.base), shortType(bt), first)
				if problems == "" {
					c.R.OK("D2-member-loop", cons, pos, detail+": every member is visited")
				} else if why, ok := d2Exceptions[cons]; ok {
					c.R.OK("D2-member-loop", cons, pos, "reviewed exception: "+why)
					c.R.Suppressed = append(c.R.Suppressed, "D2 "+cons+": "+why)
				} else {
					c.R.Bad("D2-member-loop", cons, pos, detail+":"+problems)
				}
			}
		})
		c.R.Floor("D2-member-loop", nD2, floorD2)
		c.R.Floor("D3-segment-loop", nD3, floorD3)
	}
}

func inPkgs(prefixes ...string) func(string) bool {
	return func(k string) bool {
		for _, p := range prefixes {
			if strings.HasPrefix(k, p) {
				return true
			}
		}
		return false
	}
}
