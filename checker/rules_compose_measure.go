package main

// A-comp specs for the measures (C10 planar, C18 geo): how areas, centroids
// and lengths of composite geometries are combined from their parts.  The
// parts' own formulas (shoelace, spherical excess, distance) are oracles that
// answer with fresh identified unknowns; the composing code's result is a
// rational function of those unknowns (interp_terms.go) and is compared with
// the stated combination.

import (
	"fmt"
	"math/big"
	"sort"
	"strings"

	"golang.org/x/tools/go/ssa"
)

type measureCtx struct {
	member map[string]int // identity of a member value -> index
	n      int
	dims   []int
	lines  [][]string // for lengths: every line of the geometry as point identities
	label  string
}

func floatTerm(it *Interp, v AV) *fterm {
	f, ok := v.(FloatV)
	if !ok {
		return nil
	}
	return it.termOf(f)
}

func pointTerms(it *Interp, v AV) [2]*fterm {
	var out [2]*fterm
	if a, ok := v.(ArrV); ok && len(a.Elems) == 2 {
		out[0], out[1] = floatTerm(it, a.Elems[0]), floatTerm(it, a.Elems[1])
	}
	return out
}

// hasZeroFact: the path took a branch that assumes t == 0.
func hasZeroFact(st *State, t *fterm) bool {
	for _, tr := range st.trail {
		f := tr.Fact
		if f == nil {
			continue
		}
		if !(f.Op == "==" && f.Taken || f.Op == "!=" && !f.Taken) {
			continue
		}
		d := termAdd(f.A, f.B, -1)
		if termEqual(d, t) || termEqual(termAdd(termConst(0), d, -1), t) {
			return true
		}
	}
	return false
}

func sumTerms(ts []*fterm) *fterm {
	acc := termConst(0)
	for _, t := range ts {
		acc = termAdd(acc, t, 1)
	}
	return acc
}

// memberEvents orders the oracle events of a member-wise composition by member
// index and requires each wanted member exactly once.
func memberEvents(ctx *measureCtx, evs []oracleEvent, want []int) ([]oracleEvent, string) {
	by := map[int][]oracleEvent{}
	for _, ev := range evs {
		i, ok := ctx.member[identString(ev.Args[0])]
		if !ok {
			return nil, fmt.Sprintf("the part formula at %s is applied to a value that is not a member of the argument", ev.Pos)
		}
		by[i] = append(by[i], ev)
	}
	var out []oracleEvent
	for _, i := range want {
		if len(by[i]) != 1 {
			return nil, fmt.Sprintf("member %d is measured %d time(s), want once", i, len(by[i]))
		}
		out = append(out, by[i][0])
	}
	return out, ""
}

func seq(n int) []int {
	out := make([]int, n)
	for i := range out {
		out[i] = i
	}
	return out
}

// weightedJudge: area = sum w_i, centroid = sum c_i w_i / sum w_i, where the
// weight of member i is weight(i, its measured area).
func weightedJudge(it *Interp, st *State, evs []oracleEvent, weight func(i int, a *fterm) *fterm, what string) string {
	var ws []*fterm
	var cs [][2]*fterm
	names := map[int]string{}
	for i, ev := range evs {
		a := floatTerm(it, ev.Out[1])
		if a == nil {
			return "internal: the part's area carries no term"
		}
		if id, ok := atomOf(a); ok {
			names[id] = fmt.Sprintf("area%d", i)
		}
		ws = append(ws, weight(i, a))
		pt := pointTerms(it, ev.Out[0])
		for k, t := range pt {
			if id, ok := atomOf(t); ok {
				names[id] = fmt.Sprintf("c%d%s", i, []string{"x", "y"}[k])
			}
		}
		cs = append(cs, pt)
	}
	E := sumTerms(ws)
	R := floatTerm(it, st.result[1])
	if R == nil || E == nil {
		return "the returned area is not a rational function of the parts' areas"
	}
	if !termEqual(R, E) {
		if R.isZero() && hasZeroFact(st, E) {
			return "" // degenerate: the path assumed the total is zero and says so
		}
		return fmt.Sprintf("the returned area is %s but %s is %s", it.nameTerm(R, names), what, it.nameTerm(E, names))
	}
	if E.isZero() {
		return ""
	}
	got := pointTerms(it, st.result[0])
	for k := 0; k < 2; k++ {
		num := termConst(0)
		for i := range ws {
			if cs[i][k] == nil {
				return "internal: a part's centroid carries no term"
			}
			num = termAdd(num, termMul(cs[i][k], ws[i]), 1)
		}
		want := termDiv(num, E)
		if got[k] == nil || want == nil {
			return "the returned centroid is not a rational function of the parts' centroids and areas"
		}
		if !termEqual(got[k], want) {
			return fmt.Sprintf("centroid coordinate %d is %s but the weighted mean of the parts is %s", k, it.nameTerm(got[k], names), it.nameTerm(want, names))
		}
	}
	return ""
}

func hypDim(h *GeomHyp) int {
	switch h.Kind {
	case "Point", "MultiPoint":
		return 0
	case "LineString", "MultiLineString":
		return 1
	case "Collection":
		m := 0
		for _, e := range h.Elems {
			if d := hypDim(e); d > m {
				m = d
			}
		}
		return m
	}
	return 2
}

func membersOf(s *State, v AV) []AV {
	sl, ok := v.(SliceV)
	if !ok || sl.Nil {
		return nil
	}
	arr, _ := s.heap[sl.Arr].(ArrV)
	return arr.Elems[sl.Lo:sl.Hi]
}

func planarMeasureSpecs(thorough bool) []composeSpec {
	maxM := 3
	if thorough {
		maxM = 5
	}
	ring := func() *GeomHyp { return pts("Ring", 4) }
	var mpCases, polyCases, collCases []composeCase
	for m := 0; m <= maxM; m++ {
		m := m
		mpCases = append(mpCases, composeCase{fmt.Sprintf("%d polygons", m), func(it *Interp, s *State) ([]AV, interface{}) {
			var ps []*GeomHyp
			for i := 0; i < m; i++ {
				ps = append(ps, of("Polygon", ring()))
			}
			mp := it.buildGeom(s, of("MultiPolygon", ps...))
			ctx := &measureCtx{member: map[string]int{}, n: m}
			for i, e := range membersOf(s, mp) {
				ctx.member[identString(e)] = i
			}
			return []AV{mp}, ctx
		}})
	}
	for k := 1; k <= maxM+1; k++ {
		k := k
		polyCases = append(polyCases, composeCase{fmt.Sprintf("%d rings", k), func(it *Interp, s *State) ([]AV, interface{}) {
			var rs []*GeomHyp
			for i := 0; i < k; i++ {
				rs = append(rs, ring())
			}
			pg := it.buildGeom(s, of("Polygon", rs...))
			ctx := &measureCtx{member: map[string]int{}, n: k}
			for i, e := range membersOf(s, pg) {
				ctx.member[identString(e)] = i
			}
			return []AV{pg}, ctx
		}})
	}
	// collections: every sequence of up to 3 members over {point, line, polygon}, plus a nested one
	protos := []*GeomHyp{{Kind: "Point"}, pts("LineString", 3), of("Polygon", ring())}
	names := []string{"point", "line", "polygon"}
	var seqs [][]int
	var gen func(cur []int, n int)
	gen = func(cur []int, n int) {
		if len(cur) == n {
			seqs = append(seqs, append([]int(nil), cur...))
			return
		}
		for i := range protos {
			gen(append(cur, i), n)
		}
	}
	maxLen := 3
	if thorough {
		maxLen = 4
	}
	for n := 0; n <= maxLen; n++ {
		gen(nil, n)
	}
	for _, sq := range seqs {
		sq := sq
		var lab []string
		for _, i := range sq {
			lab = append(lab, names[i])
		}
		collCases = append(collCases, composeCase{"{" + strings.Join(lab, ",") + "}", func(it *Interp, s *State) ([]AV, interface{}) {
			var hs []*GeomHyp
			ctx := &measureCtx{member: map[string]int{}, n: len(sq)}
			for _, i := range sq {
				hs = append(hs, protos[i])
				ctx.dims = append(ctx.dims, hypDim(protos[i]))
			}
			cv := it.buildGeom(s, of("Collection", hs...))
			for i, e := range membersOf(s, cv) {
				iv, _ := e.(IfaceV)
				ctx.member[identString(iv.Val)] = i
			}
			return []AV{cv}, ctx
		}})
	}
	collCases = append(collCases, composeCase{"{line,{polygon,point},polygon}", func(it *Interp, s *State) ([]AV, interface{}) {
		hs := []*GeomHyp{protos[1], of("Collection", protos[2], protos[0]), protos[2]}
		ctx := &measureCtx{member: map[string]int{}, n: 3}
		for _, h := range hs {
			ctx.dims = append(ctx.dims, hypDim(h))
		}
		cv := it.buildGeom(s, of("Collection", hs...))
		for i, e := range membersOf(s, cv) {
			iv, _ := e.(IfaceV)
			ctx.member[identString(iv.Val)] = i
		}
		return []AV{cv}, ctx
	}})

	return []composeSpec{
		{
			entry:   "planar.multiPolygonCentroidArea",
			desc:    "area = sum of the member polygons' areas, centroid = their area-weighted mean",
			terms:   true,
			oracles: map[string]func(*ssa.Function) oracleFunc{"planar.polygonCentroidArea": oracleFresh},
			cases:   mpCases,
			judge: func(it *Interp, cx interface{}, st *State) string {
				ctx := cx.(*measureCtx)
				evs, why := memberEvents(ctx, eventsOf(st, "planar.polygonCentroidArea"), seq(ctx.n))
				if why != "" {
					return why
				}
				return weightedJudge(it, st, evs, func(_ int, a *fterm) *fterm { return a }, "the sum over the members")
			},
		},
		{
			entry:   "planar.collectionCentroidArea",
			desc:    "area = sum over the members of the collection's top dimension, centroid = their area-weighted mean",
			terms:   true,
			oracles: map[string]func(*ssa.Function) oracleFunc{"planar.CentroidArea": oracleFresh},
			cases:   collCases,
			judge: func(it *Interp, cx interface{}, st *State) string {
				ctx := cx.(*measureCtx)
				max := 0
				for _, d := range ctx.dims {
					if d > max {
						max = d
					}
				}
				var want []int
				for i, d := range ctx.dims {
					if d == max {
						want = append(want, i)
					}
				}
				var evs []oracleEvent
				for _, ev := range eventsOf(st, "planar.CentroidArea") {
					// measuring a lower-dimensional member is harmless as long as it is not used
					iv, _ := ev.Args[0].(IfaceV)
					if i, ok := ctx.member[identString(iv.Val)]; ok && ctx.dims[i] == max {
						e := ev
						e.Args = []AV{iv.Val}
						evs = append(evs, e)
					}
				}
				evs, why := memberEvents(ctx, evs, want)
				if why != "" {
					return why
				}
				return weightedJudge(it, st, evs, func(_ int, a *fterm) *fterm { return a }, "the sum over the top-dimensional members")
			},
		},
		{
			entry: "planar.polygonCentroidArea",
			desc:  "area = |outer| - sum |hole|, centroid = (|outer|*c_outer - sum |hole|*c_hole) / area",
			terms: true,
			oracles: map[string]func(*ssa.Function) oracleFunc{
				"planar.ringCentroidArea":       oracleFresh,
				"planar.lineStringCentroidDist": oracleFresh,
			},
			cases: polyCases,
			judge: func(it *Interp, cx interface{}, st *State) string {
				ctx := cx.(*measureCtx)
				evs, why := memberEvents(ctx, eventsOf(st, "planar.ringCentroidArea"), seq(ctx.n))
				if why != "" {
					return why
				}
				return weightedJudge(it, st, evs, func(i int, a *fterm) *fterm {
					w := it.absTerm(a)
					if i > 0 {
						w = termAdd(termConst(0), w, -1)
					}
					return w
				}, "|outer| minus the holes' |areas|")
			},
		},
	}
}

// ---------------------------------------------------------------------------
// geo areas (C18)

func geoAreaSpecs(thorough bool) []composeSpec {
	maxM := 3
	if thorough {
		maxM = 5
	}
	ring := func() *GeomHyp { return pts("Ring", 4) }
	var polyCases, mpCases, collCases []composeCase
	for k := 0; k <= maxM+1; k++ {
		k := k
		polyCases = append(polyCases, composeCase{fmt.Sprintf("%d rings", k), func(it *Interp, s *State) ([]AV, interface{}) {
			var rs []*GeomHyp
			for i := 0; i < k; i++ {
				rs = append(rs, ring())
			}
			pg := it.buildGeom(s, of("Polygon", rs...))
			ctx := &measureCtx{member: map[string]int{}, n: k}
			for i, e := range membersOf(s, pg) {
				ctx.member[identString(e)] = i
			}
			return []AV{pg}, ctx
		}})
	}
	for m := 0; m <= maxM; m++ {
		m := m
		mpCases = append(mpCases, composeCase{fmt.Sprintf("%d polygons", m), func(it *Interp, s *State) ([]AV, interface{}) {
			var ps []*GeomHyp
			for i := 0; i < m; i++ {
				ps = append(ps, of("Polygon", ring(), ring()))
			}
			mp := it.buildGeom(s, of("MultiPolygon", ps...))
			ctx := &measureCtx{member: map[string]int{}, n: m}
			for i, e := range membersOf(s, mp) {
				ctx.member[identString(e)] = i
			}
			return []AV{mp}, ctx
		}})
	}
	mixes := [][]*GeomHyp{
		{},
		{of("Polygon", ring())},
		{of("Polygon", ring()), of("MultiPolygon", of("Polygon", ring()))},
		{{Kind: "Point"}, of("Polygon", ring()), pts("LineString", 3), pts("Ring", 4)},
		{of("Collection", of("Polygon", ring())), of("Polygon", ring()), {Kind: "Bound"}},
	}
	for mi, mix := range mixes {
		mix := mix
		var lab []string
		for _, h := range mix {
			lab = append(lab, h.Kind)
		}
		collCases = append(collCases, composeCase{fmt.Sprintf("mix %d {%s}", mi, strings.Join(lab, ",")), func(it *Interp, s *State) ([]AV, interface{}) {
			cv := it.buildGeom(s, of("Collection", mix...))
			ctx := &measureCtx{member: map[string]int{}, n: len(mix)}
			for i, e := range membersOf(s, cv) {
				iv, _ := e.(IfaceV)
				ctx.member[identString(iv.Val)] = i
				ctx.dims = append(ctx.dims, hypDim(mix[i]))
			}
			return []AV{cv}, ctx
		}})
	}
	sumJudge := func(oracle string, weight func(it *Interp, i int, a *fterm) *fterm, unwrapIface bool, what string) func(it *Interp, cx interface{}, st *State) string {
		return func(it *Interp, cx interface{}, st *State) string {
			ctx := cx.(*measureCtx)
			var evs []oracleEvent
			for _, ev := range eventsOf(st, oracle) {
				if unwrapIface {
					iv, _ := ev.Args[0].(IfaceV)
					e := ev
					e.Args = []AV{iv.Val}
					ev = e
				}
				evs = append(evs, ev)
			}
			evs, why := memberEvents(ctx, evs, seq(ctx.n))
			if why != "" {
				return why
			}
			var ws []*fterm
			names := map[int]string{}
			for i, ev := range evs {
				a := floatTerm(it, ev.Out[0])
				if a == nil {
					return "internal: the part's area carries no term"
				}
				if id, ok := atomOf(a); ok {
					names[id] = fmt.Sprintf("area%d", i)
				}
				ws = append(ws, weight(it, i, a))
			}
			E := sumTerms(ws)
			R := floatTerm(it, st.result[0])
			if R == nil || !termEqual(R, E) {
				return fmt.Sprintf("the returned area is %s but %s is %s", it.nameTerm(R, names), what, it.nameTerm(E, names))
			}
			return ""
		}
	}
	plain := func(_ *Interp, _ int, a *fterm) *fterm { return a }
	return []composeSpec{
		{
			entry:   "geo.polygonArea",
			desc:    "area = |outer ring| - sum |hole|",
			terms:   true,
			oracles: map[string]func(*ssa.Function) oracleFunc{"geo.ringArea": oracleFresh},
			cases:   polyCases,
			judge: sumJudge("geo.ringArea", func(it *Interp, i int, a *fterm) *fterm {
				w := it.absTerm(a)
				if i > 0 {
					w = termAdd(termConst(0), w, -1)
				}
				return w
			}, false, "|outer| minus the holes' |areas|"),
		},
		{
			entry:   "geo.multiPolygonArea",
			desc:    "area = sum of the member polygons' areas",
			terms:   true,
			oracles: map[string]func(*ssa.Function) oracleFunc{"geo.polygonArea": oracleFresh},
			cases:   mpCases,
			judge:   sumJudge("geo.polygonArea", plain, false, "the sum over the members"),
		},
		{
			entry:   "geo.collectionArea",
			desc:    "area = sum of the members' areas",
			terms:   true,
			oracles: map[string]func(*ssa.Function) oracleFunc{"geo.Area": oracleFresh},
			cases:   collCases,
			judge:   sumJudge("geo.Area", plain, true, "the sum over the members"),
		},
	}
}

// ---------------------------------------------------------------------------
// lengths (C10, C18): the sum of the distance function over every segment

// linesOf lists every line of an abstract geometry as point identities.
func linesOf(s *State, kind string, v AV) [][]string {
	line := func(v AV) []string {
		var ids []string
		for _, e := range membersOf(s, v) {
			ids = append(ids, identString(e))
		}
		return ids
	}
	switch kind {
	case "LineString", "Ring":
		return [][]string{line(v)}
	case "MultiLineString", "Polygon":
		var out [][]string
		for _, e := range membersOf(s, v) {
			out = append(out, line(e))
		}
		return out
	case "MultiPolygon":
		var out [][]string
		for _, pg := range membersOf(s, v) {
			out = append(out, linesOf(s, "Polygon", pg)...)
		}
		return out
	case "Collection":
		var out [][]string
		for _, e := range membersOf(s, v) {
			iv, ok := e.(IfaceV)
			if !ok || iv.Nil || iv.Typ == nil {
				continue
			}
			out = append(out, linesOf(s, kindName(iv.Typ), iv.Val)...)
		}
		return out
	case "Bound":
		st, ok := v.(StructV)
		if !ok || len(st.Fields) != 2 {
			return nil
		}
		mn, _ := st.Fields[0].(ArrV)
		mx, _ := st.Fields[1].(ArrV)
		if len(mn.Elems) != 2 || len(mx.Elems) != 2 {
			return nil
		}
		pt := func(x, y AV) string { return identString(ArrV{N: 2, Elems: []AV{x, y}}) }
		a, b := pt(mn.Elems[0], mn.Elems[1]), pt(mx.Elems[0], mn.Elems[1])
		c, d := pt(mx.Elems[0], mx.Elems[1]), pt(mn.Elems[0], mx.Elems[1])
		return [][]string{{a, b, c, d, a}}
	}
	return nil
}

func lengthCases(thorough bool) []*GeomHyp {
	r4 := func() *GeomHyp { return pts("Ring", 4) }
	hs := []*GeomHyp{
		{Kind: "Point"}, pts("MultiPoint", 3),
		pts("LineString", 0), pts("LineString", 1), pts("LineString", 2), pts("LineString", 4),
		of("MultiLineString"), of("MultiLineString", pts("LineString", 3), pts("LineString", 2)),
		pts("Ring", 4), of("Polygon"), of("Polygon", r4()), of("Polygon", r4(), r4(), pts("Ring", 3)),
		of("MultiPolygon", of("Polygon", r4(), r4()), of("Polygon", r4())),
		{Kind: "Bound"},
		of("Collection"),
		of("Collection", pts("LineString", 3), of("Polygon", r4(), r4()), &GeomHyp{Kind: "Point"}, of("Collection", pts("LineString", 2), &GeomHyp{Kind: "Bound"})),
	}
	if thorough {
		hs = append(hs, pts("LineString", 7), of("MultiLineString", pts("LineString", 3), pts("LineString", 0), pts("LineString", 5)),
			of("MultiPolygon", of("Polygon"), of("Polygon", r4(), r4(), r4()), of("Polygon", r4())),
			of("Collection", of("Collection", of("Collection", pts("Ring", 5)))))
	}
	return hs
}

func lengthSpec(entry string, oracleNames []string, withDF string, thorough bool) composeSpec {
	oracles := map[string]func(*ssa.Function) oracleFunc{}
	for _, o := range oracleNames {
		oracles[o] = oracleFresh
	}
	var cases []composeCase
	for _, h := range lengthCases(thorough) {
		h := h
		cases = append(cases, composeCase{h.String(), func(it *Interp, s *State) ([]AV, interface{}) {
			g := it.buildIface(s, h).(IfaceV)
			ctx := &measureCtx{lines: linesOf(s, h.Kind, g.Val), label: h.String()}
			args := []AV{g}
			if withDF != "" {
				args = append(args, FuncV{Fn: it.p.funcByShortKey(withDF)})
			}
			return args, ctx
		}})
	}
	return composeSpec{
		entry:   entry,
		desc:    "length = the distance function summed over every segment (consecutive vertex pair) of every line, ring and polygon boundary, each segment once",
		terms:   true,
		oracles: oracles,
		cases:   cases,
		judge: func(it *Interp, cx interface{}, st *State) string {
			ctx := cx.(*measureCtx)
			want := map[string]int{}
			for _, ln := range ctx.lines {
				for i := 1; i < len(ln); i++ {
					a, b := ln[i-1], ln[i]
					if a > b {
						a, b = b, a
					}
					want[a+"|"+b]++
				}
			}
			got := map[string]int{}
			var outs []*fterm
			names := map[int]string{}
			for _, ev := range st.events {
				if len(ev.Args) != 2 || len(ev.Out) != 1 {
					continue
				}
				if id, ok := atomOf(floatTerm(it, ev.Out[0])); ok {
					names[id] = fmt.Sprintf("d%d", len(outs))
				}
				a, b := identString(ev.Args[0]), identString(ev.Args[1])
				if a > b {
					a, b = b, a
				}
				got[a+"|"+b]++
				outs = append(outs, floatTerm(it, ev.Out[0]))
			}
			var keys []string
			for k := range want {
				keys = append(keys, k)
			}
			for k := range got {
				if _, ok := want[k]; !ok {
					keys = append(keys, k)
				}
			}
			sort.Strings(keys)
			for _, k := range keys {
				if got[k] != want[k] {
					return fmt.Sprintf("the pair of vertices %s is measured %d time(s), want %d", k, got[k], want[k])
				}
			}
			E := sumTerms(outs)
			R := floatTerm(it, st.result[0])
			if R == nil || !termEqual(R, E) {
				return fmt.Sprintf("the returned length is %s but the sum of the measured segments is %s", it.nameTerm(R, names), it.nameTerm(E, names))
			}
			return ""
		},
	}
}

func planarLengthSpecs(thorough bool) []composeSpec {
	return []composeSpec{
		distanceFromSpec(thorough),
		lengthSpec("internal/length.Length", []string{"planar.Distance"}, "planar.Distance", thorough),
		lengthSpec("planar.Length", []string{"planar.Distance"}, "", thorough),
	}
}

func geoLengthSpecs(thorough bool) []composeSpec {
	return []composeSpec{
		lengthSpec("geo.Length", []string{"geo.Distance"}, "", thorough),
		lengthSpec("geo.LengthHaversine", []string{"geo.DistanceHaversine"}, "", thorough),
	}
}

func concatSpecs(fs ...func(bool) []composeSpec) func(bool) []composeSpec {
	return func(th bool) []composeSpec {
		var out []composeSpec
		for _, f := range fs {
			out = append(out, f(th)...)
		}
		return out
	}
}

// ---------------------------------------------------------------------------
// distance-from (C10): the minimum over every boundary segment

func distanceFromSpec(thorough bool) composeSpec {
	var cases []composeCase
	for _, h := range lengthCases(thorough) {
		h := h
		cases = append(cases, composeCase{h.String(), func(it *Interp, s *State) ([]AV, interface{}) {
			g := it.buildIface(s, h).(IfaceV)
			pt := freePointAV(it)
			ctx := &measureCtx{lines: linesOf(s, h.Kind, g.Val), label: identString(pt)}
			// single points measured directly
			var walk func(kind string, v AV)
			walk = func(kind string, v AV) {
				switch kind {
				case "Point":
					ctx.member[identString(v)]++
				case "MultiPoint":
					for _, e := range membersOf(s, v) {
						ctx.member[identString(e)]++
					}
				case "Collection":
					for _, e := range membersOf(s, v) {
						if iv, ok := e.(IfaceV); ok && !iv.Nil && iv.Typ != nil {
							walk(kindName(iv.Typ), iv.Val)
						}
					}
				}
			}
			ctx.member = map[string]int{}
			walk(h.Kind, g.Val)
			return []AV{g, pt}, ctx
		}})
	}
	return composeSpec{
		entry: "planar.DistanceFromWithIndex",
		desc:  "the distance is the smallest of the point-segment distances over every segment of every line, ring and polygon boundary (point-point distances for points), each measured once against the query point; +Inf when there is nothing to measure",
		terms: true,
		oracles: map[string]func(*ssa.Function) oracleFunc{
			"planar.segmentDistanceFromSquared": oracleFresh,
			"planar.DistanceSquared":            oracleFresh,
			"planar.Distance":                   oracleFresh,
		},
		cases: cases,
		judge: func(it *Interp, cx interface{}, st *State) string {
			ctx := cx.(*measureCtx)
			wantSeg := map[string]int{}
			for _, ln := range ctx.lines {
				for i := 1; i < len(ln); i++ {
					a, b := ln[i-1], ln[i]
					if a > b {
						a, b = b, a
					}
					wantSeg[a+"|"+b]++
				}
			}
			gotSeg, gotPt := map[string]int{}, map[string]int{}
			var cand []*fterm     // candidate values, in distance (not squared) space
			node := map[int]int{} // atom of a measured value (squared or not) -> atom of the candidate value
			for _, ev := range st.events {
				name := ShortKey(FuncKey(ev.Fn))
				out := floatTerm(it, ev.Out[0])
				oid, _ := atomOf(out)
				switch name {
				case "planar.segmentDistanceFromSquared":
					if identString(ev.Args[2]) != ctx.label {
						return fmt.Sprintf("the segment distance at %s is not measured against the query point", ev.Pos)
					}
					a, b := identString(ev.Args[0]), identString(ev.Args[1])
					if a > b {
						a, b = b, a
					}
					gotSeg[a+"|"+b]++
					v := it.fnTerm("sqrt", out)
					vid, _ := atomOf(v)
					node[oid], node[vid] = vid, vid
					cand = append(cand, v)
				case "planar.DistanceSquared", "planar.Distance":
					a, b := identString(ev.Args[0]), identString(ev.Args[1])
					other := a
					if a == ctx.label {
						other = b
					} else if b != ctx.label {
						return fmt.Sprintf("the point distance at %s is not measured against the query point", ev.Pos)
					}
					gotPt[other]++
					v := out
					if name == "planar.DistanceSquared" {
						v = it.fnTerm("sqrt", out)
					}
					vid, _ := atomOf(v)
					node[oid], node[vid] = vid, vid
					cand = append(cand, v)
				}
			}
			for k, w := range wantSeg {
				if gotSeg[k] != w {
					return fmt.Sprintf("segment %s is measured %d time(s), want %d", k, gotSeg[k], w)
				}
			}
			for k, g := range gotSeg {
				if wantSeg[k] != g {
					return fmt.Sprintf("the pair %s is measured but is not a segment of the geometry", k)
				}
			}
			for k, w := range ctx.member {
				if gotPt[k] != w {
					return fmt.Sprintf("point %s is measured %d time(s), want %d", k, gotPt[k], w)
				}
			}
			res, _ := st.result[0].(FloatV)
			if len(cand) == 0 {
				if res.Known && res.V > 0 && res.V*2 == res.V {
					return ""
				}
				return "nothing can be measured but the result is not +Inf"
			}
			R := it.termOf(res)
			rid, ok := atomOf(R)
			if !ok {
				return fmt.Sprintf("the result %s is not one of the measured distances", R)
			}
			if _, isCand := node[rid]; !isCand {
				return fmt.Sprintf("the result %s is not one of the measured distances", R)
			}
			rid = node[rid]
			// order facts of the path, in distance space
			le := map[int]map[int]bool{}
			add := func(a, b int) {
				if le[a] == nil {
					le[a] = map[int]bool{}
				}
				le[a][b] = true
			}
			for _, tr := range st.trail {
				f := tr.Fact
				if f == nil {
					continue
				}
				ia, oka := atomOf(f.A)
				ib, okb := atomOf(f.B)
				if !oka || !okb {
					continue
				}
				na, oka := node[ia]
				nb, okb := node[ib]
				if !oka || !okb {
					continue
				}
				switch {
				case f.Op == "<" && f.Taken, f.Op == "<=" && f.Taken, f.Op == ">" && !f.Taken, f.Op == ">=" && !f.Taken:
					add(na, nb)
				case f.Op == "<" && !f.Taken, f.Op == "<=" && !f.Taken, f.Op == ">" && f.Taken, f.Op == ">=" && f.Taken:
					add(nb, na)
				}
			}
			reach := map[int]bool{rid: true}
			work := []int{rid}
			for len(work) > 0 {
				x := work[len(work)-1]
				work = work[:len(work)-1]
				for y := range le[x] {
					if !reach[y] {
						reach[y] = true
						work = append(work, y)
					}
				}
			}
			for _, c := range cand {
				cid, _ := atomOf(c)
				if !reach[cid] {
					return "the comparisons made on this path do not establish that the returned distance is the smallest of the measured ones"
				}
			}
			return ""
		},
	}
}

// ---------------------------------------------------------------------------
// C06: the bound is the tight box of the vertices

type boundCtx struct {
	xs, ys []int // atoms of the coordinates the box must enclose (outer rings only for polygons)
	label  string
	// boxes: operand bounds (minx, miny, maxx, maxy atoms) whose corners count
	// only on paths where the operand is not empty
	boxes [][4]int
	boxAV []AV
}

func boundVertices(it *Interp, s *State, kind string, v AV, ctx *boundCtx) {
	addPoint := func(p AV) {
		a, ok := p.(ArrV)
		if !ok || len(a.Elems) != 2 {
			return
		}
		if id, ok := atomOf(floatTerm(it, a.Elems[0])); ok {
			ctx.xs = append(ctx.xs, id)
		}
		if id, ok := atomOf(floatTerm(it, a.Elems[1])); ok {
			ctx.ys = append(ctx.ys, id)
		}
	}
	switch kind {
	case "Point":
		addPoint(v)
	case "MultiPoint", "LineString", "Ring":
		for _, e := range membersOf(s, v) {
			addPoint(e)
		}
	case "MultiLineString":
		for _, e := range membersOf(s, v) {
			boundVertices(it, s, "LineString", e, ctx)
		}
	case "Polygon":
		if ms := membersOf(s, v); len(ms) > 0 {
			boundVertices(it, s, "Ring", ms[0], ctx)
		}
	case "MultiPolygon":
		for _, e := range membersOf(s, v) {
			boundVertices(it, s, "Polygon", e, ctx)
		}
	case "Collection":
		for _, e := range membersOf(s, v) {
			if iv, ok := e.(IfaceV); ok && !iv.Nil && iv.Typ != nil {
				boundVertices(it, s, kindName(iv.Typ), iv.Val, ctx)
			}
		}
	case "Bound":
		// a bound member counts with its corners only on the paths where it is not empty
		if st, ok := v.(StructV); ok && len(st.Fields) == 2 {
			var ids [4]int
			n := 0
			for i, f := range st.Fields {
				if a, ok := f.(ArrV); ok && len(a.Elems) == 2 {
					for k, e := range a.Elems {
						if id, ok := atomOf(floatTerm(it, e)); ok {
							ids[2*i+k] = id
							n++
						}
					}
				}
			}
			if n == 4 {
				ctx.boxes = append(ctx.boxes, ids)
				ctx.boxAV = append(ctx.boxAV, v)
			}
		}
	}
}

func boundHyps(thorough bool) []*GeomHyp {
	r3 := func() *GeomHyp { return pts("Ring", 3) }
	hs := []*GeomHyp{
		{Kind: "Point"},
		pts("MultiPoint", 0), pts("MultiPoint", 1), pts("MultiPoint", 2), pts("MultiPoint", 3),
		pts("LineString", 0), pts("LineString", 2), pts("Ring", 3),
		of("MultiLineString"), of("MultiLineString", pts("LineString", 2)), of("MultiLineString", pts("LineString", 2), pts("LineString", 1)),
		of("MultiLineString", pts("LineString", 0), pts("LineString", 1)), of("MultiLineString", pts("LineString", 1), pts("LineString", 0)),
		of("Polygon"), of("Polygon", r3()), of("Polygon", pts("Ring", 2), pts("Ring", 2)),
		of("MultiPolygon"), of("MultiPolygon", of("Polygon", pts("Ring", 2)), of("Polygon", pts("Ring", 1))),
		of("MultiPolygon", of("Polygon"), of("Polygon", pts("Ring", 1))),
		of("Collection"), of("Collection", &GeomHyp{Kind: "Point"}, pts("LineString", 1)),
		of("Collection", pts("LineString", 0), &GeomHyp{Kind: "Point"}),
		of("Collection", &GeomHyp{Kind: "Point"}, of("Collection", &GeomHyp{Kind: "Point"})),
	}
	if thorough {
		hs = append(hs, pts("MultiPoint", 4), pts("LineString", 4),
			of("MultiLineString", pts("LineString", 1), pts("LineString", 2)),
			of("MultiPolygon", of("Polygon", pts("Ring", 1), pts("Ring", 2)), of("Polygon", pts("Ring", 2))),
			of("Collection", &GeomHyp{Kind: "Point"}, &GeomHyp{Kind: "Bound"}),
			of("Collection", of("MultiLineString", pts("LineString", 0)), &GeomHyp{Kind: "Point"}))
	}
	return hs
}

func boundSpecs(thorough bool) []composeSpec {
	byKind := map[string][]*GeomHyp{}
	var order []string
	for _, h := range boundHyps(thorough) {
		if _, ok := byKind[h.Kind]; !ok {
			order = append(order, h.Kind)
		}
		byKind[h.Kind] = append(byKind[h.Kind], h)
	}
	judge := func(it *Interp, cx interface{}, st *State) string {
		ctx := cx.(*boundCtx)
		res, ok := st.result[0].(StructV)
		if !ok || len(res.Fields) != 2 {
			return "the result is not a bound"
		}
		mn, _ := res.Fields[0].(ArrV)
		mx, _ := res.Fields[1].(ArrV)
		if len(mn.Elems) != 2 || len(mx.Elems) != 2 {
			return "the result is not a bound"
		}
		g := pathOrder(it, st, nil)
		xs, ys := append([]int(nil), ctx.xs...), append([]int(nil), ctx.ys...)
		knownEmpty := make([]bool, len(ctx.boxes))
		for i, bx := range ctx.boxes {
			for _, sf := range g.strict {
				if sf[0] == bx[2] && sf[1] == bx[0] || sf[0] == bx[3] && sf[1] == bx[1] {
					knownEmpty[i] = true // the path assumed Max < Min on an axis
				}
			}
			if !knownEmpty[i] {
				xs = append(xs, bx[0], bx[2])
				ys = append(ys, bx[1], bx[3])
			}
		}
		if len(ctx.xs) == 0 {
			// an operand returned as it is, every other operand being empty: right whether or not it is empty itself
			for i, b := range ctx.boxAV {
				others := true
				for j := range ctx.boxAV {
					if j != i && !knownEmpty[j] {
						others = false
					}
				}
				if others && contentString(st, st.result[0]) == contentString(st, b) {
					return ""
				}
			}
		}
		ctx = &boundCtx{xs: xs, ys: ys, label: ctx.label}
		if len(ctx.xs) == 0 {
			// no vertex: the box must be empty (Min > Max on an axis)
			for k := 0; k < 2; k++ {
				a, _ := mn.Elems[k].(FloatV)
				b, _ := mx.Elems[k].(FloatV)
				if a.Known && b.Known && a.V > b.V {
					return ""
				}
			}
			return "there is no vertex but the bound is not the empty bound"
		}
		reachFrom := g.reach
		// leaves: the coordinates a (possibly mixed) min/max expression selects from
		var leaves func(id int, out map[int]bool)
		leaves = func(id int, out map[int]bool) {
			if args, ok := it.atomArgs[id]; ok && (it.atomFn[id] == "Min" || it.atomFn[id] == "Max") {
				leaves(args[0], out)
				leaves(args[1], out)
				return
			}
			out[id] = true
		}
		// bounded(id, c, lower): the path establishes id <= c (lower) / id >= c: by its order facts about id
		// itself, or through the lattice reading of min and max (min(a,b) <= c when either is, max(a,b) <= c when
		// both are, and dually)
		reachMemo := map[[2]int]map[int]bool{}
		var bounded func(id, c int, lower bool) bool
		bounded = func(id, c int, lower bool) bool {
			key := [2]int{id, 0}
			if lower {
				key[1] = 1
			}
			r, ok := reachMemo[key]
			if !ok {
				r = reachFrom(id, lower)
				reachMemo[key] = r
			}
			if id == c || r[c] {
				return true
			}
			args, ok := it.atomArgs[id]
			if !ok {
				return false
			}
			switch it.atomFn[id] {
			case "Min":
				if lower {
					return bounded(args[0], c, lower) || bounded(args[1], c, lower)
				}
				return bounded(args[0], c, lower) && bounded(args[1], c, lower)
			case "Max":
				if lower {
					return bounded(args[0], c, lower) && bounded(args[1], c, lower)
				}
				return bounded(args[0], c, lower) || bounded(args[1], c, lower)
			}
			return false
		}
		axis := []string{"x", "y"}
		for k := 0; k < 2; k++ {
			coords := ctx.xs
			if k == 1 {
				coords = ctx.ys
			}
			inSet := map[int]bool{}
			for _, c := range coords {
				inSet[c] = true
			}
			for side, e := range []AV{mn.Elems[k], mx.Elems[k]} {
				name := "Min"
				if side == 1 {
					name = "Max"
				}
				id, ok := atomOf(floatTerm(it, e))
				if !ok {
					return fmt.Sprintf("%s[%d] is %s, not a selection among the vertices' %s coordinates", name, k, avString(e), axis[k])
				}
				sel := map[int]bool{}
				leaves(id, sel)
				for c := range sel {
					if !inSet[c] {
						return fmt.Sprintf("%s[%d] may take a value that is not the %s coordinate of a vertex the bound must enclose (the box is not tight)", name, k, axis[k])
					}
				}
				for _, c := range coords {
					if !bounded(id, c, side == 0) {
						rel := "<="
						if side == 1 {
							rel = ">="
						}
						return fmt.Sprintf("nothing on this path establishes %s[%d] %s every vertex's %s coordinate (a vertex may lie outside the box)", name, k, rel, axis[k])
					}
				}
			}
		}
		return ""
	}
	var specs []composeSpec
	for _, k := range order {
		k := k
		var cases []composeCase
		for _, h := range byKind[k] {
			h := h
			cases = append(cases, composeCase{h.String(), func(it *Interp, s *State) ([]AV, interface{}) {
				v := it.buildGeom(s, h)
				ctx := &boundCtx{label: h.String()}
				boundVertices(it, s, h.Kind, v, ctx)
				return []AV{v}, ctx
			}})
		}
		_ = k
		specs = append(specs, composeSpec{
			entry: "orb.(" + k + ").Bound",
			desc:  "Min/Max of the bound are, on each axis, the smallest/largest coordinate among the vertices (outer rings for polygons): each is selected from those coordinates and is ordered against all of them; the empty bound when there is no vertex",
			terms: true,
			cases: cases,
			judge: judge,
		})
	}
	freeBox := func(it *Interp, ctx *boundCtx) AV {
		b := StructV{Fields: []AV{freePointAV(it), freePointAV(it)}}
		var ids [4]int
		for i, f := range b.Fields {
			for k, e := range f.(ArrV).Elems {
				ids[2*i+k], _ = atomOf(floatTerm(it, e))
			}
		}
		ctx.boxes = append(ctx.boxes, ids)
		ctx.boxAV = append(ctx.boxAV, b)
		return b
	}
	emptyBox := func(it *Interp, s *State) AV {
		for g, cell := range it.globals {
			if g.Name() == "emptyBound" && g.Pkg.Pkg.Path() == orbPath {
				return s.heap[cell]
			}
		}
		return StructV{Fields: []AV{ArrV{N: 2, Elems: []AV{FloatV{Known: true, V: 1}, FloatV{Known: true, V: 1}}}, ArrV{N: 2, Elems: []AV{FloatV{Known: true, V: -1}, FloatV{Known: true, V: -1}}}}}
	}
	lattice := "the result is the tight box of the point/corners of the non-empty operands (an empty operand contributes nothing)"
	specs = append(specs,
		composeSpec{entry: "orb.(Bound).Extend", desc: lattice, terms: true, judge: judge, cases: []composeCase{
			{"any bound, any point", func(it *Interp, s *State) ([]AV, interface{}) {
				ctx := &boundCtx{label: "extend"}
				b := freeBox(it, ctx)
				pt := freePointAV(it)
				boundVertices(it, s, "Point", pt, ctx)
				return []AV{b, pt}, ctx
			}},
			{"the empty bound, any point", func(it *Interp, s *State) ([]AV, interface{}) {
				ctx := &boundCtx{label: "extend-empty"}
				pt := freePointAV(it)
				boundVertices(it, s, "Point", pt, ctx)
				return []AV{emptyBox(it, s), pt}, ctx
			}},
		}},
		composeSpec{entry: "orb.(Bound).Union", desc: lattice, terms: true, judge: judge, cases: []composeCase{
			{"any two bounds", func(it *Interp, s *State) ([]AV, interface{}) {
				ctx := &boundCtx{label: "union"}
				a := freeBox(it, ctx)
				b := freeBox(it, ctx)
				return []AV{a, b}, ctx
			}},
			{"the empty bound with any bound", func(it *Interp, s *State) ([]AV, interface{}) {
				ctx := &boundCtx{label: "union-empty-left"}
				b := freeBox(it, ctx)
				return []AV{emptyBox(it, s), b}, ctx
			}},
			{"any bound with the empty bound", func(it *Interp, s *State) ([]AV, interface{}) {
				ctx := &boundCtx{label: "union-empty-right"}
				a := freeBox(it, ctx)
				return []AV{a, emptyBox(it, s)}, ctx
			}},
		}},
	)
	return specs
}

// boundSpecsOf keeps the Bound() specs of the named kinds: the bound pre-test of a generic entry (clip.Geometry)
// relies on them.
func boundSpecsOf(kinds ...string) func(bool) []composeSpec {
	return func(thorough bool) []composeSpec {
		var out []composeSpec
		for _, sp := range boundSpecs(thorough) {
			for _, k := range kinds {
				if sp.entry == "orb.("+k+").Bound" {
					out = append(out, sp)
				}
			}
		}
		return out
	}
}

// ---------------------------------------------------------------------------
// order facts of a path

type orderGraph struct {
	le     map[int]map[int]bool // a <= b
	strict [][2]int             // a < b assumed on the path
}

func (g *orderGraph) add(a, b int) {
	if g.le[a] == nil {
		g.le[a] = map[int]bool{}
	}
	g.le[a][b] = true
}

// pathOrder collects what the path assumed about the order of float atoms
// (undecided comparisons taken one way or the other) together with the
// definitional facts min(a,b) <= a, b <= max(a,b); node maps an atom to the
// node that stands for it (nil = itself).
func pathOrder(it *Interp, st *State, node func(int) (int, bool)) *orderGraph {
	g := &orderGraph{le: map[int]map[int]bool{}}
	if node == nil {
		node = func(id int) (int, bool) { return id, true }
	}
	for id, args := range it.atomArgs {
		for _, x := range args {
			if it.atomFn[id] == "Min" {
				g.add(id, x)
			} else {
				g.add(x, id)
			}
		}
	}
	for _, tr := range st.trail {
		f := tr.Fact
		if f == nil {
			continue
		}
		ia, oka := atomOf(f.A)
		ib, okb := atomOf(f.B)
		if !oka || !okb {
			continue
		}
		na, oka := node(ia)
		nb, okb := node(ib)
		if !oka || !okb {
			continue
		}
		switch {
		case f.Op == "<" && f.Taken, f.Op == ">=" && !f.Taken:
			g.add(na, nb)
			g.strict = append(g.strict, [2]int{na, nb})
		case f.Op == ">" && f.Taken, f.Op == "<=" && !f.Taken:
			g.add(nb, na)
			g.strict = append(g.strict, [2]int{nb, na})
		case f.Op == "<=" && f.Taken, f.Op == ">" && !f.Taken:
			g.add(na, nb)
		case f.Op == ">=" && f.Taken, f.Op == "<" && !f.Taken:
			g.add(nb, na)
		case f.Op == "==" && f.Taken, f.Op == "!=" && !f.Taken:
			g.add(na, nb)
			g.add(nb, na)
		}
	}
	return g
}

// reach: everything >= src (up) or <= src (!up) by the collected facts.
func (g *orderGraph) reach(src int, up bool) map[int]bool {
	seen := map[int]bool{src: true}
	work := []int{src}
	for len(work) > 0 {
		x := work[len(work)-1]
		work = work[:len(work)-1]
		if up {
			for y := range g.le[x] {
				if !seen[y] {
					seen[y] = true
					work = append(work, y)
				}
			}
		} else {
			for y, m := range g.le {
				if m[x] && !seen[y] {
					seen[y] = true
					work = append(work, y)
				}
			}
		}
	}
	return seen
}

// infeasible: the path assumed a < b although b <= a follows from its other facts.
func (g *orderGraph) infeasible() bool {
	for _, s := range g.strict {
		if g.reach(s[1], true)[s[0]] {
			return true
		}
	}
	return false
}

// ---------------------------------------------------------------------------
// lower-dimensional centroids (C10): length- and count-weighted means

func lowerCentroidSpecs(thorough bool) []composeSpec {
	maxN := 4
	if thorough {
		maxN = 6
	}
	var lineCases, mlsCases, mpCases []composeCase
	for n := 1; n <= maxN; n++ {
		n := n
		lineCases = append(lineCases, composeCase{fmt.Sprintf("%d vertices", n), func(it *Interp, s *State) ([]AV, interface{}) {
			ln := it.buildGeom(s, pts("LineString", n)).(SliceV)
			ctx := &resampleCtx{}
			for _, e := range membersOf(s, ln) {
				ctx.pts = append(ctx.pts, pointTerms(it, e))
			}
			return []AV{ln}, ctx
		}})
		mpCases = append(mpCases, composeCase{fmt.Sprintf("%d points", n), func(it *Interp, s *State) ([]AV, interface{}) {
			mp := it.buildGeom(s, pts("MultiPoint", n)).(SliceV)
			ctx := &resampleCtx{}
			for _, e := range membersOf(s, mp) {
				ctx.pts = append(ctx.pts, pointTerms(it, e))
			}
			return []AV{mp}, ctx
		}})
	}
	for m := 1; m <= 3; m++ {
		m := m
		mlsCases = append(mlsCases, composeCase{fmt.Sprintf("%d lines", m), func(it *Interp, s *State) ([]AV, interface{}) {
			var hs []*GeomHyp
			for i := 0; i < m; i++ {
				hs = append(hs, pts("LineString", 3))
			}
			g := it.buildGeom(s, of("MultiLineString", hs...))
			ctx := &measureCtx{member: map[string]int{}, n: m}
			for i, e := range membersOf(s, g) {
				ctx.member[identString(e)] = i
			}
			return []AV{g}, ctx
		}})
	}
	return []composeSpec{
		{
			entry: "planar.lineStringCentroidDist", terms: true, cases: lineCases,
			desc:    "length = sum of the segment lengths d_i; centroid = sum of segment midpoints weighted by d_i, over the length (a single vertex is its own centroid with length 0)",
			oracles: map[string]func(*ssa.Function) oracleFunc{"planar.Distance": oracleFreshPos},
			judge: func(it *Interp, cx interface{}, st *State) string {
				ctx := cx.(*resampleCtx)
				n := len(ctx.pts)
				evs := eventsOf(st, "planar.Distance")
				if len(evs) != n-1 {
					return fmt.Sprintf("%d segment lengths are measured for %d segments", len(evs), n-1)
				}
				total := termConst(0)
				var num [2]*fterm
				num[0], num[1] = termConst(0), termConst(0)
				for i, ev := range evs {
					// the i-th measurement is of segment i (possibly shifted by a common offset)
					a, b := pointTerms(it, ev.Args[0]), pointTerms(it, ev.Args[1])
					for k := 0; k < 2; k++ {
						if a[k] == nil || b[k] == nil || !termEqual(termAdd(b[k], a[k], -1), termAdd(ctx.pts[i+1][k], ctx.pts[i][k], -1)) {
							return fmt.Sprintf("measurement %d is not of segment %d (its endpoints differ from the line's vertices %d and %d by more than a common shift)", i, i, i, i+1)
						}
					}
					d := floatTerm(it, ev.Out[0])
					total = termAdd(total, d, 1)
					for k := 0; k < 2; k++ {
						mid := termMul(termConstRat(big.NewRat(1, 2)), termAdd(ctx.pts[i][k], ctx.pts[i+1][k], 1))
						num[k] = termAdd(num[k], termMul(mid, d), 1)
					}
				}
				R := floatTerm(it, st.result[1])
				if R == nil || !termEqual(R, total) {
					return fmt.Sprintf("the returned length is %s, the sum of the segment lengths is %s", R, total)
				}
				got := pointTerms(it, st.result[0])
				for k := 0; k < 2; k++ {
					want := ctx.pts[0][k]
					if n > 1 {
						want = termDiv(num[k], total)
					}
					if got[k] == nil || !termEqual(got[k], want) {
						return fmt.Sprintf("centroid coordinate %d is not the length-weighted mean of the segment midpoints", k)
					}
				}
				return ""
			},
		},
		{
			entry: "planar.multiLineStringCentroid", terms: true, cases: mlsCases,
			desc:    "the centroid is the mean of the member lines' centroids weighted by their lengths",
			oracles: map[string]func(*ssa.Function) oracleFunc{"planar.lineStringCentroidDist": oracleFreshPos},
			judge: func(it *Interp, cx interface{}, st *State) string {
				ctx := cx.(*measureCtx)
				evs, why := memberEvents(ctx, eventsOf(st, "planar.lineStringCentroidDist"), seq(ctx.n))
				if why != "" {
					return why
				}
				total := termConst(0)
				num := [2]*fterm{termConst(0), termConst(0)}
				for _, ev := range evs {
					d := floatTerm(it, ev.Out[1])
					c := pointTerms(it, ev.Out[0])
					total = termAdd(total, d, 1)
					for k := 0; k < 2; k++ {
						num[k] = termAdd(num[k], termMul(c[k], d), 1)
					}
				}
				got := pointTerms(it, st.result[0])
				for k := 0; k < 2; k++ {
					if got[k] == nil || !termEqual(got[k], termDiv(num[k], total)) {
						return fmt.Sprintf("centroid coordinate %d is not the length-weighted mean of the members' centroids", k)
					}
				}
				return ""
			},
		},
		{
			entry: "planar.multiPointCentroid", terms: true, cases: mpCases,
			desc: "the centroid is the mean of the points",
			judge: func(it *Interp, cx interface{}, st *State) string {
				ctx := cx.(*resampleCtx)
				got := pointTerms(it, st.result[0])
				for k := 0; k < 2; k++ {
					sum := termConst(0)
					for _, p := range ctx.pts {
						sum = termAdd(sum, p[k], 1)
					}
					want := termMul(termConstRat(big.NewRat(1, int64(len(ctx.pts)))), sum)
					if got[k] == nil || !termEqual(got[k], want) {
						return fmt.Sprintf("centroid coordinate %d is not the mean of the points", k)
					}
				}
				return ""
			},
		},
	}
}

// ---------------------------------------------------------------------------
// shoelace: Ring.Orientation and planar.ringCentroidArea against the cyclic
// polynomial (identities of rational functions over the reals)

type shoelaceCtx struct {
	pts [][2]*fterm
	ids []string
}

// cyclicShoelace: 2A = sum over the implicitly closed ring of x_i*y_{i+1} - x_{i+1}*y_i, and the two
// first-moment sums (x_i + x_{i+1}) * cross_i, (y_i + y_{i+1}) * cross_i.
func cyclicShoelace(pts [][2]*fterm) (twoA, mx, my *fterm) {
	twoA, mx, my = termConst(0), termConst(0), termConst(0)
	n := len(pts)
	for i := 0; i < n; i++ {
		a, b := pts[i], pts[(i+1)%n]
		cr := termAdd(termMul(a[0], b[1]), termMul(b[0], a[1]), -1)
		twoA = termAdd(twoA, cr, 1)
		mx = termAdd(mx, termMul(termAdd(a[0], b[0], 1), cr), 1)
		my = termAdd(my, termMul(termAdd(a[1], b[1], 1), cr), 1)
	}
	return
}

func shoelaceSpecs(which string) func(bool) []composeSpec {
	return func(thorough bool) []composeSpec {
		maxN := 5
		if thorough {
			maxN = 6
		}
		var cases []composeCase
		for n := 0; n <= maxN; n++ {
			for _, closed := range []bool{false, true} {
				if closed && n < 4 {
					continue
				}
				n, closed := n, closed
				lab := fmt.Sprintf("%d vertices", n)
				if closed {
					lab += ", last = first"
				}
				cases = append(cases, composeCase{lab, func(it *Interp, s *State) ([]AV, interface{}) {
					r := it.buildGeom(s, pts("Ring", n)).(SliceV)
					if closed {
						arr := s.heap[r.Arr].(ArrV)
						arr.Elems[n-1] = arr.Elems[0]
						s.heap[r.Arr] = arr
					}
					ctx := &shoelaceCtx{}
					for _, e := range membersOf(s, r) {
						ctx.pts = append(ctx.pts, pointTerms(it, e))
						ctx.ids = append(ctx.ids, identString(e))
					}
					return []AV{r}, ctx
				}})
			}
		}
		if which == "orientation" {
			return []composeSpec{{
				entry: "orb.(Ring).Orientation", terms: true, cases: cases,
				desc: "the orientation is the sign of the shoelace sum over the implicitly closed ring (x_i*y_{i+1} - x_{i+1}*y_i over every consecutive pair and the closing pair): 1 when the path establishes it positive, -1 negative, 0 zero; 0 for fewer than 3 vertices.  Reversal negates that sum, so with Reverse reversing the order (judged beside it) reversing a ring negates its orientation",
				judge: func(it *Interp, cx interface{}, st *State) string {
					ctx := cx.(*shoelaceCtx)
					res, ok := st.result[0].(IntV)
					if !ok || !res.Known {
						return "the orientation returned is not decided on this path"
					}
					v := int64(int8(res.V))
					if len(ctx.pts) < 3 {
						if v != 0 {
							return fmt.Sprintf("fewer than 3 vertices but the orientation is %d", v)
						}
						return ""
					}
					twoA, _, _ := cyclicShoelace(ctx.pts)
					if twoA.isZero() {
						// the closing point makes every term cancel (3 distinct vertices are needed for area)
						if v != 0 {
							return "the shoelace sum is identically zero but the orientation is not 0"
						}
						return ""
					}
					g := pathOrderTerms(it, st)
					zero := termConst(0)
					switch {
					case v == 1 && g.less(zero, twoA), v == -1 && g.less(twoA, zero), v == 0 && g.leq(zero, twoA) && g.leq(twoA, zero):
						return ""
					}
					return fmt.Sprintf("orientation %d is returned, but nothing on this path establishes that sign for the shoelace sum over all %d vertices (a vertex or the closing pair may be left out of the sum)", v, len(ctx.pts))
				},
			}}
		}
		return []composeSpec{{
			entry: "planar.ringCentroidArea", terms: true, cases: cases,
			desc: "the area is half the shoelace sum over the implicitly closed ring, and the centroid is the first-moment sum over 3 times that sum (the area-weighted mean); when the path takes the sum to be zero the area is 0 and the first vertex is returned",
			judge: func(it *Interp, cx interface{}, st *State) string {
				ctx := cx.(*shoelaceCtx)
				if len(st.result) != 2 {
					return "two results are expected"
				}
				area := floatTerm(it, st.result[1])
				if area == nil {
					return "the area returned is not a followed quantity"
				}
				if len(ctx.pts) == 0 {
					if !area.isZero() {
						return "no vertex but the area is not 0"
					}
					return ""
				}
				twoA, mx, my := cyclicShoelace(ctx.pts)
				g := pathOrderTerms(it, st)
				zero := termConst(0)
				if twoA.isZero() || g.leq(zero, twoA) && g.leq(twoA, zero) {
					if !area.isZero() {
						return "the path takes the shoelace sum to be zero but the area returned is not 0"
					}
					if identString(st.result[0]) != ctx.ids[0] {
						return "the shoelace sum is zero on this path but the point returned is not the first vertex"
					}
					return ""
				}
				if !termEqual(termAdd(area, area, 1), twoA) {
					return fmt.Sprintf("the area returned is not half the shoelace sum over all %d vertices and the closing pair", len(ctx.pts))
				}
				c := pointTerms(it, st.result[0])
				three := termConst(3)
				for k, m := range []*fterm{mx, my} {
					if c[k] == nil || !termEqual(termMul(c[k], termMul(three, twoA)), m) {
						return fmt.Sprintf("centroid[%d] is not the area-weighted mean (first-moment sum / (3 * shoelace sum))", k)
					}
				}
				return ""
			},
		}}
	}
}

// ---------------------------------------------------------------------------
// point-segment distance: the clamp of the projection parameter and the three
// formulas, as identities of rational functions

type segDistCtx struct {
	a, b, p [2]*fterm
	same    bool
}

func segmentDistanceSpecs(thorough bool) []composeSpec {
	mkCases := func() []composeCase {
		return []composeCase{
			{"any segment, any point", func(it *Interp, s *State) ([]AV, interface{}) {
				a, b, p := freePointAV(it), freePointAV(it), freePointAV(it)
				return []AV{a, b, p}, &segDistCtx{a: pointTerms(it, a), b: pointTerms(it, b), p: pointTerms(it, p)}
			}},
			{"both ends the same point", func(it *Interp, s *State) ([]AV, interface{}) {
				a, p := freePointAV(it), freePointAV(it)
				return []AV{a, a, p}, &segDistCtx{a: pointTerms(it, a), b: pointTerms(it, a), p: pointTerms(it, p), same: true}
			}},
		}
	}
	sq := func(p, q [2]*fterm) *fterm {
		dx, dy := termAdd(p[0], q[0], -1), termAdd(p[1], q[1], -1)
		return termAdd(termMul(dx, dx), termMul(dy, dy), 1)
	}
	judge := func(it *Interp, cx interface{}, st *State) string {
		ctx := cx.(*segDistCtx)
		res := floatTerm(it, st.result[0])
		if res == nil {
			return "the distance returned is not a followed quantity on this path (a division by a quantity that is zero here?)"
		}
		toA, toB := sq(ctx.p, ctx.a), sq(ctx.p, ctx.b)
		if ctx.same {
			if !termEqual(res, toA) {
				return "the segment has no length, but the result is not the squared distance to its one point"
			}
			return ""
		}
		d := [2]*fterm{termAdd(ctx.b[0], ctx.a[0], -1), termAdd(ctx.b[1], ctx.a[1], -1)}
		dd := termAdd(termMul(d[0], d[0]), termMul(d[1], d[1]), 1)
		dot := termAdd(termMul(termAdd(ctx.p[0], ctx.a[0], -1), d[0]), termMul(termAdd(ctx.p[1], ctx.a[1], -1), d[1]), 1)
		T := termDiv(dot, dd)
		g := pathOrderTerms(it, st)
		zero, one := termConst(0), termConst(1)
		// the path that took both differences to be zero
		if g.leq(d[0], zero) && g.leq(zero, d[0]) && g.leq(d[1], zero) && g.leq(zero, d[1]) {
			if termEqual(res, toA) || termEqual(res, toB) {
				return ""
			}
			return "the path takes the segment to have no length, but the result is not the squared distance to its end"
		}
		if T == nil {
			return "internal: no projection parameter"
		}
		foot := [2]*fterm{termAdd(ctx.a[0], termMul(d[0], T), 1), termAdd(ctx.a[1], termMul(d[1], T), 1)}
		switch {
		case termEqual(res, toB) && g.leq(one, T),
			termEqual(res, toA) && g.leq(T, zero),
			termEqual(res, sq(ctx.p, foot)) && g.leq(zero, T) && g.leq(T, one):
			return ""
		}
		return "the result is not the squared distance to the end the path's comparisons of t = ((p-a).(b-a))/|b-a|^2 select (b when t >= 1, a when t <= 0), nor to the foot a + t(b-a) with 0 <= t <= 1 established"
	}
	desc := "the squared distance from a point to a segment: to end b when the projection parameter t = ((p-a).(b-a))/|b-a|^2 is at least 1, to end a when it is at most 0, otherwise to the foot a + t(b-a); to the one point when the segment has no length"
	two := func() []composeCase {
		return []composeCase{{"any two points", func(it *Interp, s *State) ([]AV, interface{}) {
			a, b := freePointAV(it), freePointAV(it)
			return []AV{a, b}, &segDistCtx{a: pointTerms(it, a), b: pointTerms(it, b)}
		}}}
	}
	return []composeSpec{
		{entry: "planar.segmentDistanceFromSquared", terms: true, cases: mkCases(), desc: desc, judge: judge},
		{entry: "planar.DistanceFromSegmentSquared", terms: true, cases: mkCases(), desc: desc, judge: judge},
		{entry: "planar.DistanceSquared", terms: true, cases: two(), desc: "the sum of the squared coordinate differences",
			judge: func(it *Interp, cx interface{}, st *State) string {
				ctx := cx.(*segDistCtx)
				if res := floatTerm(it, st.result[0]); res == nil || !termEqual(res, sq(ctx.a, ctx.b)) {
					return "the result is not (ax-bx)^2 + (ay-by)^2"
				}
				return ""
			}},
		{entry: "planar.Distance", terms: true, cases: two(), desc: "the square root of the sum of the squared coordinate differences",
			judge: func(it *Interp, cx interface{}, st *State) string {
				ctx := cx.(*segDistCtx)
				res := floatTerm(it, st.result[0])
				id, ok := atomOf(res)
				if !ok || it.atomFn[id] != "sqrt" || !termEqual(it.absOf[id], sq(ctx.a, ctx.b)) {
					return "the result is not sqrt((ax-bx)^2 + (ay-by)^2)"
				}
				return ""
			}},
	}
}
