package main

// Bit-level values.  An unsigned integer may carry, besides its constant /
// linear-symbolic reading, a vector of 64 bit sources: constant 0/1, bit i of
// an unknown input (a literal), its negation, or unknown.  Shifts by constants,
// and/or/xor, widening/narrowing conversions, the +1 of an even value and
// bits.LeadingZeros are exact on such vectors, so the shift-and-mask identities
// of the tile arithmetic (C13) are decided for every value of the unknown bits.

import (
	"fmt"
	"go/token"
	"go/types"
	"strings"
)

const (
	bZero uint8 = iota
	bOne
	bLit
	bNLit
	bTop
)

type bitSrc struct {
	K   uint8
	Sym int32
	Idx uint8
}

type bitVec struct {
	B [64]bitSrc
}

func (b *bitVec) String() string {
	if b == nil {
		return "-"
	}
	var sb strings.Builder
	hi := 63
	for hi > 0 && b.B[hi].K == bZero {
		hi--
	}
	for i := hi; i >= 0; i-- {
		switch s := b.B[i]; s.K {
		case bZero:
			sb.WriteByte('0')
		case bOne:
			sb.WriteByte('1')
		case bLit:
			fmt.Fprintf(&sb, "<%d.%d>", s.Sym, s.Idx)
		case bNLit:
			fmt.Fprintf(&sb, "<!%d.%d>", s.Sym, s.Idx)
		default:
			sb.WriteByte('?')
		}
	}
	return sb.String()
}

func bitsConst(v uint64) *bitVec {
	var r bitVec
	for i := 0; i < 64; i++ {
		if v>>uint(i)&1 == 1 {
			r.B[i].K = bOne
		}
	}
	return &r
}

// bitsLits: bits [0,n) are the bits of unknown sym, the rest zero.
func bitsLits(sym, n int) *bitVec {
	var r bitVec
	for i := 0; i < n && i < 64; i++ {
		r.B[i] = bitSrc{K: bLit, Sym: int32(sym), Idx: uint8(i)}
	}
	return &r
}

func (b *bitVec) constVal() (uint64, bool) {
	var v uint64
	for i := 0; i < 64; i++ {
		switch b.B[i].K {
		case bOne:
			v |= 1 << uint(i)
		case bZero:
		default:
			return 0, false
		}
	}
	return v, true
}

func unsignedWidth(t types.Type) int {
	b, ok := t.Underlying().(*types.Basic)
	if !ok {
		return 0
	}
	switch b.Kind() {
	case types.Uint8:
		return 8
	case types.Uint16:
		return 16
	case types.Uint32:
		return 32
	case types.Uint64, types.Uint, types.Uintptr:
		return 64
	}
	return 0
}

func signedWidth(t types.Type) int {
	b, ok := t.Underlying().(*types.Basic)
	if !ok {
		return 0
	}
	switch b.Kind() {
	case types.Int8:
		return 8
	case types.Int16:
		return 16
	case types.Int32:
		return 32
	case types.Int64, types.Int:
		return 64
	}
	return 0
}

// bitsOfInt: the bit vector of an integer value of an unsigned type, if known.
func bitsOfInt(v IntV) *bitVec {
	if v.Bits != nil {
		return v.Bits
	}
	if v.Known {
		return bitsConst(uint64(v.V))
	}
	return nil
}

func (b *bitVec) mask(w int) *bitVec {
	r := *b
	for i := w; i < 64; i++ {
		r.B[i] = bitSrc{}
	}
	return &r
}

func notBit(s bitSrc) bitSrc {
	switch s.K {
	case bZero:
		return bitSrc{K: bOne}
	case bOne:
		return bitSrc{K: bZero}
	case bLit:
		return bitSrc{K: bNLit, Sym: s.Sym, Idx: s.Idx}
	case bNLit:
		return bitSrc{K: bLit, Sym: s.Sym, Idx: s.Idx}
	}
	return bitSrc{K: bTop}
}

func sameLit(a, b bitSrc) bool { return a.Sym == b.Sym && a.Idx == b.Idx }

func andBit(a, b bitSrc) bitSrc {
	switch {
	case a.K == bZero || b.K == bZero:
		return bitSrc{}
	case a.K == bOne:
		return b
	case b.K == bOne:
		return a
	case a == b && a.K != bTop:
		return a
	case (a.K == bLit && b.K == bNLit || a.K == bNLit && b.K == bLit) && sameLit(a, b):
		return bitSrc{}
	}
	return bitSrc{K: bTop}
}

func orBit(a, b bitSrc) bitSrc { return notBit(andBit(notBit(a), notBit(b))) }

func xorBit(a, b bitSrc) bitSrc {
	switch {
	case a.K == bZero:
		return b
	case b.K == bZero:
		return a
	case a.K == bOne:
		return notBit(b)
	case b.K == bOne:
		return notBit(a)
	case a == b && a.K != bTop:
		return bitSrc{}
	case (a.K == bLit && b.K == bNLit || a.K == bNLit && b.K == bLit) && sameLit(a, b):
		return bitSrc{K: bOne}
	}
	return bitSrc{K: bTop}
}

// bitsArith: the bit vector of a op b in an unsigned type of width w, or nil.
func bitsArith(op token.Token, a, b IntV, w int) *bitVec {
	if w == 0 {
		return nil
	}
	ab, bb := bitsOfInt(a), bitsOfInt(b)
	// * / % by a power of two are a shift or a mask
	pow2 := func(v IntV) (int64, bool) {
		if !v.Known || v.V <= 0 || v.V&(v.V-1) != 0 {
			return 0, false
		}
		k := int64(0)
		for x := v.V; x > 1; x >>= 1 {
			k++
		}
		return k, true
	}
	switch op {
	case token.QUO:
		if k, ok := pow2(b); ok {
			return bitsArith(token.SHR, a, intOf(k), w)
		}
		return nil
	case token.REM:
		if _, ok := pow2(b); ok {
			return bitsArith(token.AND, a, intOf(b.V-1), w)
		}
		return nil
	case token.MUL:
		if k, ok := pow2(b); ok {
			return bitsArith(token.SHL, a, intOf(k), w)
		}
		if k, ok := pow2(a); ok {
			return bitsArith(token.SHL, b, intOf(k), w)
		}
		return nil
	}
	switch op {
	case token.SHL, token.SHR:
		if ab == nil || !b.Known || b.V < 0 {
			return nil
		}
		k := int(b.V)
		var r bitVec
		if k >= 64 {
			return &r
		}
		for i := 0; i < 64; i++ {
			if op == token.SHL {
				if i-k >= 0 {
					r.B[i] = ab.B[i-k]
				}
			} else if i+k < 64 {
				r.B[i] = ab.B[i+k]
			}
		}
		return r.mask(w)
	case token.AND, token.OR, token.XOR, token.AND_NOT:
		if ab == nil || bb == nil {
			// x & const keeps only the bits of the constant even when x is unknown
			if op == token.AND && (ab != nil || bb != nil) {
				kb := ab
				if kb == nil {
					kb = bb
				}
				var r bitVec
				for i := 0; i < 64; i++ {
					if kb.B[i].K != bZero {
						r.B[i] = bitSrc{K: bTop}
					}
				}
				return r.mask(w)
			}
			return nil
		}
		var r bitVec
		for i := 0; i < 64; i++ {
			switch op {
			case token.AND:
				r.B[i] = andBit(ab.B[i], bb.B[i])
			case token.OR:
				r.B[i] = orBit(ab.B[i], bb.B[i])
			case token.XOR:
				r.B[i] = xorBit(ab.B[i], bb.B[i])
			case token.AND_NOT:
				r.B[i] = andBit(ab.B[i], notBit(bb.B[i]))
			}
		}
		return r.mask(w)
	case token.ADD:
		if ab == nil || bb == nil {
			return nil
		}
		var r bitVec
		carry := bitSrc{}
		for i := 0; i < w; i++ {
			x, y := ab.B[i], bb.B[i]
			// sum and carry when at most one of the three is not a constant zero
			zeros := 0
			for _, t := range []bitSrc{x, y, carry} {
				if t.K == bZero {
					zeros++
				}
			}
			switch {
			case zeros >= 2:
				r.B[i] = xorBit(xorBit(x, y), carry)
				carry = bitSrc{}
			case x.K <= bOne && y.K <= bOne && carry.K <= bOne:
				n := int(x.K) + int(y.K) + int(carry.K)
				r.B[i] = bitSrc{K: uint8(n & 1)}
				carry = bitSrc{K: uint8(n >> 1)}
			default:
				for j := i; j < w; j++ {
					r.B[j] = bitSrc{K: bTop}
				}
				return &r
			}
		}
		return &r
	}
	return nil
}

// bitsEqual: (equal, decided)
func bitsEqual(a, b *bitVec) (bool, bool) {
	same := true
	for i := 0; i < 64; i++ {
		x, y := a.B[i], b.B[i]
		if x == y && x.K != bTop {
			continue
		}
		same = false
		if x.K <= bOne && y.K <= bOne && x.K != y.K {
			return false, true
		}
		if (x.K == bLit && y.K == bNLit || x.K == bNLit && y.K == bLit) && sameLit(x, y) {
			return false, true
		}
	}
	return same, same
}

// leadingZeros of the low w bits: exact when a constant one is met before any unknown bit.
func (b *bitVec) leadingZeros(w int) (int, bool) {
	for i := w - 1; i >= 0; i-- {
		switch b.B[i].K {
		case bZero:
		case bOne:
			return w - 1 - i, true
		default:
			return 0, false
		}
	}
	return w, true
}

// litsOf: the vector is exactly bits [0,n) of one unknown and zero above.
func (b *bitVec) litsOf() (sym, n int, ok bool) {
	if b.B[0].K != bLit {
		return 0, 0, false
	}
	sym = int(b.B[0].Sym)
	for n < 64 && b.B[n].K == bLit && int(b.B[n].Sym) == sym && int(b.B[n].Idx) == n {
		n++
	}
	for i := n; i < 64; i++ {
		if b.B[i].K != bZero {
			return 0, 0, false
		}
	}
	return sym, n, true
}

// attachBits returns r with the bit vector nb (a constant vector becomes a known value).
func attachBits(r AV, nb *bitVec) AV {
	if nb == nil {
		return r
	}
	if v, ok := nb.constVal(); ok {
		return intOf(int64(v))
	}
	if ri, ok := r.(IntV); ok && !ri.Known {
		ri.Bits = nb
		if sym, _, ok := nb.litsOf(); ok && ri.Sym != sym {
			// all bits of one unknown: the value is that unknown again
			ri.Sym, ri.A, ri.B = sym, 1, 0
		}
		return ri
	}
	return r
}
