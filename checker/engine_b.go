package main

// Engine B — object-flow effects.
//
// A field-sensitive, flow-insensitive, inclusion-based points-to analysis over
// the SSA of the functions reachable from one entry point.  It answers two
// questions: which abstract objects can a store write to (B1: no-write), and
// which abstract objects can the result reference (B2: fresh-result).
//
// Abstract objects: Input (everything reachable from the designated entry
// parameters, one collapsed object closed under load), CallerBuf (a parameter
// the contract lets the callee write), one object per allocation site
// (new/make/composite literal/append growth/closure), one per package-level
// variable, and Unknown for results of unmodelled library calls.  Values of
// pointer-free types (orb.Point, orb.Bound, numbers, strings) carry no
// references — that is what makes `case Point: return g` fresh.

import (
	"fmt"
	"go/token"
	"go/types"
	"sort"
	"strings"

	"golang.org/x/tools/go/ssa"
)

type objKind int

const (
	oInput objKind = iota
	oCallerBuf
	oAlloc
	oGlobal
	oUnknown
	oFunc
	oUser // caller-supplied opaque values (function values, Pointer implementations)
)

type Obj struct {
	id        int
	kind      objKind
	label     string
	typ       types.Type    // type of the allocated variable (for method resolution)
	fn        *ssa.Function // oFunc / closures
	site      ssa.Instruction
	collapsed bool
}

func (o *Obj) String() string { return o.label }

type Loc struct {
	o    *Obj
	path string
}

type locset map[Loc]bool

func (s locset) addAll(src locset) bool {
	ch := false
	for l := range src {
		if !s[l] {
			s[l] = true
			ch = true
		}
	}
	return ch
}

type writeEvent struct {
	in   ssa.Instruction
	fn   *ssa.Function
	loc  Loc
	what string
}

type paramRole int

const (
	roleNone paramRole = iota
	roleInput
	roleCallerBuf
	roleUser
	roleOwn // an object of the callee's own (encoder state, writer): writable
)

type EngineB struct {
	kindInfo                        *kindInfo
	kindFlow                        map[*ssa.Function]*kfunc
	p                               *Program
	entry                           *ssa.Function
	pts                             map[ssa.Value]locset
	contents                        map[Loc]locset
	rets                            map[*ssa.Function][]locset
	objs                            map[string]*Obj
	nobj                            int
	reach                           []*ssa.Function
	inReach                         map[*ssa.Function]bool
	writes                          map[string]*writeEvent
	escapes                         map[string]string // instr key -> description (Input passed to unknown code)
	globalsRead                     map[string]ssa.Instruction
	input, callerBuf, unknown, user *Obj
	assumptions                     map[string]bool
	changed                         bool
	fvals                           []*ssa.Function
	methodsByName                   map[string][]*ssa.Function
}

func NewEngineB(p *Program, entry *ssa.Function, roles map[int]paramRole) *EngineB {
	e := &EngineB{p: p, entry: entry, pts: map[ssa.Value]locset{}, contents: map[Loc]locset{},
		rets: map[*ssa.Function][]locset{}, objs: map[string]*Obj{}, inReach: map[*ssa.Function]bool{},
		writes: map[string]*writeEvent{}, escapes: map[string]string{}, globalsRead: map[string]ssa.Instruction{},
		assumptions: map[string]bool{}, methodsByName: map[string][]*ssa.Function{}}
	e.input = e.obj("Input", oInput, nil, nil)
	e.input.collapsed = true
	e.callerBuf = e.obj("CallerBuf", oCallerBuf, nil, nil)
	e.callerBuf.collapsed = true
	e.unknown = e.obj("Unknown", oUnknown, nil, nil)
	e.unknown.collapsed = true
	e.user = e.obj("User", oUser, nil, nil)
	e.user.collapsed = true
	// Input is closed under load; CallerBuf holds user values
	e.contents[Loc{e.input, ""}] = locset{Loc{e.input, ""}: true}
	e.contents[Loc{e.callerBuf, ""}] = locset{Loc{e.user, ""}: true}
	e.contents[Loc{e.unknown, ""}] = locset{Loc{e.unknown, ""}: true}
	e.contents[Loc{e.user, ""}] = locset{Loc{e.user, ""}: true}
	for _, f := range p.Funcs() {
		if f.Signature.Recv() != nil {
			e.methodsByName[f.Name()] = append(e.methodsByName[f.Name()], f)
		}
	}
	for i, par := range entry.Params {
		switch roles[i] {
		case roleInput:
			e.set(par, Loc{e.input, ""})
		case roleCallerBuf:
			e.set(par, Loc{e.callerBuf, ""})
		case roleUser:
			e.set(par, Loc{e.user, ""})
		case roleOwn:
			o := e.obj("Param:"+par.Name(), oAlloc, nil, nil)
			o.collapsed = true
			e.contents[Loc{o, ""}] = locset{Loc{o, ""}: true}
			e.set(par, Loc{o, ""})
		}
	}
	e.addFunc(entry)
	return e
}

func (e *EngineB) obj(label string, k objKind, t types.Type, site ssa.Instruction) *Obj {
	if o, ok := e.objs[label]; ok {
		return o
	}
	e.nobj++
	o := &Obj{id: e.nobj, kind: k, label: label, typ: t, site: site}
	e.objs[label] = o
	return o
}

func (e *EngineB) addFunc(f *ssa.Function) {
	if f == nil || e.inReach[f] || len(f.Blocks) == 0 {
		return
	}
	e.inReach[f] = true
	e.reach = append(e.reach, f)
	e.changed = true
}

// mayPoint: can a value of type t hold a reference to mutable memory?
func mayPoint(t types.Type) bool {
	return mayPointRec(t, 0)
}

func mayPointRec(t types.Type, d int) bool {
	if d > 6 {
		return true
	}
	switch u := t.Underlying().(type) {
	case *types.Basic:
		return u.Kind() == types.UnsafePointer
	case *types.Array:
		return mayPointRec(u.Elem(), d+1)
	case *types.Struct:
		for i := 0; i < u.NumFields(); i++ {
			if mayPointRec(u.Field(i).Type(), d+1) {
				return true
			}
		}
		return false
	case *types.Tuple:
		for i := 0; i < u.Len(); i++ {
			if mayPointRec(u.At(i).Type(), d+1) {
				return true
			}
		}
		return false
	}
	return true
}

func isAggregate(t types.Type) bool {
	switch t.Underlying().(type) {
	case *types.Struct, *types.Array, *types.Tuple:
		return true
	}
	return false
}

func (e *EngineB) get(v ssa.Value) locset {
	switch x := v.(type) {
	case *ssa.Global:
		o := e.obj("Global:"+x.Pkg.Pkg.Path()+"."+x.Name(), oGlobal, x.Type(), nil)
		if !o.collapsed {
			// a package-level variable and everything it references is one shared object
			o.collapsed = true
			e.contents[Loc{o, ""}] = locset{Loc{o, ""}: true}
		}
		return locset{Loc{o, ""}: true}
	case *ssa.Function:
		o := e.obj("Func:"+FuncKey(x), oFunc, nil, nil)
		o.fn = x
		e.addFunc(x)
		return locset{Loc{o, ""}: true}
	case *ssa.Const:
		return nil
	}
	return e.pts[v]
}

func (e *EngineB) set(v ssa.Value, ls ...Loc) {
	if !mayPoint(v.Type()) {
		return
	}
	s := e.pts[v]
	if s == nil {
		s = locset{}
		e.pts[v] = s
	}
	for _, l := range ls {
		if !s[l] {
			s[l] = true
			e.changed = true
		}
	}
}

func (e *EngineB) flow(dst ssa.Value, src locset) {
	if len(src) == 0 || !mayPoint(dst.Type()) {
		return
	}
	s := e.pts[dst]
	if s == nil {
		s = locset{}
		e.pts[dst] = s
	}
	if s.addAll(src) {
		e.changed = true
	}
}

// load reads the references stored at loc (and, for aggregates, below it).
func (e *EngineB) load(l Loc, aggregate bool) locset {
	if l.o.collapsed {
		return e.contents[Loc{l.o, ""}]
	}
	out := locset{}
	for k, v := range e.contents {
		if k.o != l.o {
			continue
		}
		if k.path == l.path || strings.HasPrefix(l.path, k.path) && pathBoundary(l.path, len(k.path)) ||
			aggregate && strings.HasPrefix(k.path, l.path) && pathBoundary(k.path, len(l.path)) {
			out.addAll(v)
		}
	}
	return out
}

func pathBoundary(p string, n int) bool {
	return n == len(p) || p[n] == '.' || p[n] == '['
}

func (e *EngineB) store(l Loc, vals locset) {
	if l.o.collapsed {
		if l.o.kind == oInput || l.o.kind == oUnknown || l.o.kind == oUser {
			return // already closed
		}
		if l.o.kind == oGlobal {
			// keep what is stored: the global may now reference it
		}
		l = Loc{l.o, ""}
	}
	if len(vals) == 0 {
		return
	}
	s := e.contents[l]
	if s == nil {
		s = locset{}
		e.contents[l] = s
	}
	if s.addAll(vals) {
		e.changed = true
	}
}

func (e *EngineB) recordWrite(in ssa.Instruction, l Loc, what string) {
	k := fmt.Sprintf("%p/%d/%s", in, l.o.id, l.path)
	if _, ok := e.writes[k]; !ok {
		e.writes[k] = &writeEvent{in: in, fn: in.Parent(), loc: l, what: what}
	}
}

func (e *EngineB) sub(ls locset, suffix string) locset {
	out := locset{}
	for l := range ls {
		if l.o.collapsed {
			out[Loc{l.o, ""}] = true
		} else {
			out[Loc{l.o, l.path + suffix}] = true
		}
	}
	return out
}

// Solve runs the constraint iteration to a fixpoint.
func (e *EngineB) Solve() {
	for iter := 0; iter < 200; iter++ {
		e.changed = false
		for i := 0; i < len(e.reach); i++ {
			e.doFunc(e.reach[i])
		}
		if !e.changed {
			return
		}
	}
}

func (e *EngineB) doFunc(f *ssa.Function) {
	for _, b := range f.Blocks {
		for _, in := range b.Instrs {
			e.doInstr(f, in)
		}
	}
}

func (e *EngineB) allocObj(in ssa.Instruction, kind string, t types.Type) *Obj {
	label := fmt.Sprintf("%s:%s@%s", kind, ShortKey(FuncKey(in.Parent())), e.p.InstrPos(in))
	return e.obj(label, oAlloc, t, in)
}

func (e *EngineB) doInstr(f *ssa.Function, in ssa.Instruction) {
	switch x := in.(type) {
	case *ssa.Alloc:
		o := e.allocObj(x, "alloc", x.Type().Underlying().(*types.Pointer).Elem())
		e.set(x, Loc{o, ""})
	case *ssa.MakeSlice:
		o := e.allocObj(x, "makeslice", x.Type())
		e.set(x, Loc{o, ""})
	case *ssa.MakeMap:
		o := e.allocObj(x, "makemap", x.Type())
		e.set(x, Loc{o, ""})
	case *ssa.MakeChan:
		o := e.allocObj(x, "makechan", x.Type())
		e.set(x, Loc{o, ""})
	case *ssa.MakeClosure:
		o := e.allocObj(x, "closure", x.Type())
		o.fn = x.Fn.(*ssa.Function)
		e.addFunc(o.fn)
		e.set(x, Loc{o, ""})
		for i, b := range x.Bindings {
			e.store(Loc{o, fmt.Sprintf(".fv%d", i)}, e.get(b))
			// bind directly to the free variable of the closure body
			if i < len(o.fn.FreeVars) {
				e.flow(o.fn.FreeVars[i], e.get(b))
			}
		}
	case *ssa.FieldAddr:
		e.flow(x, e.sub(e.get(x.X), fmt.Sprintf(".%d", x.Field)))
	case *ssa.IndexAddr:
		e.flow(x, e.sub(e.get(x.X), "[]"))
	case *ssa.Field:
		// struct value: field-insensitive blob
		e.flow(x, e.get(x.X))
	case *ssa.Index:
		e.flow(x, e.get(x.X))
	case *ssa.UnOp:
		switch x.Op {
		case token.MUL:
			agg := isAggregate(x.Type())
			for l := range e.get(x.X) {
				if l.o.kind == oGlobal {
					e.globalsRead[l.o.label] = x
				}
				e.flow(x, e.load(l, agg))
			}
		case token.ARROW:
			for l := range e.get(x.X) {
				e.flow(x, e.load(l, true))
			}
		default:
			e.flow(x, e.get(x.X))
		}
	case *ssa.Store:
		vals := e.get(x.Val)
		for l := range e.get(x.Addr) {
			e.recordWrite(x, l, "store")
			e.store(l, vals)
		}
	case *ssa.MapUpdate:
		vals := locset{}
		vals.addAll(e.get(x.Key))
		vals.addAll(e.get(x.Value))
		for l := range e.get(x.Map) {
			e.recordWrite(x, l, "map update")
			e.store(Loc{l.o, l.path + "[]"}, vals)
		}
	case *ssa.Lookup:
		for l := range e.get(x.X) {
			e.flow(x, e.load(Loc{l.o, l.path + "[]"}, true))
		}
	case *ssa.Send:
		for l := range e.get(x.Chan) {
			e.store(l, e.get(x.X))
		}
	case *ssa.Phi:
		for _, ed := range x.Edges {
			e.flow(x, e.get(ed))
		}
	case *ssa.ChangeType:
		e.flow(x, e.get(x.X))
	case *ssa.Convert:
		// []byte(string) / string([]byte) allocate; other conversions are numeric
		if _, isSlice := x.Type().Underlying().(*types.Slice); isSlice {
			o := e.allocObj(x, "convert", x.Type())
			e.set(x, Loc{o, ""})
		}
	case *ssa.ChangeInterface:
		e.flow(x, e.get(x.X))
	case *ssa.SliceToArrayPointer:
		e.flow(x, e.get(x.X))
	case *ssa.MakeInterface:
		e.flow(x, e.get(x.X))
	case *ssa.TypeAssert:
		e.flow(x, e.get(x.X))
	case *ssa.Extract:
		if call, ok := x.Tuple.(*ssa.Call); ok {
			for _, callee := range e.callees(call) {
				if rs := e.rets[callee]; x.Index < len(rs) {
					e.flow(x, rs[x.Index])
				}
			}
			// library results
			e.flow(x, e.get(x.Tuple))
		} else {
			e.flow(x, e.get(x.Tuple))
		}
	case *ssa.Slice:
		e.flow(x, e.get(x.X))
	case *ssa.Range:
		e.flow(x, e.get(x.X))
	case *ssa.Next:
		for l := range e.get(x.Iter) {
			e.flow(x, e.load(Loc{l.o, l.path + "[]"}, true))
		}
	case *ssa.Select:
		for _, st := range x.States {
			for l := range e.get(st.Chan) {
				e.flow(x, e.load(l, true))
			}
		}
	case *ssa.BinOp:
		// no references
	case *ssa.Return:
		rs := e.rets[f]
		for len(rs) < len(x.Results) {
			rs = append(rs, locset{})
		}
		for i, r := range x.Results {
			if knownNilAt(r, x.Block()) {
				continue // `if p == nil { return p }` returns nil, not the argument
			}
			if e.pointerFreeKindsAt(f, r, x.Block()) {
				continue // a geometry interface that can only hold a Point or a Bound here: a value, no memory to share
			}
			if mayPoint(r.Type()) && rs[i].addAll(e.get(r)) {
				e.changed = true
			}
		}
		e.rets[f] = rs
	case *ssa.Call:
		e.doCall(f, x, x)
	case *ssa.Defer:
		e.doCall(f, x, nil)
	case *ssa.Go:
		e.doCall(f, x, nil)
	}
}

// knownNilAt: block b is only reached when v == nil held (b is dominated by
// the nil edge of a comparison of v with nil).
func knownNilAt(v ssa.Value, b *ssa.BasicBlock) bool {
	refs := v.Referrers()
	if refs == nil {
		return false
	}
	for _, r := range *refs {
		bo, ok := r.(*ssa.BinOp)
		if !ok || (bo.Op != token.EQL && bo.Op != token.NEQ) {
			continue
		}
		other := bo.Y
		if other == v {
			other = bo.X
		}
		if c, ok := other.(*ssa.Const); !ok || !c.IsNil() {
			continue
		}
		for _, u := range *bo.Referrers() {
			ifi, ok := u.(*ssa.If)
			if !ok {
				continue
			}
			idx := 0
			if bo.Op == token.NEQ {
				idx = 1
			}
			succ := ifi.Block().Succs[idx]
			if len(succ.Preds) == 1 && succ.Dominates(b) {
				return true
			}
		}
	}
	return false
}

// callees resolves the possible targets of a call with bodies in the module.
func (e *EngineB) callees(call ssa.CallInstruction) []*ssa.Function {
	cc := call.Common()
	if callee := cc.StaticCallee(); callee != nil {
		if len(callee.Blocks) > 0 {
			return []*ssa.Function{callee}
		}
		return nil
	}
	var out []*ssa.Function
	seen := map[*ssa.Function]bool{}
	add := func(f *ssa.Function) {
		if f != nil && len(f.Blocks) > 0 && !seen[f] {
			seen[f] = true
			out = append(out, f)
		}
	}
	if cc.IsInvoke() {
		// dynamic dispatch on the objects the receiver may be; for Input /
		// Unknown receivers fall back to every module method of that name
		// whose receiver implements the interface.
		iface := cc.Value.Type().Underlying().(*types.Interface)
		needCHA := false
		for l := range e.get(cc.Value) {
			if l.o.kind == oAlloc && l.o.typ != nil && !l.o.collapsed {
				if fn := e.lookupMethod(l.o.typ, cc.Method); fn != nil {
					add(fn)
					continue
				}
			}
			if l.o.kind == oUser {
				continue // caller-supplied implementation: assumed pure
			}
			needCHA = true
		}
		if len(e.get(cc.Value)) == 0 {
			needCHA = true // value of pointer-free dynamic type (Point, Bound) or nil
		}
		if needCHA {
			for _, m := range e.methodsByName[cc.Method.Name()] {
				rt := m.Signature.Recv().Type()
				if types.Implements(rt, iface) {
					add(m)
				}
			}
		}
		return out
	}
	for l := range e.get(cc.Value) {
		if l.o.fn != nil {
			add(l.o.fn)
		}
	}
	// a value of a func type declared in the module (clip.Option, orb.Projection, ...) that comes
	// from the caller: any address-taken module function of that signature may be behind it
	if nt, ok := cc.Value.Type().(*types.Named); ok && nt.Obj().Pkg() != nil && e.p.SSA[nt.Obj().Pkg().Path()] != nil {
		if sig, ok := nt.Underlying().(*types.Signature); ok {
			for _, f := range e.funcValues() {
				if types.Identical(f.Signature, sig) || sameShape(f.Signature, sig) {
					add(f)
				}
			}
		}
	}
	return out
}

func sameShape(a, b *types.Signature) bool {
	if a.Params().Len() != b.Params().Len() || a.Results().Len() != b.Results().Len() || a.Recv() != nil {
		return false
	}
	for i := 0; i < a.Params().Len(); i++ {
		if !types.Identical(a.Params().At(i).Type(), b.Params().At(i).Type()) {
			return false
		}
	}
	for i := 0; i < a.Results().Len(); i++ {
		if !types.Identical(a.Results().At(i).Type(), b.Results().At(i).Type()) {
			return false
		}
	}
	return true
}

// funcValues: module functions and closures that are used as values somewhere.
func (e *EngineB) funcValues() []*ssa.Function {
	if e.fvals != nil {
		return e.fvals
	}
	seen := map[*ssa.Function]bool{}
	for _, fn := range e.p.Funcs() {
		for _, b := range fn.Blocks {
			for _, in := range b.Instrs {
				if mc, ok := in.(*ssa.MakeClosure); ok {
					if f, ok := mc.Fn.(*ssa.Function); ok && !seen[f] {
						seen[f] = true
						e.fvals = append(e.fvals, f)
					}
				}
				for _, op := range in.Operands(nil) {
					f, ok := (*op).(*ssa.Function)
					if !ok || seen[f] || len(f.Blocks) == 0 {
						continue
					}
					if call, isCall := in.(ssa.CallInstruction); isCall && call.Common().Value == f {
						continue
					}
					seen[f] = true
					e.fvals = append(e.fvals, f)
				}
			}
		}
	}
	if e.fvals == nil {
		e.fvals = []*ssa.Function{}
	}
	return e.fvals
}

func (e *EngineB) lookupMethod(t types.Type, m *types.Func) *ssa.Function {
	for _, tt := range []types.Type{t, types.NewPointer(t)} {
		sel := e.p.Prog.MethodSets.MethodSet(tt).Lookup(m.Pkg(), m.Name())
		if sel != nil {
			if fn := e.p.Prog.MethodValue(sel); fn != nil {
				return fn
			}
		}
	}
	return nil
}

func (e *EngineB) doCall(f *ssa.Function, call ssa.CallInstruction, res *ssa.Call) {
	cc := call.Common()
	if b, ok := cc.Value.(*ssa.Builtin); ok {
		e.doBuiltin(call, b, res)
		return
	}
	targets := e.callees(call)
	for _, callee := range targets {
		e.addFunc(callee)
		args := cc.Args
		params := callee.Params
		if cc.IsInvoke() {
			// receiver is Params[0]
			if len(params) > 0 {
				e.flow(params[0], e.get(cc.Value))
			}
			params = params[1:]
		}
		for i, a := range args {
			if i < len(params) {
				e.flow(params[i], e.get(a))
			}
		}
		// closure free variables
		if !cc.IsInvoke() && cc.StaticCallee() == nil {
			for l := range e.get(cc.Value) {
				if l.o.fn == callee {
					for i, fv := range callee.FreeVars {
						e.flow(fv, e.load(Loc{l.o, fmt.Sprintf(".fv%d", i)}, false))
					}
				}
			}
		}
		if res != nil {
			if rs := e.rets[callee]; len(rs) == 1 {
				e.flow(res, rs[0])
			}
		}
	}
	if len(targets) > 0 {
		return
	}
	e.doExternal(call, res)
}

func (e *EngineB) doBuiltin(call ssa.CallInstruction, b *ssa.Builtin, res *ssa.Call) {
	args := call.Common().Args
	switch b.Name() {
	case "append":
		if res == nil {
			return
		}
		// result: the old backing array (in-place) or a fresh one
		e.flow(res, e.get(args[0]))
		o := e.allocObj(res, "append", res.Type())
		e.set(res, Loc{o, ""})
		if sl, ok := res.Type().Underlying().(*types.Slice); ok && !mayPoint(sl.Elem()) {
			// elements carry no references; only the in-place write matters
			if len(args) > 1 {
				for l := range e.get(args[0]) {
					e.recordWrite(res, Loc{l.o, l.path + "[]"}, "append (in place when capacity allows)")
				}
			}
			return
		}
		elems := locset{}
		for l := range e.get(args[0]) {
			elems.addAll(e.load(Loc{l.o, l.path + "[]"}, true))
		}
		if len(args) > 1 {
			for l := range e.get(args[1]) {
				elems.addAll(e.load(Loc{l.o, l.path + "[]"}, true))
			}
		}
		e.store(Loc{o, "[]"}, elems)
		if len(args) > 1 {
			for l := range e.get(args[0]) {
				e.recordWrite(res, Loc{l.o, l.path + "[]"}, "append (in place when capacity allows)")
				var add locset = locset{}
				for l2 := range e.get(args[1]) {
					add.addAll(e.load(Loc{l2.o, l2.path + "[]"}, true))
				}
				e.store(Loc{l.o, l.path + "[]"}, add)
			}
		}
	case "copy":
		src := locset{}
		if sl, ok := args[0].Type().Underlying().(*types.Slice); !ok || mayPoint(sl.Elem()) {
			for l := range e.get(args[1]) {
				src.addAll(e.load(Loc{l.o, l.path + "[]"}, true))
			}
		}
		for l := range e.get(args[0]) {
			e.recordWrite(call, Loc{l.o, l.path + "[]"}, "copy destination")
			e.store(Loc{l.o, l.path + "[]"}, src)
		}
	case "delete":
		for l := range e.get(args[0]) {
			e.recordWrite(call, l, "map delete")
		}
	}
}

// external call summaries: which arguments a library function may write.
// Everything else is assumed to read its arguments only; results are Unknown
// unless pointer-free.  An unlisted callee that receives a reference to Input
// is reported by B1 as an escape.
var extWrites = map[string][]int{
	"sort.Slice": {0}, "sort.SliceStable": {0}, "sort.Sort": {0}, "sort.Stable": {0}, "sort.Strings": {0}, "sort.Ints": {0}, "sort.Float64s": {0},
	"io.ReadFull": {1}, "io.ReadAtLeast": {1},
	"encoding/json.Unmarshal": {1}, "go.mongodb.org/mongo-driver/bson.Unmarshal": {1},
	"encoding/hex.Decode": {0},
	"fmt.Fprintf":         {0}, "fmt.Fprint": {0}, "fmt.Fprintln": {0},
	"(*bytes.Buffer).Write": {0}, "(*bytes.Buffer).WriteByte": {0}, "(*bytes.Buffer).WriteString": {0}, "(*bytes.Buffer).Reset": {0}, "(*bytes.Buffer).Grow": {0},
	"(encoding/binary.littleEndian).PutUint32": {1}, "(encoding/binary.bigEndian).PutUint32": {1},
	"(encoding/binary.littleEndian).PutUint64": {1}, "(encoding/binary.bigEndian).PutUint64": {1},
	"(encoding/binary.littleEndian).PutUint16": {1}, "(encoding/binary.bigEndian).PutUint16": {1},
}

var extReadOnlyPkgs = map[string]bool{
	"math": true, "fmt": true, "errors": true, "strconv": true, "strings": true, "bytes": true, "sort": true,
	"encoding/binary": true, "encoding/json": true, "encoding/hex": true, "io": true, "math/bits": true, "unicode": true,
	"go.mongodb.org/mongo-driver/bson": true, "go.mongodb.org/mongo-driver/bson/bsontype": true,
	"github.com/gogo/protobuf/proto": true, "github.com/paulmach/protoscan": true, "compress/gzip": true, "regexp": true, "reflect": true, "unicode/utf8": true,
}

// interface methods without a module implementation: who may they write?
var extInvokeWrites = map[string][]int{
	"Write": nil, "WriteByte": nil, "Point": nil, "Error": nil, "String": nil, "Read": {0},
	"PutUint32": {0}, "PutUint64": {0}, "PutUint16": {0}, "Uint32": nil, "Uint64": nil, "Uint16": nil,
	"Len": nil, "Less": nil, "Swap": {-1},
}

func extName(cc *ssa.CallCommon) (string, string) {
	if f := cc.StaticCallee(); f != nil {
		pkg := ""
		if f.Pkg != nil {
			pkg = f.Pkg.Pkg.Path()
		} else if f.Object() != nil && f.Object().Pkg() != nil {
			pkg = f.Object().Pkg().Path()
		}
		if recv := f.Signature.Recv(); recv != nil {
			return "(" + recv.Type().String() + ")." + f.Name(), pkg
		}
		return pkg + "." + f.Name(), pkg
	}
	return "", ""
}

func (e *EngineB) doExternal(call ssa.CallInstruction, res *ssa.Call) {
	cc := call.Common()
	args := cc.Args
	var writes []int
	known := false
	name, pkg := extName(cc)
	switch {
	case cc.IsInvoke():
		name = "(interface)." + cc.Method.Name()
		if w, ok := extInvokeWrites[cc.Method.Name()]; ok {
			writes, known = w, true
		}
		// the receiver being a caller-supplied value: assumed pure
		allUser := len(e.get(cc.Value)) > 0
		for l := range e.get(cc.Value) {
			if l.o.kind != oUser && l.o.kind != oInput {
				allUser = false
			}
		}
		if allUser {
			known = true
			e.assumptions["caller-supplied interface values ("+cc.Value.Type().String()+") have pure methods"] = true
		}
	case name != "":
		if w, ok := extWrites[name]; ok {
			writes, known = w, true
		} else if extReadOnlyPkgs[pkg] {
			known = true
		}
	default:
		// call through a function value with no module target: caller-supplied
		known = true
		onlyUser := true
		for l := range e.get(cc.Value) {
			if l.o.kind != oUser {
				onlyUser = false
			}
		}
		if onlyUser {
			e.assumptions["caller-supplied function values are pure"] = true
		}
		name = "(func value)"
	}
	for _, wi := range writes {
		var target ssa.Value
		if wi == -1 {
			target = cc.Value
		} else if cc.IsInvoke() {
			if wi < len(args) {
				target = args[wi]
			}
		} else if wi < len(args) {
			target = args[wi]
		}
		if target == nil {
			continue
		}
		for l := range e.get(target) {
			e.recordWrite(call, Loc{l.o, l.path + "[]"}, "written by "+name)
			e.recordWrite(call, l, "written by "+name)
		}
	}
	if !known {
		for i, a := range args {
			for l := range e.get(a) {
				if l.o.kind == oInput || l.o.kind == oGlobal {
					e.escapes[fmt.Sprintf("%p/%d", call, i)] = fmt.Sprintf("argument %d of %s (unmodelled library call) may reference %s", i, name, l.o.label)
				}
			}
		}
	}
	if res != nil && name == "(*sync.Pool).Get" {
		// what a pool hands out belongs to the pool: it is package-level memory that the next Get may hand to
		// someone else.  Everything loaded from it is that same memory (a collapsed object that contains itself).
		o := e.obj("Pooled:"+e.p.InstrPos(call), oGlobal, res.Type(), call)
		o.collapsed = true
		e.set(res, Loc{o, ""})
		e.store(Loc{o, ""}, locset{Loc{o, ""}: true})
		return
	}
	if res != nil && mayPoint(res.Type()) {
		// result: Unknown, plus whatever the arguments reference (conservative
		// for wrappers like bytes.NewBuffer / append-like helpers)
		e.set(res, Loc{e.unknown, ""})
		for _, a := range args {
			e.flow(res, e.get(a))
		}
		if cc.IsInvoke() {
			e.flow(res, e.get(cc.Value))
		}
	}
}

// --- queries ---------------------------------------------------------------

// Writes returns the write events whose target satisfies pred, sorted.
func (e *EngineB) Writes(pred func(Loc) bool) []*writeEvent {
	var out []*writeEvent
	for _, w := range e.writes {
		if pred(w.loc) {
			out = append(out, w)
		}
	}
	sort.Slice(out, func(i, j int) bool {
		a, b := out[i], out[j]
		if FuncKey(a.fn) != FuncKey(b.fn) {
			return FuncKey(a.fn) < FuncKey(b.fn)
		}
		return e.p.InstrPos(a.in) < e.p.InstrPos(b.in)
	})
	return out
}

// Closure returns every object transitively reachable from the given set.
func (e *EngineB) Closure(start locset) map[*Obj]bool {
	seen := map[*Obj]bool{}
	var work []*Obj
	for l := range start {
		if !seen[l.o] {
			seen[l.o] = true
			work = append(work, l.o)
		}
	}
	for len(work) > 0 {
		o := work[len(work)-1]
		work = work[:len(work)-1]
		for k, v := range e.contents {
			if k.o != o {
				continue
			}
			for l := range v {
				if !seen[l.o] {
					seen[l.o] = true
					work = append(work, l.o)
				}
			}
		}
	}
	return seen
}

// instrOrdinal gives a position-free discriminator for an instruction inside
// its function: the index among instructions of the same Go type.
func instrOrdinal(in ssa.Instruction) string {
	fn := in.Parent()
	n := 0
	for _, b := range fn.Blocks {
		for _, o := range b.Instrs {
			if o == in {
				return fmt.Sprintf("%s#%d", strings.TrimPrefix(fmt.Sprintf("%T", in), "*ssa."), n)
			}
			if fmt.Sprintf("%T", o) == fmt.Sprintf("%T", in) {
				n++
			}
		}
	}
	return "?"
}

// pointerFreeKindsAt: r is a value of the geometry interface type and the
// kind typestate of f shows that only Point, Bound (or nil) can arrive in
// block b.  Such a value references no memory.
func (e *EngineB) pointerFreeKindsAt(f *ssa.Function, r ssa.Value, b *ssa.BasicBlock) bool {
	if !e.p.IsGeometry(r.Type()) {
		return false
	}
	if e.kindInfo == nil {
		e.kindInfo = newKindInfo(e.p)
		e.kindFlow = map[*ssa.Function]*kfunc{}
	}
	ki := e.kindInfo
	kf := e.kindFlow[f]
	if kf == nil {
		kf = &kfunc{fn: f, reach: map[string]kindset{}, storedFields: map[string]bool{}, open: true}
		for _, par := range f.Params {
			if e.p.IsGeometry(par.Type()) {
				kf.reach[kf.key(par)] = ki.all
			}
		}
		ki.analyse(kf)
		e.kindFlow[f] = kf
	}
	if b.Index >= len(kf.in) || kf.in[b.Index] == nil {
		return false
	}
	var pf kindset = ki.nilBit
	for i, n := range ki.names {
		if n == "Point" || n == "Bound" {
			pf |= 1 << uint(i)
		}
	}
	return ki.valueSet(kf, kf.in[b.Index], r)&^pf == 0
}
