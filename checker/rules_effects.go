package main

// Rules on top of engine B.
//
//   B1 no-write:     nothing reachable from the entry writes to memory
//                    reachable from its (designated) parameters or to a
//                    package-level variable, and no reference to that memory
//                    escapes to unmodelled code;
//   B2 fresh-result: the entry's result, and transitively everything the
//                    result references, contains no memory of the input.

import (
	"fmt"
	"go/token"
	"go/types"
	"sort"
	"strings"

	"golang.org/x/tools/go/ssa"
)

type effectEntry struct {
	key   string            // ShortKey of the entry function
	roles map[int]paramRole // explicit roles by parameter index (receiver = 0); others default
}

// defaultRoles: every reference-carrying parameter is caller memory (Input);
// function-typed parameters are caller-supplied code.
func defaultRoles(fn *ssa.Function, explicit map[int]paramRole) map[int]paramRole {
	roles := map[int]paramRole{}
	for i, par := range fn.Params {
		if r, ok := explicit[i]; ok {
			roles[i] = r
			continue
		}
		if !mayPoint(par.Type()) {
			continue
		}
		if _, isFunc := par.Type().Underlying().(*types.Signature); isFunc {
			roles[i] = roleUser
			continue
		}
		roles[i] = roleInput
	}
	return roles
}

func (p *Program) funcByShortKey(k string) *ssa.Function {
	for _, fn := range p.Funcs() {
		if ShortKey(FuncKey(fn)) == k {
			return fn
		}
	}
	return nil
}

func solveEntry(c *Ctx, rule string, ent effectEntry) *EngineB {
	fn := c.P.funcByShortKey(ent.key)
	if fn == nil {
		c.R.Unknown(rule, "entry:"+ent.key, "", "entry function not found in the current tree")
		return nil
	}
	e := NewEngineB(c.P, fn, defaultRoles(fn, ent.roles))
	e.Solve()
	for a := range e.assumptions {
		c.R.Assume(a)
	}
	return e
}

// ruleNoWrite: B1 for each entry.
func ruleNoWrite(label string, entries func(c *Ctx) []effectEntry, floorEntries, floorStores int) ruleFunc {
	return ruleNoWriteOpt(label, entries, floorEntries, floorStores, false)
}

// ruleNoWriteOpt: with ignoreAppend the possible in-place write of append() is not judged (the
// analysis is flow-insensitive: a slice variable that is later re-pointed at caller memory would
// make every earlier append look like a write to it); stores, map updates and copies still are.
func ruleNoWriteOpt(label string, entries func(c *Ctx) []effectEntry, floorEntries, floorStores int, ignoreAppend bool) ruleFunc {
	return func(c *Ctx) {
		c.R.Rule("B1 (" + label + "): inclusion-based field-sensitive points-to over the functions reachable from each entry; every store, map update, copy destination, " +
			"in-place append and writing library call must target a per-call allocation or the caller's result buffer, never memory reachable from the entry's parameters nor a package-level variable; " +
			"no reference to that memory may be handed to unmodelled code")
		ents := entries(c)
		stores := 0
		for _, ent := range ents {
			e := solveEntry(c, "B1-no-write", ent)
			if e == nil {
				continue
			}
			var fnNames []string
			for _, f := range e.reach {
				fnNames = append(fnNames, ShortKey(FuncKey(f)))
			}
			sort.Strings(fnNames)
			c.R.Note("B1-reachable:"+ent.key, fnNames...)
			bad := 0
			for _, w := range e.Writes(func(Loc) bool { return true }) {
				if ignoreAppend && strings.HasPrefix(w.what, "append") {
					continue
				}
				stores++
				cons := fmt.Sprintf("%s->%s#%s", ent.key, ShortKey(FuncKey(w.fn)), instrOrdinal(w.in))
				switch w.loc.o.kind {
				case oInput:
					bad++
					c.R.Bad("B1-no-write", cons, c.P.InstrPos(w.in),
						fmt.Sprintf("%s in %s may write memory reachable from the parameters of %s (%s)", w.what, ShortKey(FuncKey(w.fn)), ent.key, describeLoc(w.loc)))
				case oGlobal:
					bad++
					c.R.Bad("B1-no-write", cons, c.P.InstrPos(w.in),
						fmt.Sprintf("%s in %s writes package-level variable %s (shared by every caller)", w.what, ShortKey(FuncKey(w.fn)), w.loc.o.label))
				case oUnknown:
					c.R.Add("B1-no-write", cons, Unconfirmed, c.P.InstrPos(w.in), w.what+" into memory returned by an unmodelled library call")
				default:
					c.R.OK("B1-no-write", cons, c.P.InstrPos(w.in), fmt.Sprintf("%s targets %s", w.what, describeLoc(w.loc)))
				}
			}
			var esc []string
			for _, d := range e.escapes {
				esc = append(esc, d)
			}
			sort.Strings(esc)
			for i, d := range esc {
				c.R.Bad("B1-escape", fmt.Sprintf("%s#escape%d", ent.key, i), "", d)
			}
			if bad == 0 && len(esc) == 0 {
				c.R.OK("B1-no-write", ent.key, c.P.Pos(e.entry.Pos()), fmt.Sprintf("%d functions reachable, no write to parameter memory or globals", len(e.reach)))
			}
		}
		c.R.Floor("B1-entries", len(ents), floorEntries)
		c.R.Floor("B1-no-write", stores, floorStores)
	}
}

func describeLoc(l Loc) string {
	if l.path == "" {
		return l.o.label
	}
	return l.o.label + l.path
}

// ruleFreshResult: B2 for each entry.
func ruleFreshResult(label string, entries func(c *Ctx) []effectEntry, floor int) ruleFunc {
	return func(c *Ctx) {
		c.R.Rule("B2 (" + label + "): the returned value and everything transitively stored in the allocations it references contain no object of the input (values of pointer-free types are fresh by construction)")
		ents := entries(c)
		for _, ent := range ents {
			e := solveEntry(c, "B2-fresh-result", ent)
			if e == nil {
				continue
			}
			res := locset{}
			for _, rs := range e.rets[e.entry] {
				res.addAll(rs)
			}
			clo := e.Closure(res)
			if clo[e.input] {
				// find which return / store introduces it, for the report
				why := e.explainInput(res)
				c.R.Bad("B2-fresh-result", ent.key, c.P.Pos(e.entry.Pos()),
					"the result of "+ent.key+" may share memory with its argument: "+why)
			} else {
				var objs []string
				for o := range clo {
					objs = append(objs, o.label)
				}
				sort.Strings(objs)
				c.R.OK("B2-fresh-result", ent.key, c.P.Pos(e.entry.Pos()), "result references only "+strings.Join(objs, ", "))
			}
		}
		c.R.Floor("B2-fresh-result", len(ents), floor)
	}
}

// explainInput finds a chain result -> ... -> Input for the report.
func (e *EngineB) explainInput(res locset) string {
	for l := range res {
		if l.o == e.input {
			// which return statement?
			for _, b := range e.entry.Blocks {
				if ret, ok := b.Instrs[len(b.Instrs)-1].(*ssa.Return); ok {
					for _, r := range ret.Results {
						if e.get(r)[Loc{e.input, ""}] {
							return "a return statement returns (part of) the argument itself at " + e.p.InstrPos(ret)
						}
					}
				}
			}
			return "the returned value is (part of) the argument"
		}
	}
	// one level down: an allocation whose contents include Input
	for k, v := range e.contents {
		if k.o.kind != oAlloc {
			continue
		}
		if v[Loc{e.input, ""}] {
			// find the store
			for _, w := range e.writes {
				if w.loc.o == k.o {
					if st, ok := w.in.(*ssa.Store); ok && e.get(st.Val)[Loc{e.input, ""}] {
						return fmt.Sprintf("%s stores a reference to the argument's memory into the result (%s) at %s", ShortKey(FuncKey(w.fn)), k.o.label, e.p.InstrPos(w.in))
					}
					if call, ok := w.in.(*ssa.Call); ok {
						return fmt.Sprintf("%s places a reference to the argument's memory into the result (%s) at %s", ShortKey(FuncKey(w.fn)), k.o.label, e.p.InstrPos(call))
					}
				}
			}
			return "allocation " + k.o.label + " holds a reference to the argument's memory"
		}
	}
	return "(path not reconstructed)"
}

// ruleRejectBeforeWrite: B3.  In the entry function every instruction that may
// write the receiver's memory (directly, or through a callee that does) is
// dominated by the passing edge of the named guard call.
func ruleRejectBeforeWrite(entryKey, guardCallee string) ruleFunc {
	return func(c *Ctx) {
		c.R.Rule("B3: in " + entryKey + " every store to the receiver's memory, and every call that can reach such a store, is dominated by the passing edge of the " + guardCallee + " test: a rejected operation has written nothing")
		e := solveEntry(c, "B3-reject-before-write", effectEntry{key: entryKey})
		if e == nil {
			return
		}
		fn := e.entry
		// functions that write Input, transitively
		writesInput := map[*ssa.Function]bool{}
		for _, w := range e.writes {
			if w.loc.o.kind == oInput {
				writesInput[w.fn] = true
			}
		}
		for changed := true; changed; {
			changed = false
			for _, f := range e.reach {
				if writesInput[f] {
					continue
				}
				for _, b := range f.Blocks {
					for _, in := range b.Instrs {
						if call, ok := in.(ssa.CallInstruction); ok {
							for _, callee := range e.callees(call) {
								if writesInput[callee] && !writesInput[f] {
									writesInput[f] = true
									changed = true
								}
							}
						}
					}
				}
			}
		}
		// guard
		var pass *ssa.BasicBlock
		for _, b := range fn.Blocks {
			ifi, ok := b.Instrs[len(b.Instrs)-1].(*ssa.If)
			if !ok {
				continue
			}
			cond := ifi.Cond
			neg := false
			for {
				u, ok := cond.(*ssa.UnOp)
				if !ok || u.Op != token.NOT {
					break
				}
				neg = !neg
				cond = u.X
			}
			call, ok := cond.(*ssa.Call)
			if !ok {
				continue
			}
			if cal := call.Call.StaticCallee(); cal != nil && ShortKey(FuncKey(cal)) == guardCallee {
				if neg {
					pass = b.Succs[1]
				} else {
					pass = b.Succs[0]
				}
			}
		}
		if pass == nil {
			c.R.Unknown("B3-reject-before-write", entryKey+"#guard", c.P.Pos(fn.Pos()), "the "+guardCallee+" test was not found in "+entryKey)
			return
		}
		n := 0
		for _, b := range fn.Blocks {
			for _, in := range b.Instrs {
				writing := ""
				switch x := in.(type) {
				case *ssa.Store:
					for l := range e.get(x.Addr) {
						if l.o.kind == oInput {
							writing = "store to the receiver's memory"
						}
					}
				case ssa.CallInstruction:
					for _, callee := range e.callees(x) {
						if writesInput[callee] {
							writing = "call to " + ShortKey(FuncKey(callee)) + ", which writes the receiver's memory"
						}
					}
				}
				if writing == "" {
					continue
				}
				n++
				cons := entryKey + "#" + instrOrdinal(in)
				if pass.Dominates(b) {
					c.R.OK("B3-reject-before-write", cons, c.P.InstrPos(in), writing+" happens only after the guard passed")
				} else {
					c.R.Bad("B3-reject-before-write", cons, c.P.InstrPos(in), writing+" is not dominated by the passing edge of "+guardCallee+": a rejected call may already have changed the tree")
				}
			}
		}
		c.R.Floor("B3-reject-before-write", n, 3)
	}
}

// ruleNoGlobalResult: B2g.  The value an encoder returns must not reference
// package-level memory (a pooled or shared buffer): a later call would
// overwrite bytes the caller still holds.
func ruleNoGlobalResult(label string, entries func(c *Ctx) []effectEntry, floor int) ruleFunc {
	return func(c *Ctx) {
		c.R.Rule("B2g (" + label + "): the returned value and everything it references contain no package-level object (shared/pooled buffers): results of successive calls cannot overwrite each other")
		ents := entries(c)
		for _, ent := range ents {
			e := solveEntry(c, "B2g-no-shared-result", ent)
			if e == nil {
				continue
			}
			res := locset{}
			for _, rs := range e.rets[e.entry] {
				res.addAll(rs)
			}
			var globals []string
			for o := range e.Closure(res) {
				if o.kind == oGlobal {
					globals = append(globals, o.label)
				}
			}
			sort.Strings(globals)
			if len(globals) > 0 {
				c.R.Bad("B2g-no-shared-result", ent.key, c.P.Pos(e.entry.Pos()), "the result of "+ent.key+" may reference package-level memory ("+strings.Join(globals, ", ")+"): the next call can overwrite what this call returned")
			} else {
				c.R.OK("B2g-no-shared-result", ent.key, c.P.Pos(e.entry.Pos()), "result references no package-level object")
			}
		}
		c.R.Floor("B2g-no-shared-result", len(ents), floor)
	}
}

// ruleNoGlobalBehindParams: B2p.  What a decoder leaves in the memory of its receiver / destination must not be
// package-level or pooled memory: the next call would overwrite what this call delivered.
func ruleNoGlobalBehindParams(label string, entries func(c *Ctx) []effectEntry, floor int) ruleFunc {
	return func(c *Ctx) {
		c.R.Rule("B2p (" + label + "): after the call, the memory reachable from the receiver and the pointer arguments contains no package-level object and nothing obtained from a sync.Pool: values delivered by successive calls cannot overwrite each other")
		ents := entries(c)
		for _, ent := range ents {
			e := solveEntry(c, "B2p-no-shared-delivery", ent)
			if e == nil {
				continue
			}
			start := locset{}
			for _, par := range e.entry.Params {
				if mayPoint(par.Type()) {
					start.addAll(e.get(par))
				}
			}
			var globals []string
			reach := e.Closure(start)
			for o := range reach {
				if o.kind == oGlobal {
					globals = append(globals, o.label)
				}
			}
			// the caller's memory is closed for the solver (stores into it are not kept as contents): read the
			// stores themselves
			seenG := map[string]bool{}
			for _, w := range e.writes {
				st, ok := w.in.(*ssa.Store)
				if !ok || !(w.loc.o.kind == oInput || reach[w.loc.o]) {
					continue
				}
				for l := range e.get(st.Val) {
					if l.o.kind == oGlobal && !seenG[l.o.label] {
						seenG[l.o.label] = true
						globals = append(globals, l.o.label+" stored at "+c.P.InstrPos(st))
					}
				}
			}
			sort.Strings(globals)
			if len(globals) > 0 {
				c.R.Bad("B2p-no-shared-delivery", ent.key, c.P.Pos(e.entry.Pos()), "what "+ent.key+" stores behind its receiver / arguments may be package-level or pooled memory ("+strings.Join(globals, ", ")+"): a later call can overwrite what this call delivered")
			} else {
				c.R.OK("B2p-no-shared-delivery", ent.key, c.P.Pos(e.entry.Pos()), "nothing package-level or pooled is left behind the receiver / arguments")
			}
		}
		c.R.Floor("B2p-no-shared-delivery", len(ents), floor)
	}
}
