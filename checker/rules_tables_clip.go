package main

// T7 — region-code tables of the box clippers.
//
// Rows (bit, axis, Min|Max, relation) are extracted from the syntax of every
// region-code function (signature (orb.Bound, orb.Point) int, body made of
// comparisons of a point coordinate with a box coordinate guarding `code |= K`)
// and rows (bit, axis, Min|Max) from intersect (tests `edge&K != 0` guarding a
// point literal).  Checked: each function has the four rows axis{0,1} x
// {Min,Max}; the Min side uses "less", the Max side "greater"; the closed
// variant is strict (the boundary is inside), the open variant non-strict (the
// boundary is outside); every function uses the same bit for the same edge;
// intersect returns the box's own edge coordinate, unmodified, in the clipped
// axis.

import (
	"fmt"
	"go/ast"
	"go/token"
	"go/types"
	"sort"
	"strings"

	"golang.org/x/tools/go/packages"
	"golang.org/x/tools/go/ssa"
)

type regionRow struct {
	bit  int64
	axis int64
	side string // "Min" | "Max"
	rel  string // "<", "<=", ">", ">=" (point REL box)
	pos  token.Pos
}

func (r regionRow) edge() string { return fmt.Sprintf("%s[%d]", r.side, r.axis) }

// coordOf recognises p[K] (point parameter) and b.Min[K] / b.Max[K] (bound parameter).
// coordResolve, when set, is the function whose once-defined locals stand for
// their definitions (x, y := p[0], p[1]).
var coordResolve *ast.FuncDecl

func coordOf(pkg *packages.Package, e ast.Expr, pointPar, boundPar types.Object) (kind string, side string, axis int64, ok bool) {
	if coordResolve != nil {
		for k := 0; k < 3; k++ {
			id, isID := ast.Unparen(e).(*ast.Ident)
			if !isID {
				break
			}
			def := singleDef(pkg, coordResolve, id)
			if def == nil {
				break
			}
			e = def
		}
	}
	ie, isIdx := ast.Unparen(e).(*ast.IndexExpr)
	if !isIdx {
		return
	}
	ax, okc := constInt(pkg, ie.Index)
	if !okc {
		return
	}
	switch x := ast.Unparen(ie.X).(type) {
	case *ast.Ident:
		if pointPar != nil && pkg.TypesInfo.Uses[x] == pointPar {
			return "point", "", ax, true
		}
	case *ast.SelectorExpr:
		if id, isID := x.X.(*ast.Ident); isID && boundPar != nil && pkg.TypesInfo.Uses[id] == boundPar && (x.Sel.Name == "Min" || x.Sel.Name == "Max") {
			return "box", x.Sel.Name, ax, true
		}
	}
	return
}

var flipRel = map[token.Token]token.Token{token.LSS: token.GTR, token.GTR: token.LSS, token.LEQ: token.GEQ, token.GEQ: token.LEQ}

// extractRegionRows reads the rows of one region-code function.
func extractRegionRows(pkg *packages.Package, fd *ast.FuncDecl) ([]regionRow, string) {
	if fd.Type.Params == nil {
		return nil, "no parameters"
	}
	var pointPar, boundPar types.Object
	for _, f := range fd.Type.Params.List {
		for _, n := range f.Names {
			obj := pkg.TypesInfo.Defs[n]
			if obj == nil {
				continue
			}
			switch obj.Type().String() {
			case orbPath + ".Point":
				pointPar = obj
			case orbPath + ".Bound":
				boundPar = obj
			}
		}
	}
	coordResolve = fd
	defer func() { coordResolve = nil }()
	if pointPar == nil || boundPar == nil {
		return nil, "not a (Bound, Point) function"
	}
	var rows []regionRow
	problem := ""
	handle := func(cond ast.Expr, body []ast.Stmt, pos token.Pos) {
		be, ok := ast.Unparen(cond).(*ast.BinaryExpr)
		if !ok {
			return
		}
		if _, isCmp := flipRel[be.Op]; !isCmp {
			return
		}
		k1, s1, a1, ok1 := coordOf(pkg, be.X, pointPar, boundPar)
		k2, s2, a2, ok2 := coordOf(pkg, be.Y, pointPar, boundPar)
		if !ok1 || !ok2 || k1 == k2 {
			return
		}
		op := be.Op
		side, axis := s2, a2
		if k1 == "box" { // normalise to point REL box
			op = flipRel[op]
			side, axis = s1, a1
			a1 = a2
		}
		if a1 != axis {
			problem = fmt.Sprintf("compares point coordinate %d with box coordinate %d", a1, axis)
		}
		var bit int64 = -1
		for _, st := range body {
			if as, ok := st.(*ast.AssignStmt); ok && as.Tok == token.OR_ASSIGN && len(as.Rhs) == 1 {
				if v, ok := constInt(pkg, as.Rhs[0]); ok {
					bit = v
				}
			}
			if as, ok := st.(*ast.AssignStmt); ok && (as.Tok == token.ASSIGN || as.Tok == token.ADD_ASSIGN) && len(as.Rhs) == 1 {
				if b2, ok := ast.Unparen(as.Rhs[0]).(*ast.BinaryExpr); ok && (b2.Op == token.OR || b2.Op == token.ADD) {
					if v, ok := constInt(pkg, b2.Y); ok {
						bit = v
					}
				} else if v, ok := constInt(pkg, as.Rhs[0]); ok && as.Tok == token.ADD_ASSIGN {
					bit = v
				}
			}
		}
		if bit < 0 {
			return
		}
		rows = append(rows, regionRow{bit: bit, axis: axis, side: side, rel: op.String(), pos: pos})
	}
	ast.Inspect(fd.Body, func(n ast.Node) bool {
		switch x := n.(type) {
		case *ast.IfStmt:
			handle(x.Cond, x.Body.List, x.Pos())
		case *ast.SwitchStmt:
			if x.Tag == nil {
				for _, cl := range x.Body.List {
					if cc, ok := cl.(*ast.CaseClause); ok && len(cc.List) == 1 {
						handle(cc.List[0], cc.Body, cc.Pos())
					}
				}
			}
		}
		return true
	})
	return rows, problem
}

// extractIntersectRows reads (bit, axis, side, exact) from intersect-like functions:
// `if edge&K != 0 { return orb.Point{..., box.Side[axis]} }`.
type intersectRow struct {
	bit   int64
	axis  int64 // position in the literal holding a bare box coordinate
	side  string
	baxis int64 // axis of that box coordinate
	pos   token.Pos
}

func extractIntersectRows(pkg *packages.Package, fd *ast.FuncDecl) []intersectRow {
	var boundPar types.Object
	for _, f := range fd.Type.Params.List {
		for _, n := range f.Names {
			if obj := pkg.TypesInfo.Defs[n]; obj != nil && obj.Type().String() == orbPath+".Bound" {
				boundPar = obj
			}
		}
	}
	var rows []intersectRow
	ast.Inspect(fd.Body, func(n ast.Node) bool {
		ifs, ok := n.(*ast.IfStmt)
		if !ok {
			return true
		}
		be, ok := ast.Unparen(ifs.Cond).(*ast.BinaryExpr)
		if !ok || be.Op != token.NEQ {
			return true
		}
		and, ok := ast.Unparen(be.X).(*ast.BinaryExpr)
		if !ok || and.Op != token.AND {
			return true
		}
		bit, ok := constInt(pkg, and.Y)
		if !ok {
			return true
		}
		for _, st := range ifs.Body.List {
			rs, ok := st.(*ast.ReturnStmt)
			if !ok || len(rs.Results) != 1 {
				continue
			}
			cl, ok := ast.Unparen(rs.Results[0]).(*ast.CompositeLit)
			if !ok {
				continue
			}
			for i, el := range cl.Elts {
				k, side, ax, ok := coordOf(pkg, el, nil, boundPar)
				if ok && k == "box" {
					rows = append(rows, intersectRow{bit: bit, axis: int64(i), side: side, baxis: ax, pos: ifs.Pos()})
				}
			}
		}
		return true
	})
	return rows
}

func findFuncDecl(p *Program, pkgPath, name string) (*packages.Package, *ast.FuncDecl) {
	pk := p.Pkgs[pkgPath]
	if pk == nil {
		return nil, nil
	}
	for _, f := range pk.Syntax {
		for _, d := range f.Decls {
			if fd, ok := d.(*ast.FuncDecl); ok && fd.Recv == nil && fd.Name.Name == name && fd.Body != nil {
				return pk, fd
			}
		}
	}
	return nil, nil
}

type regionFunc struct {
	pkg, name string
	open      bool
}

func ruleRegionCodes(funcs []regionFunc, withIntersect bool) ruleFunc {
	return func(c *Ctx) {
		p := c.P
		c.R.Rule("T7: region-code rows (bit, axis, Min|Max, relation) extracted from the syntax of bitCode/bitCodeOpen and intersect: four rows per function, Min side 'less' / Max side 'greater', closed variant strict and open variant non-strict, one bit per edge shared by all functions, intersect returns the box's own edge coordinate in the clipped axis")
		ref := map[string]int64{} // edge -> bit (from the first function)
		refName := ""
		for _, rf := range funcs {
			key := ShortKey(orbPath + "/" + rf.pkg + "." + rf.name)
			pk, fd := findFuncDecl(p, orbPath+"/"+rf.pkg, rf.name)
			if fd == nil {
				c.R.Unknown("T7-region-codes", key, "", "region-code function not found")
				continue
			}
			rows, problem := extractRegionRows(pk, fd)
			pos := p.Pos(fd.Pos())
			if problem != "" {
				c.R.Bad("T7-region-codes", key, pos, problem)
				continue
			}
			if len(rows) != 4 {
				c.R.Unknown("T7-region-codes", key, pos, fmt.Sprintf("expected 4 comparison rows, extracted %d: the function no longer has the shape this rule reads", len(rows)))
				continue
			}
			edges := map[string]bool{}
			bits := map[int64]bool{}
			var desc []string
			bad := ""
			for _, r := range rows {
				edges[r.edge()] = true
				bits[r.bit] = true
				desc = append(desc, fmt.Sprintf("bit %d: p[%d] %s b.%s", r.bit, r.axis, r.rel, r.edge()))
				wantLess := r.side == "Min"
				isLess := strings.HasPrefix(r.rel, "<")
				strict := len(r.rel) == 1
				switch {
				case wantLess != isLess:
					bad += fmt.Sprintf(" bit %d tests p[%d] %s b.%s: the %s side must use '%s';", r.bit, r.axis, r.rel, r.edge(), r.side, map[bool]string{true: "<", false: ">"}[wantLess])
				case rf.open && strict:
					bad += fmt.Sprintf(" bit %d: open variant tests p[%d] %s b.%s, a point on that edge would count as inside;", r.bit, r.axis, r.rel, r.edge())
				case !rf.open && !strict:
					bad += fmt.Sprintf(" bit %d: closed variant tests p[%d] %s b.%s, a point on that edge would count as outside;", r.bit, r.axis, r.rel, r.edge())
				}
				if r.bit <= 0 || r.bit&(r.bit-1) != 0 {
					bad += fmt.Sprintf(" bit %d is not a single bit;", r.bit)
				}
				if refName == "" {
					ref[r.edge()] = r.bit
				} else if b, ok := ref[r.edge()]; ok && b != r.bit {
					bad += fmt.Sprintf(" edge %s has bit %d here but bit %d in %s;", r.edge(), r.bit, b, refName)
				}
			}
			if len(edges) != 4 || len(bits) != 4 {
				bad += fmt.Sprintf(" rows do not cover four distinct edges with four distinct bits (%d edges, %d bits);", len(edges), len(bits))
			}
			if refName == "" {
				refName = key
			}
			sort.Strings(desc)
			if bad != "" {
				c.R.Bad("T7-region-codes", key, pos, strings.TrimSpace(bad), desc...)
			} else {
				c.R.OK("T7-region-codes", key, pos, strings.Join(desc, "; "))
			}
		}
		if !withIntersect {
			return
		}
		pk, fd := findFuncDecl(p, orbPath+"/clip", "intersect")
		if fd == nil {
			c.R.Unknown("T7-intersect", "clip.intersect", "", "intersect not found")
			return
		}
		irows := extractIntersectRows(pk, fd)
		if len(irows) != 4 {
			c.R.Unknown("T7-intersect", "clip.intersect", p.Pos(fd.Pos()), fmt.Sprintf("expected 4 edge rows, extracted %d", len(irows)))
			return
		}
		for _, r := range irows {
			cons := fmt.Sprintf("clip.intersect#edge&%d", r.bit)
			edge := fmt.Sprintf("%s[%d]", r.side, r.baxis)
			want, ok := ref[edge]
			switch {
			case r.axis != r.baxis:
				c.R.Bad("T7-intersect", cons, p.Pos(r.pos), fmt.Sprintf("box coordinate %s is placed in coordinate %d of the result", edge, r.axis))
			case !ok || want != r.bit:
				c.R.Bad("T7-intersect", cons, p.Pos(r.pos), fmt.Sprintf("edge bit %d returns box.%s, but the region codes give bit %d to that edge: the clipped vertex is put on the wrong edge", r.bit, edge, want))
			default:
				c.R.OK("T7-intersect", cons, p.Pos(r.pos), fmt.Sprintf("bit %d clips to box.%s, returned unmodified as coordinate %d", r.bit, edge, r.axis))
			}
		}
	}
}

// ruleOpenFlagFlow: in clip.line the open variant of the region code is used
// exactly under the `open` flag, and the flag reaches line from the option.
func ruleOpenFlagFlow(c *Ctx) {
	p := c.P
	c.R.Rule("T7-open-flag: in clip.line every call of the open region code is dominated by the true edge of the open parameter (and the closed one at those sites by the false edge); LineString/MultiLineString pass the option value to that parameter")
	fn := p.funcByShortKey("clip.line")
	if fn == nil {
		c.R.Unknown("T7-open-flag", "clip.line", "", "clip.line not found")
		return
	}
	var openPar *ssa.Parameter
	for _, par := range fn.Params {
		if b, ok := par.Type().Underlying().(*types.Basic); ok && b.Kind() == types.Bool {
			openPar = par
		}
	}
	if openPar == nil {
		c.R.Unknown("T7-open-flag", "clip.line", p.Pos(fn.Pos()), "clip.line has no boolean (open) parameter")
		return
	}
	// uses of the two region codes in f under its boolean parameter par; a
	// module helper that receives par as its own boolean parameter is
	// analysed the same way and each call of it counts for what it does.
	memo := map[*ssa.Function]int{}
	var openUses func(f *ssa.Function, par *ssa.Parameter, depth int) int
	openUses = func(f *ssa.Function, par *ssa.Parameter, depth int) int {
		if n, ok := memo[f]; ok {
			return n
		}
		memo[f] = 0
		name := ShortKey(FuncKey(f))
		var trueBlocks []*ssa.BasicBlock
		for _, b := range f.Blocks {
			if ifi, ok := b.Instrs[len(b.Instrs)-1].(*ssa.If); ok && ifi.Cond == par {
				trueBlocks = append(trueBlocks, b.Succs[0])
			}
		}
		dominatedBy := func(b *ssa.BasicBlock, set []*ssa.BasicBlock) bool {
			for _, d := range set {
				if d.Dominates(b) {
					return true
				}
			}
			return false
		}
		n := 0
		for _, b := range f.Blocks {
			for i, in := range b.Instrs {
				call, ok := in.(*ssa.Call)
				if !ok {
					continue
				}
				callee := call.Call.StaticCallee()
				if callee == nil {
					continue
				}
				switch ShortKey(FuncKey(callee)) {
				case "clip.bitCodeOpen":
					n++
					cons := fmt.Sprintf("%s#bitCodeOpen#%d", name, n)
					if dominatedBy(b, trueBlocks) {
						c.R.OK("T7-open-flag", cons, p.InstrPos(call), "open region code only when the open flag is set")
					} else {
						c.R.Bad("T7-open-flag", cons, p.InstrPos(call), "the open region code is used although the open flag may be false: closed clipping would drop boundary points")
					}
				case "clip.bitCode":
					if dominatedBy(b, trueBlocks) {
						c.R.Bad("T7-open-flag", fmt.Sprintf("%s#bitCode@open#%d", name, i), p.InstrPos(call), "the closed region code is used on the branch taken when the open flag is set")
					}
				default:
					if depth >= 3 || callee.Pkg != f.Pkg || len(callee.Blocks) == 0 {
						continue
					}
					for ai, a := range call.Call.Args {
						if a == par && ai < len(callee.Params) {
							n += openUses(callee, callee.Params[ai], depth+1)
						}
					}
				}
			}
		}
		memo[f] = n
		return n
	}
	nOpen := openUses(fn, openPar, 0)
	if nOpen < 2 {
		c.R.Bad("T7-open-flag", "clip.line#open-variant-uses", p.Pos(fn.Pos()), fmt.Sprintf("the open region code is consulted %d time(s); both the first point and each segment end need it when the open flag is set", nOpen))
	}
	// the option value reaches line's parameter
	for _, key := range []string{"clip.LineString", "clip.MultiLineString"} {
		w := p.funcByShortKey(key)
		if w == nil {
			c.R.Unknown("T7-open-flag", key, "", "not found")
			continue
		}
		okFlow := false
		for _, b := range w.Blocks {
			for _, in := range b.Instrs {
				call, ok := in.(*ssa.Call)
				if !ok || call.Call.StaticCallee() != fn {
					continue
				}
				arg := call.Call.Args[len(call.Call.Args)-1]
				// backward slice of the argument: it must depend on a bool field of the options struct
				seen := map[ssa.Value]bool{}
				var walk func(v ssa.Value, d int)
				walk = func(v ssa.Value, d int) {
					if v == nil || seen[v] || d > 12 {
						return
					}
					seen[v] = true
					if fa, ok := v.(*ssa.FieldAddr); ok {
						st := fa.X.Type().Underlying().(*types.Pointer).Elem().Underlying().(*types.Struct)
						if bt, ok := st.Field(fa.Field).Type().Underlying().(*types.Basic); ok && bt.Kind() == types.Bool {
							okFlow = true
						}
					}
					if f, ok := v.(*ssa.Field); ok {
						if bt, ok := f.Type().Underlying().(*types.Basic); ok && bt.Kind() == types.Bool {
							okFlow = true
						}
					}
					if cl, ok := v.(*ssa.Call); ok {
						// a module helper computing the flag: slice its returns
						if cal := cl.Call.StaticCallee(); cal != nil && cal.Pkg == w.Pkg {
							for _, cb := range cal.Blocks {
								if ret, ok := cb.Instrs[len(cb.Instrs)-1].(*ssa.Return); ok {
									for _, rv := range ret.Results {
										walk(rv, d+1)
									}
								}
							}
						}
					}
					if ins, ok := v.(ssa.Instruction); ok {
						for _, op := range ins.Operands(nil) {
							if *op != nil {
								walk(*op, d+1)
							}
						}
					}
				}
				walk(arg, 0)
			}
		}
		if okFlow {
			c.R.OK("T7-open-flag", key, p.Pos(w.Pos()), "the option's flag is what reaches line's open parameter")
		} else {
			c.R.Bad("T7-open-flag", key, p.Pos(w.Pos()), "the open-bound option does not reach the clipper: the value passed to line is not the option's flag")
		}
	}
}
