package main

import (
	"fmt"
)

// orb.Equal on a geometry and a copy of it held in other memory: true when every coordinate is the same
// unknown, false as soon as one coordinate of the copy is a different unknown (two different free inputs are
// taken to be different values).  Each coordinate position of each enumerated shape is varied in turn, so a
// comparison that leaves a vertex, a member or an axis out answers true where it must answer false.

// copyGeom copies a geometry value into fresh heap cells, keeping the coordinate unknowns; positions counts the
// float coordinates met, and the coordinate with index vary (if >= 0) is replaced by a new unknown.
func copyGeom(it *Interp, s *State, v AV, vary int, counter *int) AV {
	switch x := v.(type) {
	case FloatV:
		i := *counter
		*counter = i + 1
		if i == vary {
			return it.freeFloat()
		}
		return x
	case ArrV:
		out := ArrV{N: x.N, Def: x.Def}
		for _, e := range x.Elems {
			out.Elems = append(out.Elems, copyGeom(it, s, e, vary, counter))
		}
		return out
	case StructV:
		out := StructV{}
		for _, f := range x.Fields {
			out.Fields = append(out.Fields, copyGeom(it, s, f, vary, counter))
		}
		return out
	case SliceV:
		if x.Nil {
			return x
		}
		arr, ok := s.heap[x.Arr].(ArrV)
		if !ok {
			return x
		}
		cp := copyGeom(it, s, arr, vary, counter).(ArrV)
		return SliceV{Arr: it.newCell(s, cp), Lo: x.Lo, Hi: x.Hi, Cap: x.Cap}
	case IfaceV:
		if x.Nil || x.Typ == nil {
			return x
		}
		return IfaceV{Typ: x.Typ, Val: copyGeom(it, s, x.Val, vary, counter)}
	}
	return v
}

func equalSpecs(thorough bool) []composeSpec {
	kinds := []string{"Point", "MultiPoint", "LineString", "MultiLineString", "Ring", "Polygon", "MultiPolygon", "Collection", "Bound"}
	type eqCtx struct{ want bool }
	var cases []composeCase
	for _, h := range allHyps(kinds, thorough) {
		if h == nil {
			continue
		}
		h := h
		cases = append(cases, composeCase{h.String() + " and its copy", func(it *Interp, s *State) ([]AV, interface{}) {
			g := it.buildIface(s, h)
			c := 0
			return []AV{g, copyGeom(it, s, g, -1, &c)}, &eqCtx{want: true}
		}})
	}
	// one coordinate varied: positions are discovered when the case is built; a position beyond the shape's
	// count leaves the copy equal, which the case reports through want
	maxPos := 8
	if thorough {
		maxPos = 14
	}
	for _, h := range allHyps(kinds, thorough) {
		if h == nil || h.Nil {
			continue
		}
		h := h
		for pos := 0; pos < maxPos; pos++ {
			pos := pos
			cases = append(cases, composeCase{fmt.Sprintf("%s and a copy with coordinate %d changed", h.String(), pos), func(it *Interp, s *State) ([]AV, interface{}) {
				g := it.buildIface(s, h)
				c := 0
				cp := copyGeom(it, s, g, pos, &c)
				return []AV{g, cp}, &eqCtx{want: pos >= c}
			}})
		}
	}
	// a copy that is one element shorter, and a copy of another kind with the same points
	for _, h := range allHyps(kinds, thorough) {
		if h == nil || h.Nil {
			continue
		}
		h := h
		cases = append(cases, composeCase{h.String() + " and a copy without its last element", func(it *Interp, s *State) ([]AV, interface{}) {
			g := it.buildIface(s, h)
			c := 0
			cp := copyGeom(it, s, g, -1, &c)
			want := true
			if iv, ok := cp.(IfaceV); ok {
				if sl, ok := iv.Val.(SliceV); ok && !sl.Nil && sl.Hi-sl.Lo >= 1 {
					sl.Hi--
					iv.Val = sl
					cp, want = iv, false
				}
			}
			return []AV{g, cp}, &eqCtx{want: want}
		}})
		if h.Kind == "MultiPoint" || h.Kind == "LineString" || h.Kind == "Ring" {
			for _, other := range []string{"MultiPoint", "LineString", "Ring"} {
				if other == h.Kind {
					continue
				}
				other := other
				cases = append(cases, composeCase{h.String() + " and its points as a " + other, func(it *Interp, s *State) ([]AV, interface{}) {
					g := it.buildIface(s, h)
					c := 0
					cp := copyGeom(it, s, g, -1, &c)
					if iv, ok := cp.(IfaceV); ok {
						iv.Typ = it.p.Kind(other)
						cp = iv
					}
					return []AV{g, cp}, &eqCtx{want: false}
				}})
			}
		}
	}
	return []composeSpec{{
		entry: "orb.Equal", terms: true, generalPosition: true, cases: cases,
		desc: "a geometry equals its copy in other memory, and does not equal the copy with any one coordinate replaced by a different value, the copy without its last element, or the same points as another kind",
		judge: func(_ *Interp, cx interface{}, st *State) string {
			ctx := cx.(*eqCtx)
			got, ok := exactBool(st.result[0])
			if !ok {
				return "the answer is not decided on this path"
			}
			if got != ctx.want {
				if ctx.want {
					return "a geometry and its copy with the same coordinates are reported different"
				}
				return "a copy that differs (one coordinate changed, one element fewer, or another kind) is reported equal"
			}
			return ""
		},
	}}
}
