package main

// A-comp spec for resampling (C17): with the distance function uninterpreted
// (answers are fresh non-negative unknowns d_0..d_{n-2}), every path through
// resample.Resample(ls, df, N) returns N points; the first and last are the
// line's endpoints, and the k-th lies on a segment (a,b) of the ORIGINAL line
// at the parameter p for which the distance travelled, d_0+..+d_{i-1} + p*d_i,
// is k/(N-1) of the total: x = a_x + p(b_x-a_x), y = a_y + p(b_y-a_y) as
// rational functions of the coordinates and the d_j.

import (
	"fmt"
	"math/big"

	"golang.org/x/tools/go/ssa"
)

type resampleCtx struct {
	pts   [][2]*fterm // original vertices as terms
	ids   []string
	coord [][2]int // atoms
	N     int
}

func resampleSpecs(thorough bool) []composeSpec {
	maxV, maxN := 3, 4
	if thorough {
		maxV, maxN = 4, 6
	}
	var cases []composeCase
	for n := 2; n <= maxV; n++ {
		for N := 1; N <= maxN; N++ {
			n, N := n, N
			cases = append(cases, composeCase{fmt.Sprintf("%d vertices to %d points", n, N), func(it *Interp, s *State) ([]AV, interface{}) {
				ln := it.buildGeom(s, pts("LineString", n)).(SliceV)
				ctx := &resampleCtx{N: N}
				for _, e := range s.heap[ln.Arr].(ArrV).Elems {
					pt := pointTerms(it, e)
					ctx.pts = append(ctx.pts, pt)
					ctx.ids = append(ctx.ids, identString(e))
					ax, _ := atomOf(pt[0])
					ay, _ := atomOf(pt[1])
					ctx.coord = append(ctx.coord, [2]int{ax, ay})
				}
				return []AV{ln, FuncV{Fn: it.p.funcByShortKey("planar.Distance")}, intOf(int64(N))}, ctx
			}})
		}
	}
	// a line that is a prefix of a longer buffer: the spare capacity holds other points, which must not come back
	for _, N := range []int{3, 4} {
		N := N
		cases = append(cases, composeCase{fmt.Sprintf("2 vertices (capacity 4) to %d points", N), func(it *Interp, s *State) ([]AV, interface{}) {
			ln := it.buildGeom(s, pts("LineString", 4)).(SliceV)
			ln.Hi = 2
			ctx := &resampleCtx{N: N}
			for _, e := range s.heap[ln.Arr].(ArrV).Elems[:2] {
				pt := pointTerms(it, e)
				ctx.pts = append(ctx.pts, pt)
				ctx.ids = append(ctx.ids, identString(e))
				ax, _ := atomOf(pt[0])
				ay, _ := atomOf(pt[1])
				ctx.coord = append(ctx.coord, [2]int{ax, ay})
			}
			return []AV{ln, FuncV{Fn: it.p.funcByShortKey("planar.Distance")}, intOf(int64(N))}, ctx
		}})
	}
	return []composeSpec{{
		entry:   "resample.Resample",
		desc:    "N points: the line's first vertex, then for k = 1..N-2 the point of the original line at k/(N-1) of its length (on segment i at p = (k/(N-1)*total - d_0-..-d_{i-1})/d_i), then its last vertex; a line whose vertices all coincide is padded or cut to N copies",
		terms:   true,
		oracles: map[string]func(*ssa.Function) oracleFunc{"planar.Distance": oracleFreshPos},
		cases:   cases,
		judge: func(it *Interp, cx interface{}, st *State) string {
			ctx := cx.(*resampleCtx)
			res, ok := st.result[0].(SliceV)
			if !ok || res.Nil {
				return "no line is returned"
			}
			arr, _ := st.heap[res.Arr].(ArrV)
			if arr.Elems == nil || res.Hi > len(arr.Elems) {
				return "the result is not a materialised line"
			}
			out := arr.Elems[res.Lo:res.Hi]
			if len(out) != ctx.N {
				return fmt.Sprintf("%d points are returned, want %d", len(out), ctx.N)
			}
			// all vertices assumed equal on this path?
			eq := map[string]bool{}
			eqc := map[[2]int]bool{}
			for _, tr := range st.trail {
				f := tr.Fact
				if f == nil || !(f.Op == "==" && f.Taken || f.Op == "!=" && !f.Taken) {
					continue
				}
				if f.PA != "" {
					eq[f.PA+"|"+f.PB], eq[f.PB+"|"+f.PA] = true, true
					continue
				}
				ia, ok1 := atomOf(f.A)
				ib, ok2 := atomOf(f.B)
				if ok1 && ok2 {
					eqc[[2]int{ia, ib}], eqc[[2]int{ib, ia}] = true, true
				}
			}
			allEqual := true
			for i := 1; i < len(ctx.ids); i++ {
				byCoord := eqc[[2]int{ctx.coord[0][0], ctx.coord[i][0]}] && eqc[[2]int{ctx.coord[0][1], ctx.coord[i][1]}]
				if !eq[ctx.ids[0]+"|"+ctx.ids[i]] && !byCoord {
					allEqual = false
				}
			}
			if allEqual {
				isIn := map[string]bool{}
				for _, id := range ctx.ids {
					isIn[id] = true
				}
				for k, o := range out {
					if !isIn[identString(o)] {
						return fmt.Sprintf("all vertices coincide, but point %d of the result is not one of them", k)
					}
				}
				return ""
			}
			n := len(ctx.pts)
			if identString(out[0]) != ctx.ids[0] {
				return "the first point is not the line's first vertex"
			}
			if ctx.N > 1 && identString(out[ctx.N-1]) != ctx.ids[n-1] {
				return "the last point is not the line's last vertex"
			}
			// distances by segment
			d := make([]*fterm, n-1)
			for _, ev := range eventsOf(st, "planar.Distance") {
				a, b := identString(ev.Args[0]), identString(ev.Args[1])
				for i := 0; i+1 < n; i++ {
					if a == ctx.ids[i] && b == ctx.ids[i+1] || b == ctx.ids[i] && a == ctx.ids[i+1] {
						if d[i] == nil {
							d[i] = floatTerm(it, ev.Out[0])
						}
					}
				}
			}
			if ctx.N <= 2 {
				return "" // only the endpoints are asked for
			}
			total := termConst(0)
			for i, t := range d {
				if t == nil {
					return fmt.Sprintf("interior points are asked for but segment %d was never measured", i)
				}
				total = termAdd(total, t, 1)
			}
			for k := 1; k+1 < ctx.N; k++ {
				got := pointTerms(it, out[k])
				if got[0] == nil || got[1] == nil {
					return fmt.Sprintf("point %d is not a rational function of the line's coordinates and segment lengths", k)
				}
				want := termMul(termConstRat(big.NewRat(int64(k), int64(ctx.N-1))), total)
				found := false
				sofar := termConst(0)
				for i := 0; i+1 < n; i++ {
					p := termDiv(termAdd(want, sofar, -1), d[i])
					a, b := ctx.pts[i], ctx.pts[i+1]
					x := termAdd(a[0], termMul(p, termAdd(b[0], a[0], -1)), 1)
					y := termAdd(a[1], termMul(p, termAdd(b[1], a[1], -1)), 1)
					if termEqual(got[0], x) && termEqual(got[1], y) {
						found = true
						break
					}
					sofar = termAdd(sofar, d[i], 1)
				}
				if !found {
					return fmt.Sprintf("point %d is not the point of the original line at %d/%d of its length (on no segment do both coordinates match a + p(b-a) with the distance parameter)", k, k, ctx.N-1)
				}
			}
			return ""
		},
	}}
}
