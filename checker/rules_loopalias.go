package main

// L1 — loop-carried alias.  Inside a loop, the address of a variable that is
// declared outside the loop but assigned in every iteration is stored into a
// longer-lived object: every iteration's object then points at the same
// variable and sees the last iteration's value (the classic `&v` in a loop).

import (
	"fmt"
	"go/token"

	"golang.org/x/tools/go/ssa"
)

type ssaLoop struct {
	head   *ssa.BasicBlock
	blocks map[*ssa.BasicBlock]bool
}

func ssaLoops(fn *ssa.Function) []*ssaLoop {
	var out []*ssaLoop
	byHead := map[*ssa.BasicBlock]*ssaLoop{}
	for _, b := range fn.Blocks {
		for _, s := range b.Succs {
			if !s.Dominates(b) {
				continue
			}
			l := byHead[s]
			if l == nil {
				l = &ssaLoop{head: s, blocks: map[*ssa.BasicBlock]bool{s: true}}
				byHead[s] = l
				out = append(out, l)
			}
			// blocks that reach b without passing through the head
			stack := []*ssa.BasicBlock{b}
			for len(stack) > 0 {
				x := stack[len(stack)-1]
				stack = stack[:len(stack)-1]
				if l.blocks[x] {
					continue
				}
				l.blocks[x] = true
				stack = append(stack, x.Preds...)
			}
		}
	}
	return out
}

func ruleLoopAlias(keep func(string) bool, floor int) ruleFunc {
	return func(c *Ctx) {
		p := c.P
		c.R.Rule("L1: in a loop, no address of a variable declared outside the loop and assigned inside it is stored into memory (objects built per iteration would all alias that one variable)")
		n := 0
		for _, fn := range p.Funcs() {
			key := ShortKey(FuncKey(fn))
			if keep != nil && !keep(key) {
				continue
			}
			loops := ssaLoops(fn)
			if len(loops) == 0 {
				continue
			}
			for li, l := range loops {
				n++
				cons := fmt.Sprintf("%s#loop%d", key, li)
				bad := ""
				for b := range l.blocks {
					for _, in := range b.Instrs {
						st, ok := in.(*ssa.Store)
						if !ok {
							continue
						}
						al, ok := st.Val.(*ssa.Alloc)
						if !ok || l.blocks[al.Block()] {
							continue // not an address, or the variable is per-iteration
						}
						// is the variable assigned inside the loop?
						assigned := false
						for _, r := range *al.Referrers() {
							if s2, ok := r.(*ssa.Store); ok && s2.Addr == al && l.blocks[s2.Block()] {
								assigned = true
							}
						}
						if assigned {
							bad = fmt.Sprintf("&%s is stored at %s in every iteration, but %s is declared outside the loop and reassigned inside it: all iterations share one variable",
								al.Comment, p.InstrPos(st), al.Comment)
						}
					}
				}
				if bad != "" {
					c.R.Bad("L1-loop-alias", cons, p.InstrPos(l.head.Instrs[0]), bad)
				} else {
					c.R.OK("L1-loop-alias", cons, p.InstrPos(l.head.Instrs[0]), "no shared address escapes from the loop")
				}
			}
		}
		c.R.Floor("L1-loop-alias", n, floor)
	}
}

// L3 — container reset in a loop.  Inside a loop, a freshly made map stored into
// a location that the same loop also inserts into must be created lazily (under
// a nil test of that location); an unconditional store discards what earlier
// iterations inserted.
func ruleContainerReset(keep func(string) bool, floor int) ruleFunc {
	return func(c *Ctx) {
		p := c.P
		c.R.Rule("L3: inside a loop, a newly made map assigned to a location the loop also inserts into is assigned only under a nil test of that location (lazy initialisation)")
		n := 0
		for _, fn := range p.Funcs() {
			key := ShortKey(FuncKey(fn))
			if keep != nil && !keep(key) {
				continue
			}
			for li, l := range ssaLoops(fn) {
				for b := range l.blocks {
					for _, in := range b.Instrs {
						st, ok := in.(*ssa.Store)
						if !ok {
							continue
						}
						if _, isMake := st.Val.(*ssa.MakeMap); !isMake {
							continue
						}
						loc := addrKey(st.Addr)
						// does the loop insert into the map loaded from the same location?
						inserts := false
						for b2 := range l.blocks {
							for _, in2 := range b2.Instrs {
								if mu, ok := in2.(*ssa.MapUpdate); ok {
									if ld, ok := mu.Map.(*ssa.UnOp); ok && ld.Op == token.MUL && addrKey(ld.X) == loc {
										inserts = true
									}
								}
							}
						}
						if !inserts {
							continue
						}
						n++
						cons := fmt.Sprintf("%s#loop%d#reset(%s)", key, li, loc)
						guarded := false
						for _, gb := range fn.Blocks {
							ifi, ok := gb.Instrs[len(gb.Instrs)-1].(*ssa.If)
							if !ok {
								continue
							}
							bo, ok := ifi.Cond.(*ssa.BinOp)
							if !ok || (bo.Op != token.EQL && bo.Op != token.NEQ) {
								continue
							}
							var other ssa.Value
							if cst, ok := bo.Y.(*ssa.Const); ok && cst.IsNil() {
								other = bo.X
							} else if cst, ok := bo.X.(*ssa.Const); ok && cst.IsNil() {
								other = bo.Y
							}
							ld, ok := other.(*ssa.UnOp)
							if !ok || ld.Op != token.MUL || addrKey(ld.X) != loc {
								continue
							}
							idx := 0
							if bo.Op == token.NEQ {
								idx = 1
							}
							if gb.Succs[idx].Dominates(b) {
								guarded = true
							}
						}
						if guarded {
							c.R.OK("L3-container-reset", cons, p.InstrPos(st), "created only when still nil")
						} else {
							c.R.Bad("L3-container-reset", cons, p.InstrPos(st), "a new map is assigned to "+loc+" in every iteration although the loop also inserts into it: entries added by earlier iterations are lost")
						}
					}
				}
			}
		}
		c.R.Floor("L3-container-reset", n, floor)
	}
}

// L4 — made with a length, then appended to.  make([]T, n) already has n zero
// elements; appending the real elements after them leaves n leading zero values
// (nil pointers, empty geometries).  The slice must either be made with length
// 0 (and a capacity) or be filled by index.
func ruleMakeThenAppend(keep func(string) bool, floor int) ruleFunc {
	return func(c *Ctx) {
		p := c.P
		c.R.Rule("L4: no slice created with a non-zero length (make([]T, n)) is afterwards grown with append without ever being filled by index (the n leading elements would stay zero)")
		n := 0
		for _, fn := range p.Funcs() {
			key := ShortKey(FuncKey(fn))
			if keep != nil && !keep(key) {
				continue
			}
			ord := 0
			for _, b := range fn.Blocks {
				for _, in := range b.Instrs {
					mk, ok := in.(*ssa.MakeSlice)
					if !ok {
						continue
					}
					if cst, ok := mk.Len.(*ssa.Const); ok && cst.Int64() == 0 {
						continue
					}
					n++
					// locations the slice is stored to
					locs := map[string]bool{}
					values := map[ssa.Value]bool{mk: true}
					for _, r := range *mk.Referrers() {
						if st, ok := r.(*ssa.Store); ok && st.Val == mk {
							locs[addrKey(st.Addr)] = true
						}
						if ct, ok := r.(*ssa.ChangeType); ok {
							values[ct] = true
							for _, r2 := range *ct.Referrers() {
								if st, ok := r2.(*ssa.Store); ok && st.Val == ct {
									locs[addrKey(st.Addr)] = true
								}
							}
						}
					}
					isIt := func(v ssa.Value) bool {
						if values[v] {
							return true
						}
						if ld, ok := v.(*ssa.UnOp); ok && ld.Op == token.MUL && locs[addrKey(ld.X)] {
							return true
						}
						return false
					}
					appended, indexed := false, false
					var at ssa.Instruction
					for _, b2 := range fn.Blocks {
						for _, in2 := range b2.Instrs {
							switch x := in2.(type) {
							case *ssa.Call:
								if isBuiltin(x, "append") && len(x.Call.Args) > 0 && isIt(x.Call.Args[0]) {
									appended, at = true, x
								}
								if isBuiltin(x, "copy") && len(x.Call.Args) > 0 && isIt(x.Call.Args[0]) {
									indexed = true
								}
								if _, isB := x.Call.Value.(*ssa.Builtin); !isB {
									// handed to a function that may fill it (binary.PutUint32(data, ...), io.ReadFull(r, buf))
									for _, a := range x.Call.Args {
										if isIt(a) {
											indexed = true
										}
									}
								}
							case *ssa.IndexAddr:
								if isIt(x.X) {
									indexed = true
								}
							case *ssa.Slice:
								if isIt(x.X) {
									indexed = true // resliced (e.g. s[:0]) before use
								}
							}
						}
					}
					cons := fmt.Sprintf("%s#make#%d", key, ord)
					ord++
					if appended && !indexed {
						c.R.Bad("L4-make-then-append", cons, p.InstrPos(at), "a slice made with a non-zero length is only appended to: its leading elements stay zero values (nil members) in front of the appended ones")
					} else {
						c.R.OK("L4-make-then-append", cons, p.InstrPos(mk), "filled by index / not appended to")
					}
				}
			}
		}
		c.R.Floor("L4-make-then-append", n, floor)
	}
}
