package main

// Engine A' — typestate over the dynamic kind of orb.Geometry values.
//
// For every function, the set of possible dynamic kinds (the implementers of
// orb.Geometry, plus nil) of each Geometry-typed value is propagated along CFG
// edges: the true edge of `v.(K)` narrows to {K}, the false edge removes K, a
// nil comparison adds/removes nil, a comparison of GeoJSONType()/Dimensions()
// results narrows to the kinds whose (constant) method result agrees — the
// constants are read from the method bodies, nothing is executed.  Kind sets
// flow into unexported functions from their call sites (fixpoint over static
// calls); exported functions and functions whose address is taken accept every
// kind and nil.  Reported:
//
//   K1  a panic block reached by falling out of a type switch on v while some
//       kind (or nil) is still possible for v;
//   K2  an unchecked assertion v.(K) where a kind other than K is possible;
//   K3  a type switch naming at least five kinds that leaves a kind unnamed
//       and has no default arm (the kind is silently ignored), unless listed
//       in the reviewed exception table.

import (
	"fmt"
	"go/ast"
	"go/constant"
	"go/token"
	"go/types"
	"sort"
	"strings"

	"golang.org/x/tools/go/ssa"
)

type kindset uint16

type kindInfo struct {
	p      *Program
	names  []string // kind names, index = bit
	nilBit kindset
	all    kindset
	consts map[string][]constant.Value // method name -> per-kind constant result (nil = not constant)
	fa     map[*ssa.Function]*kfunc
}

func newKindInfo(p *Program) *kindInfo {
	ki := &kindInfo{p: p, consts: map[string][]constant.Value{}, fa: map[*ssa.Function]*kfunc{}}
	for _, k := range p.Kinds {
		ki.names = append(ki.names, k.Obj().Name())
	}
	for _, m := range []string{"GeoJSONType", "Dimensions"} {
		for _, k := range p.Kinds {
			ki.consts[m] = append(ki.consts[m], constMethod(p, k, m))
		}
	}
	ki.nilBit = 1 << uint(len(ki.names))
	ki.all = ki.nilBit<<1 - 1
	return ki
}

// constMethod evaluates a method whose body is a single `return <constant>`.
func constMethod(p *Program, t *types.Named, name string) constant.Value {
	sel := p.Prog.MethodSets.MethodSet(t).Lookup(t.Obj().Pkg(), name)
	if sel == nil {
		return nil
	}
	fn := p.Prog.MethodValue(sel)
	if fn == nil || len(fn.Blocks) != 1 {
		return nil
	}
	for _, in := range fn.Blocks[0].Instrs {
		if r, ok := in.(*ssa.Return); ok && len(r.Results) == 1 {
			if c, ok := r.Results[0].(*ssa.Const); ok && c.Value != nil {
				return c.Value
			}
		}
	}
	return nil
}

func (ki *kindInfo) bit(t types.Type) kindset {
	for i, k := range ki.p.Kinds {
		if types.Identical(t, k) {
			return 1 << uint(i)
		}
	}
	return 0
}

func (ki *kindInfo) str(s kindset) string {
	var out []string
	for i, n := range ki.names {
		if s&(1<<uint(i)) != 0 {
			out = append(out, n)
		}
	}
	if s&ki.nilBit != 0 {
		out = append(out, "nil")
	}
	return "{" + strings.Join(out, ",") + "}"
}

// kindsWhere returns the kinds for which method m may return a value v with
// pred(v) true; kinds whose result is not a constant are always included.
func (ki *kindInfo) kindsWhere(m string, pred func(constant.Value) bool) kindset {
	var s kindset
	for i, cv := range ki.consts[m] {
		if cv == nil || pred(cv) {
			s |= 1 << uint(i)
		}
	}
	return s
}

type kstate struct {
	sets map[string]kindset // subject key -> possible kinds (absent = all)
	rel  map[[2]string]bool // pairs of subjects known to have equal GeoJSONType()
}

func newKstate() *kstate { return &kstate{sets: map[string]kindset{}, rel: map[[2]string]bool{}} }

func (s *kstate) clone() *kstate {
	n := newKstate()
	for k, v := range s.sets {
		n.sets[k] = v
	}
	for k := range s.rel {
		n.rel[k] = true
	}
	return n
}

func (ki *kindInfo) get(s *kstate, k string) kindset {
	if v, ok := s.sets[k]; ok {
		return v
	}
	return ki.all
}

// join: union of sets, intersection of relations. Returns true if dst changed.
func (ki *kindInfo) join(dst, src *kstate) bool {
	changed := false
	for k, dv := range dst.sets {
		sv := ki.get(src, k)
		if dv|sv != dv {
			dst.sets[k] = dv | sv
			changed = true
		}
	}
	for k := range dst.rel {
		if !src.rel[k] {
			delete(dst.rel, k)
			changed = true
		}
	}
	return changed
}

// kfunc is the per-function analysis.
type kfunc struct {
	fn           *ssa.Function
	storedFields map[string]bool
	in           []*kstate
	reach        map[string]kindset // param key -> kinds that can arrive (entry state)
	open         bool               // exported / address-taken / no callers: every kind and nil can arrive
}

// canonical key for a Geometry-typed value so that repeated loads of the same
// field (go/ssa has no CSE) are recognised as the same subject.
func (kf *kfunc) key(v ssa.Value) string {
	switch x := v.(type) {
	case *ssa.Parameter:
		return "param:" + x.Name()
	case *ssa.UnOp:
		if x.Op == token.MUL {
			if fa, ok := x.X.(*ssa.FieldAddr); ok {
				st := fa.X.Type().Underlying().(*types.Pointer).Elem().Underlying().(*types.Struct)
				f := st.Field(fa.Field).Name()
				if !kf.storedFields[f] {
					return kf.key(fa.X) + "." + f
				}
			}
		}
	case *ssa.ChangeInterface:
		return kf.key(x.X)
	}
	return fmt.Sprintf("%s@%p", v.Name(), v)
}

func subjectName(k string) string {
	k = strings.TrimPrefix(k, "param:")
	if i := strings.Index(k, "@"); i >= 0 {
		k = k[:i]
	}
	return k
}

// valueSet is the set of kinds a value may have in state st.
func (ki *kindInfo) valueSet(kf *kfunc, st *kstate, v ssa.Value) kindset {
	switch x := v.(type) {
	case *ssa.MakeInterface:
		if b := ki.bit(x.X.Type()); b != 0 {
			return b
		}
		return ki.all &^ ki.nilBit
	case *ssa.Const:
		if x.IsNil() {
			return ki.nilBit
		}
	case *ssa.UnOp:
		// element of a collection: the properties' domains exclude nil members
		if x.Op == token.MUL {
			if _, ok := x.X.(*ssa.IndexAddr); ok {
				return ki.possible(st, kf.key(v)) &^ ki.nilBit
			}
		}
	case *ssa.Extract:
		if _, ok := x.Tuple.(*ssa.Next); ok {
			return ki.possible(st, kf.key(v)) &^ ki.nilBit
		}
	}
	return ki.possible(st, kf.key(v))
}

func (ki *kindInfo) analyse(kf *kfunc) {
	fn := kf.fn
	kf.in = make([]*kstate, len(fn.Blocks))
	entry := newKstate()
	for k, s := range kf.reach {
		entry.sets[k] = s
	}
	kf.in[0] = entry
	work := []*ssa.BasicBlock{fn.Blocks[0]}
	for len(work) > 0 {
		b := work[len(work)-1]
		work = work[:len(work)-1]
		for i, s := range b.Succs {
			out := kf.in[b.Index].clone()
			if ifi, ok := b.Instrs[len(b.Instrs)-1].(*ssa.If); ok {
				ki.refine(kf, out, ifi.Cond, i == 0)
			}
			// phis of Geometry type in the successor take the edge value's set
			predIdx := -1
			for j, pb := range s.Preds {
				if pb == b {
					predIdx = j
				}
			}
			for _, ins := range s.Instrs {
				phi, ok := ins.(*ssa.Phi)
				if !ok {
					break
				}
				if ki.p.IsGeometry(phi.Type()) && predIdx >= 0 {
					out.sets[kf.key(phi)] = ki.valueSet(kf, out, phi.Edges[predIdx])
				}
			}
			if kf.in[s.Index] == nil {
				kf.in[s.Index] = out
				work = append(work, s)
				continue
			}
			dst := kf.in[s.Index]
			for k := range out.sets {
				if _, ok := dst.sets[k]; !ok {
					dst.sets[k] = ki.all
				}
			}
			if ki.join(dst, out) {
				work = append(work, s)
			}
		}
	}
}

// possible kinds for subject k, taking GeoJSONType()-equality relations into account.
func (ki *kindInfo) possible(st *kstate, k string) kindset {
	poss := ki.get(st, k)
	for pair := range st.rel {
		var other string
		if pair[0] == k {
			other = pair[1]
		} else if pair[1] == k {
			other = pair[0]
		} else {
			continue
		}
		os := ki.get(st, other)
		var allowed kindset
		for i := range ki.names {
			if os&(1<<uint(i)) == 0 {
				continue
			}
			ov := ki.consts["GeoJSONType"][i]
			allowed |= ki.kindsWhere("GeoJSONType", func(v constant.Value) bool {
				return ov == nil || constant.Compare(v, token.EQL, ov)
			})
		}
		poss &= allowed // nil cannot have answered GeoJSONType()
	}
	return poss
}

// refine narrows s along the (cond == want) edge.
func (ki *kindInfo) refine(kf *kfunc, s *kstate, cond ssa.Value, want bool) {
	switch x := cond.(type) {
	case *ssa.Extract:
		if ta, ok := x.Tuple.(*ssa.TypeAssert); ok && x.Index == 1 && ki.p.IsGeometry(ta.X.Type()) {
			bit := ki.bit(ta.AssertedType)
			if bit == 0 {
				return
			}
			k := kf.key(ta.X)
			cur := ki.get(s, k)
			if want {
				s.sets[k] = cur & bit
			} else {
				s.sets[k] = cur &^ bit
			}
		}
	case *ssa.UnOp:
		if x.Op == token.NOT {
			ki.refine(kf, s, x.X, !want)
		}
	case *ssa.BinOp:
		op := x.Op
		switch op {
		case token.EQL, token.NEQ, token.LSS, token.LEQ, token.GTR, token.GEQ:
		default:
			return
		}
		if !want {
			op = map[token.Token]token.Token{token.EQL: token.NEQ, token.NEQ: token.EQL, token.LSS: token.GEQ,
				token.LEQ: token.GTR, token.GTR: token.LEQ, token.GEQ: token.LSS}[op]
		}
		// v ==/!= nil
		if op == token.EQL || op == token.NEQ {
			for _, pair := range [][2]ssa.Value{{x.X, x.Y}, {x.Y, x.X}} {
				v, o := pair[0], pair[1]
				if cst, ok := o.(*ssa.Const); ok && cst.IsNil() && ki.p.IsGeometry(v.Type()) {
					k := kf.key(v)
					cur := ki.get(s, k)
					if op == token.EQL {
						s.sets[k] = cur & ki.nilBit
					} else {
						s.sets[k] = cur &^ ki.nilBit
					}
					return
				}
			}
		}
		ra, ma, oka := constMethodCall(ki.p, x.X)
		rb, mb, okb := constMethodCall(ki.p, x.Y)
		switch {
		case oka && okb:
			if op == token.EQL && ma == "GeoJSONType" && mb == "GeoJSONType" {
				a, b := kf.key(ra), kf.key(rb)
				if a > b {
					a, b = b, a
				}
				s.rel[[2]string{a, b}] = true
			}
		case oka || okb:
			recv, m, other := ra, ma, x.Y
			if okb {
				recv, m, other = rb, mb, x.X
				op = map[token.Token]token.Token{token.EQL: token.EQL, token.NEQ: token.NEQ, token.LSS: token.GTR,
					token.LEQ: token.GEQ, token.GTR: token.LSS, token.GEQ: token.LEQ}[op]
			}
			cst, ok := other.(*ssa.Const)
			if !ok || cst.Value == nil {
				return
			}
			k := kf.key(recv)
			cur := ki.get(s, k)
			with := ki.kindsWhere(m, func(v constant.Value) bool {
				if v.Kind() != cst.Value.Kind() {
					return true
				}
				return constant.Compare(v, op, cst.Value)
			})
			// a method was called on it, so it is not nil on this path
			s.sets[k] = cur & with
		}
	}
}

// constMethodCall recognises `invoke v.GeoJSONType()` / `invoke v.Dimensions()` on a Geometry value.
func constMethodCall(p *Program, v ssa.Value) (ssa.Value, string, bool) {
	call, ok := v.(*ssa.Call)
	if !ok || !call.Call.IsInvoke() {
		return nil, "", false
	}
	m := call.Call.Method.Name()
	if m != "GeoJSONType" && m != "Dimensions" {
		return nil, "", false
	}
	if !p.IsGeometry(call.Call.Value.Type()) {
		return nil, "", false
	}
	return call.Call.Value, m, true
}

// k3Exceptions: switches that leave kinds unnamed on purpose (confirmed by reading).
var k3Exceptions = map[string]string{
	"encoding/internal/wkbcommon.(*Encoder).Encode#switch(geom)/{Point}": "first switch only rejects typed-nil slices and rewrites Ring/Bound to Polygon; Point needs neither and is written by the second switch",
	"encoding/internal/wkbcommon.GeomLength#switch(geom)/{Bound,Ring}":   "pre-allocation hint only: an unnamed kind yields capacity 0 and the buffer grows; output is unaffected",
}

type typeSwitchInfo struct {
	subject string
	named   kindset
	asserts int
	pos     token.Pos
	arrive  kindset // kinds possible at the first assertion
	arms    []*ssa.BasicBlock
	fall    *ssa.BasicBlock // false successor of the last assert
	fallIf  *ssa.BasicBlock
}

func ruleKinds(c *Ctx) {
	p := c.P
	ki := newKindInfo(p)
	c.R.Rule("K1: panic reached by falling out of a type switch on an orb.Geometry value while a kind (or nil) is still possible; " +
		"K2: unchecked assertion v.(K) where a kind other than K is possible; K3: type switch naming >=5 kinds leaves a kind unnamed without a default arm. " +
		"Kind sets are propagated over the SSA CFG (typestate) and across static calls; GeoJSONType()/Dimensions() constants are read from method bodies")
	c.R.Assume("members of a Collection are non-nil interfaces (the properties' domains exclude nil members)")
	for i, n := range ki.names {
		if ki.consts["GeoJSONType"][i] == nil {
			c.R.Unknown("K0-typestr", "orb."+n+".GeoJSONType", "", "GeoJSONType() of "+n+" is not a constant return")
		}
	}

	// 1. which functions matter: those with a Geometry-typed parameter or assertion
	var funcs []*kfunc
	addrTaken := map[*ssa.Function]bool{}
	callers := map[*ssa.Function]int{}
	for _, fn := range p.Funcs() {
		for _, b := range fn.Blocks {
			for _, in := range b.Instrs {
				if call, ok := in.(ssa.CallInstruction); ok {
					if callee := call.Common().StaticCallee(); callee != nil {
						callers[callee]++
					}
				}
				for _, op := range in.Operands(nil) {
					if f, ok := (*op).(*ssa.Function); ok {
						if call, isCall := in.(ssa.CallInstruction); isCall && call.Common().Value == f {
							continue
						}
						addrTaken[f] = true
					}
				}
			}
		}
	}
	for _, fn := range p.Funcs() {
		if len(fn.Blocks) == 0 {
			continue
		}
		relevant := false
		for _, par := range fn.Params {
			if p.IsGeometry(par.Type()) {
				relevant = true
			}
		}
		stored := map[string]bool{}
		for _, b := range fn.Blocks {
			for _, in := range b.Instrs {
				switch x := in.(type) {
				case *ssa.TypeAssert:
					if p.IsGeometry(x.X.Type()) {
						relevant = true
					}
				case *ssa.Store:
					if fa, ok := x.Addr.(*ssa.FieldAddr); ok {
						st := fa.X.Type().Underlying().(*types.Pointer).Elem().Underlying().(*types.Struct)
						stored[st.Field(fa.Field).Name()] = true
					}
				}
			}
		}
		if !relevant {
			continue
		}
		kf := &kfunc{fn: fn, storedFields: stored, reach: map[string]kindset{}}
		exported := fn.Object() != nil && fn.Object().Exported() && fn.Parent() == nil
		if recv := fn.Signature.Recv(); recv != nil && exported {
			// method of an unexported type reached through an interface is still open
			exported = true
		}
		kf.open = exported || addrTaken[fn] || callers[fn] == 0 || fn.Parent() != nil
		for _, par := range fn.Params {
			if p.IsGeometry(par.Type()) {
				if kf.open {
					kf.reach[kf.key(par)] = ki.all
				} else {
					kf.reach[kf.key(par)] = 0
				}
			}
		}
		ki.fa[fn] = kf
		funcs = append(funcs, kf)
	}
	// 2. fixpoint: kinds reaching unexported functions through static calls
	for round := 0; round < 12; round++ {
		changed := false
		for _, kf := range funcs {
			ki.analyse(kf)
		}
		for _, kf := range funcs {
			for _, b := range kf.fn.Blocks {
				st := kf.in[b.Index]
				if st == nil {
					continue
				}
				for _, in := range b.Instrs {
					call, ok := in.(ssa.CallInstruction)
					if !ok {
						continue
					}
					callee := call.Common().StaticCallee()
					ck := ki.fa[callee]
					if ck == nil || ck.open {
						continue
					}
					args := call.Common().Args
					for i, par := range callee.Params {
						if i >= len(args) || !p.IsGeometry(par.Type()) {
							continue
						}
						s := ki.valueSet(kf, st, args[i])
						pk := ck.key(par)
						if ck.reach[pk]|s != ck.reach[pk] {
							ck.reach[pk] |= s
							changed = true
						}
					}
				}
			}
		}
		if !changed {
			break
		}
	}

	nswitch, nfuncs, nassert := 0, 0, 0
	for _, kf := range funcs {
		sw, na := ki.report(c, kf)
		nassert += na
		if sw > 0 {
			nfuncs++
		}
		nswitch += sw
	}
	c.R.Floor("K1-switch-panic", nswitch, 19)
	c.R.Note("kind-typestate", fmt.Sprintf("%d type switches over orb.Geometry in %d functions, %d unchecked assertions examined, %d functions analysed", nswitch, nfuncs, nassert, len(funcs)))
}

func (ki *kindInfo) report(c *Ctx, kf *kfunc) (nswitch, nUnchecked int) {
	p := ki.p
	fn := kf.fn
	fkey := ShortKey(FuncKey(fn))
	bySubject := map[string]*typeSwitchInfo{}
	var order []string
	for _, b := range fn.Blocks {
		for _, ins := range b.Instrs {
			ta, ok := ins.(*ssa.TypeAssert)
			if !ok || !p.IsGeometry(ta.X.Type()) {
				continue
			}
			bit := ki.bit(ta.AssertedType)
			if bit == 0 {
				continue
			}
			k := kf.key(ta.X)
			if ta.CommaOk {
				ts := bySubject[k]
				if ts == nil {
					ts = &typeSwitchInfo{subject: k, pos: ta.Pos(), arrive: ki.all}
					if st := kf.in[b.Index]; st != nil {
						ts.arrive = ki.valueSet(kf, st, ta.X)
					}
					bySubject[k] = ts
					order = append(order, k)
				}
				ts.named |= bit
				ts.asserts++
				if ifi, ok := b.Instrs[len(b.Instrs)-1].(*ssa.If); ok {
					if ex, ok := ifi.Cond.(*ssa.Extract); ok && ex.Tuple == ta && ex.Index == 1 {
						ts.arms = append(ts.arms, b.Succs[0])
						ts.fall, ts.fallIf = b.Succs[1], b // blocks are visited in order: the last one wins
					}
				}
				continue
			}
			nUnchecked++
			st := kf.in[b.Index]
			if st == nil {
				continue
			}
			poss := ki.valueSet(kf, st, ta.X)
			construct := fmt.Sprintf("%s#assert(%s).(%s)", fkey, subjectName(k), ki.names[bitIndex(bit)])
			if poss&^bit != 0 {
				c.R.Bad("K2-unchecked-assert", construct, p.InstrPos(ta),
					fmt.Sprintf("unchecked type assertion to %s, but the value may also be %s here: the assertion panics for those kinds",
						ki.names[bitIndex(bit)], ki.str(poss&^bit)))
			} else {
				c.R.OK("K2-unchecked-assert", construct, p.InstrPos(ta), "only "+ki.str(poss)+" can reach this assertion")
			}
		}
	}
	var switches []*typeSwitchInfo
	for _, k := range order {
		if ts := bySubject[k]; ts.asserts >= 2 {
			switches = append(switches, ts)
		}
	}
	sort.Slice(switches, func(i, j int) bool { return switches[i].subject < switches[j].subject })

	for _, ts := range switches {
		construct := fmt.Sprintf("%s#switch(%s)", fkey, subjectName(ts.subject))
		// K1: the fall-through block (false edge of the last assert) leads to a panic
		var bad kindset
		var where ssa.Instruction
		if ts.fall != nil && len(ts.fall.Preds) == 1 {
			for _, b := range fn.Blocks {
				pi, ok := b.Instrs[len(b.Instrs)-1].(*ssa.Panic)
				if !ok || kf.in[b.Index] == nil || !ts.fall.Dominates(b) {
					continue
				}
				if poss := ki.possible(kf.in[b.Index], ts.subject); poss != 0 {
					bad |= poss
					where = pi
				}
			}
		}
		if bad != 0 {
			c.R.Bad("K1-switch-panic", construct, p.InstrPos(where),
				fmt.Sprintf("type switch over orb.Geometry falls through to panic for %s (arms name %s; kinds arriving here: %s)",
					ki.str(bad), ki.str(ts.named), ki.str(ki.reachOf(kf, ts.subject))))
		} else {
			c.R.OK("K1-switch-panic", construct, p.Pos(ts.pos), "no kind that can arrive here falls through to a panic; arms name "+ki.str(ts.named))
		}
		// K3
		if popcount(ts.named) >= 5 {
			missing := (ts.arrive &^ ki.nilBit) &^ ts.named
			switch {
			case missing == 0:
				c.R.OK("K3-unnamed-kind", construct, p.Pos(ts.pos), "every kind that can arrive ("+ki.str(ts.arrive)+") is named")
			case hasDefault(p, ts.pos):
				c.R.OK("K3-unnamed-kind", construct, p.Pos(ts.pos), "kinds "+ki.str(missing)+" go to an explicit default arm")
			case k3Exceptions[construct+"/"+ki.str(missing)] != "":
				c.R.OK("K3-unnamed-kind", construct, p.Pos(ts.pos), "reviewed exception: "+k3Exceptions[construct+"/"+ki.str(missing)])
				c.R.Suppressed = append(c.R.Suppressed, "K3 "+construct+"/"+ki.str(missing)+": "+k3Exceptions[construct+"/"+ki.str(missing)])
			default:
				c.R.Bad("K3-unnamed-kind", construct, p.Pos(ts.pos),
					"type switch names "+ki.str(ts.named)+" but not "+ki.str(missing)+" and has no default arm: those kinds are silently skipped")
			}
		}
	}
	return len(switches), nUnchecked
}

func (ki *kindInfo) reachOf(kf *kfunc, subject string) kindset {
	if s, ok := kf.reach[subject]; ok {
		return s
	}
	return ki.all
}

func bitIndex(b kindset) int {
	for i := 0; i < 16; i++ {
		if b == 1<<uint(i) {
			return i
		}
	}
	return 0
}

func popcount(s kindset) int {
	n := 0
	for ; s != 0; s &= s - 1 {
		n++
	}
	return n
}

// hasDefault finds the innermost syntactic type switch that contains pos and
// reports whether it has a default clause.
func hasDefault(p *Program, pos token.Pos) bool {
	_, f := p.FileOf(pos)
	if f == nil {
		return false
	}
	var best *ast.TypeSwitchStmt
	ast.Inspect(f, func(n ast.Node) bool {
		if ts, ok := n.(*ast.TypeSwitchStmt); ok && ts.Pos() <= pos && pos <= ts.End() {
			best = ts
		}
		return true
	})
	if best == nil {
		return false
	}
	for _, cl := range best.Body.List {
		if cc, ok := cl.(*ast.CaseClause); ok && cc.List == nil {
			return true
		}
	}
	return false
}

// ruleEqualSameKind (K4): orb.Equal is structural — in the arm for kind K the
// second operand handed to K's Equal method must be the second argument
// asserted to K (so that two geometries of different kinds are never equal).
func ruleEqualSameKind(c *Ctx) {
	p := c.P
	c.R.Rule("K4: in orb.Equal, the arm for kind K compares g1.(K) with g2.(K): the argument of K.Equal is a type assertion of the second parameter to the same kind")
	fn := p.funcByShortKey("orb.Equal")
	if fn == nil || len(fn.Params) != 2 {
		c.R.Unknown("K4-equal-same-kind", "orb.Equal", "", "orb.Equal not found")
		return
	}
	g2 := fn.Params[1]
	n := 0
	for _, b := range fn.Blocks {
		for _, in := range b.Instrs {
			call, ok := in.(*ssa.Call)
			if !ok {
				continue
			}
			callee := call.Call.StaticCallee()
			if callee == nil || callee.Name() != "Equal" || callee.Signature.Recv() == nil {
				continue
			}
			k := p.KindOf(callee.Signature.Recv().Type())
			if k == "" || len(call.Call.Args) != 2 {
				continue
			}
			n++
			cons := "orb.Equal#arm(" + k + ")"
			arg := call.Call.Args[1]
			if ex, ok := arg.(*ssa.Extract); ok {
				arg = ex.Tuple
			}
			ta, ok := arg.(*ssa.TypeAssert)
			if ok && ta.X == g2 && p.KindOf(ta.AssertedType) == k {
				c.R.OK("K4-equal-same-kind", cons, p.InstrPos(call), "compares with g2.("+k+")")
			} else {
				c.R.Bad("K4-equal-same-kind", cons, p.InstrPos(call), "the "+k+" arm does not compare with the second argument asserted to "+k+": geometries of different kinds can compare equal (and Equal stops being symmetric)")
			}
		}
	}
	c.R.Floor("K4-equal-same-kind", n, 9)
}

// ruleBoundAsPolygon (K5): in every generic measure or encoder (a function with a
// type switch over orb.Geometry whose results contain no geometry), the Bound
// arm treats the bound as the polygon it denotes: it converts with ToRing() /
// ToPolygon() or hands the bound to the package's typed Bound helper.  A
// hand-written shortcut formula in that arm is where generic and typed results
// drift apart.
func ruleBoundAsPolygon(c *Ctx) {
	p := c.P
	c.R.Rule("K5: in every function with a type switch over orb.Geometry whose results contain no geometry, the orb.Bound arm calls ToRing()/ToPolygon() on the bound or the package's own typed Bound function (the bound is measured/encoded as the polygon it denotes)")
	n := 0
	for _, fn := range p.Funcs() {
		if len(fn.Blocks) == 0 {
			continue
		}
		res := fn.Signature.Results()
		returnsGeom := false
		for i := 0; i < res.Len(); i++ {
			t := res.At(i).Type()
			if p.IsGeometry(t) || (p.KindOf(t) != "" && p.KindOf(t) != "Point") {
				returnsGeom = true
			}
			if pt, ok := t.(*types.Pointer); ok {
				if nt, ok := pt.Elem().(*types.Named); ok && nt.Obj().Name() == "Geometry" {
					returnsGeom = true // *geojson.Geometry wraps the geometry itself
				}
			}
		}
		key := ShortKey(FuncKey(fn))
		if returnsGeom || key == "orb.Equal" || strings.Contains(key, "GeomLength") {
			continue
		}
		for _, b := range fn.Blocks {
			for _, in := range b.Instrs {
				ta, ok := in.(*ssa.TypeAssert)
				if !ok || !ta.CommaOk || !p.IsGeometry(ta.X.Type()) || p.KindOf(ta.AssertedType) != "Bound" {
					continue
				}
				ifi, ok := b.Instrs[len(b.Instrs)-1].(*ssa.If)
				if !ok {
					continue
				}
				arm := b.Succs[0]
				n++
				cons := key + "#arm(Bound)"
				okCall := ""
				for _, ab := range fn.Blocks {
					if !arm.Dominates(ab) {
						continue
					}
					for _, ai := range ab.Instrs {
						call, ok := ai.(*ssa.Call)
						if !ok {
							continue
						}
						cal := call.Call.StaticCallee()
						if cal == nil {
							continue
						}
						nm := cal.Name()
						if (nm == "ToRing" || nm == "ToPolygon") && cal.Signature.Recv() != nil && p.KindOf(cal.Signature.Recv().Type()) == "Bound" {
							okCall = "Bound." + nm + "()"
						}
						if nm == "Bound" && cal.Signature.Recv() == nil && cal.Pkg == fn.Pkg {
							okCall = ShortKey(FuncKey(cal))
						}
					}
				}
				_ = ifi
				if okCall != "" {
					c.R.OK("K5-bound-as-polygon", cons, p.InstrPos(ta), "the bound is handled through "+okCall)
				} else {
					c.R.Bad("K5-bound-as-polygon", cons, p.InstrPos(ta), "the Bound arm neither converts the bound with ToRing()/ToPolygon() nor calls the typed Bound helper: it computes its own answer, which need not agree with the polygon the bound denotes")
				}
			}
		}
	}
	c.R.Floor("K5-bound-as-polygon", n, 7)
}

// K6 — dispatch delegation.  In a package whose exported functions are named
// after the geometry kinds (clip, tilecover, project, smartclip), the generic
// Geometry function must hand a value of dynamic kind K to the package's
// function K: not to another kind's function through a conversion (a Ring
// covered as a LineString loses its interior).
func ruleDispatchDelegation(pkgs []string, floor int) ruleFunc {
	return func(c *Ctx) {
		p := c.P
		c.R.Rule("K6: in the generic Geometry function of a package that has one function per kind, the arm for dynamic kind K passes the value to the function named K (when it exists) and to no other kind's function, directly or through a conversion")
		kindNames := map[string]bool{}
		for _, k := range p.Kinds {
			kindNames[k.Obj().Name()] = true
		}
		n := 0
		for _, pk := range pkgs {
			// "pkg" : the generic function is pkg.Geometry and the helpers are named after the kinds;
			// "pkg:generic": the generic function is pkg.generic and the helpers are the kind names with a lower-case
			// first letter (simplify.simplify -> ring, lineString, multiPolygon ...)
			generic, lower := "Geometry", false
			if i := strings.Index(pk, ":"); i >= 0 {
				pk, generic, lower = pk[:i], pk[i+1:], true
			}
			helper := func(kind string) string {
				if lower {
					return strings.ToLower(kind[:1]) + kind[1:]
				}
				return kind
			}
			kindOfHelper := map[string]string{}
			for name := range kindNames {
				kindOfHelper[helper(name)] = name
			}
			fn := p.funcByShortKey(pk + "." + generic)
			if fn == nil {
				c.R.Unknown("K6-dispatch-delegation", pk+"."+generic, "", "not found")
				continue
			}
			has := map[string]bool{}
			for name := range kindNames {
				if f := p.funcByShortKey(pk + "." + helper(name)); f != nil {
					has[name] = true
				}
			}
			for _, b := range fn.Blocks {
				for _, in := range b.Instrs {
					ta, ok := in.(*ssa.TypeAssert)
					if !ok || !ta.CommaOk || !p.IsGeometry(ta.X.Type()) {
						continue
					}
					k := p.KindOf(ta.AssertedType)
					if k == "" {
						continue
					}
					// values derived from the asserted value by extraction / conversion
					derived := map[ssa.Value]bool{}
					var grow func(v ssa.Value)
					grow = func(v ssa.Value) {
						if derived[v] {
							return
						}
						derived[v] = true
						for _, r := range *v.Referrers() {
							switch x := r.(type) {
							case *ssa.Extract:
								if x.Index == 0 {
									grow(x)
								}
							case *ssa.Convert:
								grow(x)
							case *ssa.ChangeType:
								grow(x)
							}
						}
					}
					grow(ta)
					called := map[string]string{}
					for v := range derived {
						for _, r := range *v.Referrers() {
							call, ok := r.(*ssa.Call)
							if !ok {
								continue
							}
							cal := call.Call.StaticCallee()
							if cal == nil || cal.Pkg != fn.Pkg || kindOfHelper[cal.Name()] == "" {
								continue
							}
							called[kindOfHelper[cal.Name()]] = p.InstrPos(call)
						}
					}
					if !has[k] && len(called) == 0 {
						continue // no function of that name: the arm handles the kind itself
					}
					n++
					cons := fmt.Sprintf("%s.%s#%s", pk, generic, k)
					bad := ""
					for name, pos := range called {
						if name != k {
							bad += fmt.Sprintf(" a %s is handed to %s.%s at %s;", k, pk, name, pos)
						}
					}
					if has[k] && called[k] == "" && bad != "" {
						bad += fmt.Sprintf(" %s.%s is never called for it;", pk, k)
					}
					if bad != "" {
						c.R.Bad("K6-dispatch-delegation", cons, p.InstrPos(ta), strings.TrimSpace(bad)+" the generic entry no longer returns what the kind's own function returns")
					} else {
						c.R.OK("K6-dispatch-delegation", cons, p.InstrPos(ta), "delegates to its own kind's function")
					}
				}
			}
		}
		c.R.Floor("K6-dispatch-delegation", n, floor)
	}
}
