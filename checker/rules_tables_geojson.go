package main

// T5 — GeoJSON name / tag / depth tables.
//
//  * the case labels of Geometry.UnmarshalJSON and UnmarshalBSON map to the
//    concrete type assigned in that arm; that type's GeoJSONType() constant
//    (read from its method body) must equal the label; both switches identical;
//    all seven RFC 7946 geometry type names present;
//  * the nesting depth of the concrete type equals the RFC depth of the name;
//  * struct tags of the marshal document and of the JSON / BSON unmarshal
//    documents name the same members (type, coordinates, geometries; feature:
//    id, type, bbox, geometry, properties);
//  * Ring, Bound and Collection can never be stored in a "coordinates" member
//    (kind typestate at the stores of NewGeometry / newGeometryMarshallDoc).

import (
	"fmt"
	"go/ast"
	"go/constant"
	"go/types"
	"reflect"
	"sort"
	"strings"

	"golang.org/x/tools/go/packages"
	"golang.org/x/tools/go/ssa"
)

var rfcDepth = map[string]int{"Point": 1, "MultiPoint": 2, "LineString": 2, "MultiLineString": 3, "Polygon": 3, "MultiPolygon": 4}

func coordDepth(t types.Type) int {
	d := 0
	for {
		switch u := t.Underlying().(type) {
		case *types.Slice:
			d++
			t = u.Elem()
			continue
		case *types.Array:
			d++
			t = u.Elem()
			continue
		}
		return d
	}
}

func tagNames(st *types.Struct, key string) map[string]string {
	out := map[string]string{}
	for i := 0; i < st.NumFields(); i++ {
		tag := reflect.StructTag(st.Tag(i)).Get(key)
		name := strings.Split(tag, ",")[0]
		out[st.Field(i).Name()] = name
	}
	return out
}

func ruleGeoJSONTables(c *Ctx) {
	p := c.P
	c.R.Rule("T5: GeoJSON type-name tables of UnmarshalJSON/UnmarshalBSON vs GeoJSONType() constants and RFC 7946 nesting depths; struct-tag agreement between marshal and unmarshal documents; Ring/Bound/Collection never stored in a coordinates member (kind typestate)")
	pk := p.Pkgs[orbPath+"/geojson"]
	if pk == nil {
		c.R.Unknown("T5-geojson", "geojson", "", "package not found")
		return
	}
	ki := newKindInfo(p)
	typeStr := map[string]string{}
	for i, n := range ki.names {
		if cv := ki.consts["GeoJSONType"][i]; cv != nil && cv.Kind() == constant.String {
			typeStr[n] = constant.StringVal(cv)
		}
	}
	// (a) switch tables
	tables := map[string]map[string]string{} // method -> label -> kind
	p.eachFuncDecl(func(pkg *packages.Package, fd *ast.FuncDecl) {
		if pkg != pk || fd.Recv == nil || (fd.Name.Name != "UnmarshalJSON" && fd.Name.Name != "UnmarshalBSON") {
			return
		}
		if !strings.Contains(types.ExprString(fd.Recv.List[0].Type), "Geometry") {
			return
		}
		tab := map[string]string{}
		ast.Inspect(fd.Body, func(n ast.Node) bool {
			sw, ok := n.(*ast.SwitchStmt)
			if !ok || sw.Tag == nil {
				return true
			}
			for _, cl := range sw.Body.List {
				cc := cl.(*ast.CaseClause)
				for _, le := range cc.List {
					label, ok := strLit(pkg, le)
					if !ok {
						continue
					}
					kind := ""
					for _, st := range cc.Body {
						ast.Inspect(st, func(m ast.Node) bool {
							as, ok := m.(*ast.AssignStmt)
							if !ok || len(as.Lhs) != 1 || len(as.Rhs) != 1 {
								return true
							}
							if se, ok := as.Lhs[0].(*ast.SelectorExpr); ok {
								switch se.Sel.Name {
								case "Coordinates":
									kind = p.KindOf(pkg.TypesInfo.TypeOf(as.Rhs[0]))
								case "Geometries":
									kind = "Collection"
								}
							}
							return true
						})
					}
					tab[label] = kind
				}
			}
			return true
		})
		tables[fd.Name.Name] = tab
	})
	for _, m := range []string{"UnmarshalJSON", "UnmarshalBSON"} {
		tab := tables[m]
		if len(tab) == 0 {
			c.R.Unknown("T5-type-names", "geojson.(*Geometry)."+m, "", "type switch on the \"type\" member not found")
			continue
		}
		var labels []string
		for l := range tab {
			labels = append(labels, l)
		}
		sort.Strings(labels)
		for _, l := range labels {
			kind := tab[l]
			cons := fmt.Sprintf("geojson.(*Geometry).%s#case%q", m, l)
			switch {
			case kind == "":
				c.R.Bad("T5-type-names", cons, "", "the arm for \""+l+"\" assigns no geometry")
			case typeStr[kind] != l:
				c.R.Bad("T5-type-names", cons, "", fmt.Sprintf("\"type\":%q is decoded into orb.%s, whose GeoJSONType() is %q", l, kind, typeStr[kind]))
			case kind != "Collection" && coordDepth(p.Kind(kind)) != rfcDepth[l]:
				c.R.Bad("T5-type-names", cons, "", fmt.Sprintf("orb.%s nests coordinates %d deep, RFC 7946 requires %d for %q", kind, coordDepth(p.Kind(kind)), rfcDepth[l], l))
			default:
				c.R.OK("T5-type-names", cons, "", "decoded into orb."+kind)
			}
		}
		for name := range rfcDepth {
			if _, ok := tab[name]; !ok {
				c.R.Bad("T5-type-names", fmt.Sprintf("geojson.(*Geometry).%s#missing%q", m, name), "", "RFC 7946 type "+name+" is not accepted")
			}
		}
		if _, ok := tab["GeometryCollection"]; !ok {
			c.R.Bad("T5-type-names", fmt.Sprintf("geojson.(*Geometry).%s#missing%q", m, "GeometryCollection"), "", "GeometryCollection is not accepted")
		}
	}
	if j, b := tables["UnmarshalJSON"], tables["UnmarshalBSON"]; len(j) > 0 && len(b) > 0 && !reflect.DeepEqual(j, b) {
		c.R.Bad("T5-type-names", "geojson.(*Geometry)#json-vs-bson", "", fmt.Sprintf("JSON and BSON decoders disagree: %v vs %v", j, b))
	}
	// marshal side: the names written are GeoJSONType() of what is in Coordinates; depth per kind
	for _, k := range p.Kinds {
		n := k.Obj().Name()
		if n == "Ring" || n == "Bound" || n == "Collection" {
			continue
		}
		cons := "geojson:marshal-depth:" + n
		if want, ok := rfcDepth[typeStr[n]]; !ok {
			c.R.Bad("T5-depth", cons, "", fmt.Sprintf("orb.%s reports type %q, which is not an RFC 7946 coordinate type", n, typeStr[n]))
		} else if coordDepth(k) != want {
			c.R.Bad("T5-depth", cons, "", fmt.Sprintf("orb.%s marshals coordinates %d deep under \"type\":%q, RFC 7946 requires %d", n, coordDepth(k), typeStr[n], want))
		} else {
			c.R.OK("T5-depth", cons, "", fmt.Sprintf("type %q, depth %d", typeStr[n], want))
		}
	}
	// (b) tags
	lookupStruct := func(name string) *types.Struct {
		obj := pk.Types.Scope().Lookup(name)
		if obj == nil {
			return nil
		}
		st, _ := obj.Type().Underlying().(*types.Struct)
		return st
	}
	type tagCheck struct {
		a, b, key string
	}
	for _, tc := range []tagCheck{
		{"geometryMarshallDoc", "jsonGeometry", "json"},
		{"geometryMarshallDoc", "bsonGeometry", "bson"},
		{"geometryMarshallDoc", "Geometry", "json"},
	} {
		sa, sb := lookupStruct(tc.a), lookupStruct(tc.b)
		cons := fmt.Sprintf("geojson:tags:%s~%s(%s)", tc.a, tc.b, tc.key)
		if sa == nil || sb == nil {
			c.R.Unknown("T5-tags", cons, "", "document type not found")
			continue
		}
		ta, tb := tagNames(sa, tc.key), tagNames(sb, tc.key)
		bad := ""
		for f, n := range ta {
			if m, ok := tb[f]; ok && m != n {
				bad += fmt.Sprintf(" member %s is written as %q and read as %q;", f, n, m)
			}
		}
		want := map[string]string{"Type": "type", "Coordinates": "coordinates", "Geometries": "geometries"}
		for f, n := range want {
			if ta[f] != n {
				bad += fmt.Sprintf(" %s.%s is tagged %q, RFC 7946 names it %q;", tc.a, f, ta[f], n)
			}
		}
		if bad != "" {
			c.R.Bad("T5-tags", cons, "", strings.TrimSpace(bad))
		} else {
			c.R.OK("T5-tags", cons, "", "member names agree")
		}
	}
	if fdoc := lookupStruct("featureDoc"); fdoc != nil {
		j, b := tagNames(fdoc, "json"), tagNames(fdoc, "bson")
		want := map[string]string{"ID": "id", "Type": "type", "BBox": "bbox", "Geometry": "geometry", "Properties": "properties"}
		bad := ""
		for f, n := range want {
			if j[f] != n || b[f] != n {
				bad += fmt.Sprintf(" %s: json %q bson %q, expected %q;", f, j[f], b[f], n)
			}
		}
		if bad != "" {
			c.R.Bad("T5-tags", "geojson:tags:featureDoc", "", strings.TrimSpace(bad))
		} else {
			c.R.OK("T5-tags", "geojson:tags:featureDoc", "", "RFC 7946 feature member names in both encodings")
		}
	} else {
		c.R.Unknown("T5-tags", "geojson:tags:featureDoc", "", "featureDoc not found")
	}
	// (c) what can be stored in a Coordinates member
	forbidden := ki.bit(p.Kind("Ring")) | ki.bit(p.Kind("Bound")) | ki.bit(p.Kind("Collection"))
	nStores := 0
	for _, key := range []string{"geojson.NewGeometry", "geojson.newGeometryMarshallDoc"} {
		fn := p.funcByShortKey(key)
		if fn == nil {
			c.R.Unknown("T5-coordinates-kinds", key, "", "function not found")
			continue
		}
		kf := &kfunc{fn: fn, storedFields: map[string]bool{}, reach: map[string]kindset{}, open: true}
		for _, par := range fn.Params {
			if p.IsGeometry(par.Type()) {
				kf.reach[kf.key(par)] = ki.all
			}
		}
		ki.analyse(kf)
		ord := 0
		for _, b := range fn.Blocks {
			for _, in := range b.Instrs {
				st, ok := in.(*ssa.Store)
				if !ok {
					continue
				}
				fa, ok := st.Addr.(*ssa.FieldAddr)
				if !ok {
					continue
				}
				sty := fa.X.Type().Underlying().(*types.Pointer).Elem().Underlying().(*types.Struct)
				if sty.Field(fa.Field).Name() != "Coordinates" || kf.in[b.Index] == nil {
					continue
				}
				nStores++
				cons := fmt.Sprintf("%s#store-coordinates#%d", key, ord)
				ord++
				set := ki.valueSet(kf, kf.in[b.Index], st.Val)
				if bad := set & forbidden; bad != 0 {
					c.R.Bad("T5-coordinates-kinds", cons, p.InstrPos(st), "a "+ki.str(bad)+" can be stored in the \"coordinates\" member: GeoJSON has no such type (rings and bounds must become polygons, collections use \"geometries\")")
				} else {
					c.R.OK("T5-coordinates-kinds", cons, p.InstrPos(st), "only "+ki.str(set)+" reach \"coordinates\"")
				}
			}
		}
	}
	c.R.Floor("T5-coordinates-kinds", nStores, 6)
}
