package main

import (
	"encoding/json"
	"fmt"
	"os"
	"path/filepath"
	"sort"
	"strings"
	"time"
)

type Verdict string

const (
	Discharged  Verdict = "discharged"
	Violated    Verdict = "violated"
	Known       Verdict = "known"
	Undecided   Verdict = "undecided"
	Unconfirmed Verdict = "unconfirmed" // recorded, never fails (fault behind an opaque branch)
	OutOfScope  Verdict = "out-of-scope"
)

// Obligation is one instance of one rule on one construct.
type Obligation struct {
	Property  string   `json:"property"`
	Rule      string   `json:"rule"`
	Construct string   `json:"construct"` // position-free key
	Verdict   Verdict  `json:"verdict"`
	Pos       string   `json:"pos,omitempty"` // display only
	Detail    string   `json:"detail,omitempty"`
	Witness   []string `json:"witness,omitempty"`
}

func (o *Obligation) Key() string { return o.Property + "/" + o.Rule + "/" + o.Construct }

type KnownFinding struct {
	Status      string `json:"status"` // "known" | "fixed"
	Property    string `json:"property"`
	Rule        string `json:"rule"`
	Construct   string `json:"construct"`
	What        string `json:"what"`
	Commit      string `json:"commit,omitempty"`
	WhyNotFixed string `json:"why_not_fixed,omitempty"`
	Input       string `json:"failing_input,omitempty"`
}

// Report collects the obligations of one property check.
type Report struct {
	Property    string
	Tier        string
	Start       time.Time
	Obls        []*Obligation
	seen        map[string]*Obligation
	Floors      map[string][2]int // rule -> {have, want}
	Analysed    map[string][]string
	Assumptions []string
	RulesText   []string
	Explanation string
	known       []KnownFinding
	Suppressed  []string
}

func NewReport(prop, tier string, known []KnownFinding) *Report {
	return &Report{Property: prop, Tier: tier, Start: time.Now(), seen: map[string]*Obligation{},
		Floors: map[string][2]int{}, Analysed: map[string][]string{}, known: known}
}

// Add records an obligation (deduplicated by key; a worse verdict wins).
func (r *Report) Add(rule, construct string, v Verdict, pos, detail string, witness ...string) *Obligation {
	o := &Obligation{Property: r.Property, Rule: rule, Construct: construct, Verdict: v, Pos: pos, Detail: detail, Witness: witness}
	if v == Violated {
		for _, k := range r.known {
			if k.Status == "known" && k.Property == r.Property && k.Rule == rule && k.Construct == construct {
				o.Verdict = Known
				o.Detail = k.What + " [" + detail + "]"
			}
		}
	}
	if old, ok := r.seen[o.Key()]; ok {
		if rank(o.Verdict) > rank(old.Verdict) {
			*old = *o
		}
		return old
	}
	r.seen[o.Key()] = o
	r.Obls = append(r.Obls, o)
	return o
}

func rank(v Verdict) int {
	switch v {
	case Violated:
		return 5
	case Undecided:
		return 4
	case Known:
		return 3
	case Unconfirmed:
		return 2
	case OutOfScope:
		return 1
	}
	return 0
}

func (r *Report) OK(rule, construct, pos, detail string) {
	r.Add(rule, construct, Discharged, pos, detail)
}
func (r *Report) Bad(rule, construct, pos, detail string, witness ...string) {
	r.Add(rule, construct, Violated, pos, detail, witness...)
}
func (r *Report) Unknown(rule, construct, pos, detail string) {
	r.Add(rule, construct, Undecided, pos, detail)
}

// Floor asserts that a rule matched at least want instances.
func (r *Report) Floor(rule string, have, want int) {
	r.Floors[rule] = [2]int{have, want}
	if have < want {
		r.Add(rule, "floor", Undecided, "", fmt.Sprintf("rule matched %d instances, confirmed floor is %d: the rule no longer sees its subject", have, want))
	}
}

func (r *Report) Note(kind string, items ...string) {
	r.Analysed[kind] = append(r.Analysed[kind], items...)
}

func (r *Report) Assume(s string) {
	for _, a := range r.Assumptions {
		if a == s {
			return
		}
	}
	r.Assumptions = append(r.Assumptions, s)
}

func (r *Report) Rule(s string) { r.RulesText = append(r.RulesText, s) }

func (r *Report) Count(v Verdict) int {
	n := 0
	for _, o := range r.Obls {
		if o.Verdict == v {
			n++
		}
	}
	return n
}

// Finish writes evidence and violation files, prints the verdict lines and
// returns the process exit code.
func (r *Report) Finish(verifDir string) int {
	sort.SliceStable(r.Obls, func(i, j int) bool { return r.Obls[i].Key() < r.Obls[j].Key() })
	evDir := filepath.Join(verifDir, "evidence")
	vioDir := filepath.Join(evDir, "violations")
	os.MkdirAll(vioDir, 0o755)
	// remove stale violation files of this property
	if old, _ := filepath.Glob(filepath.Join(vioDir, r.Property+"-*.json")); old != nil {
		for _, f := range old {
			os.Remove(f)
		}
	}
	exit := 0
	nviol := 0
	k := 0
	for _, o := range r.Obls {
		switch o.Verdict {
		case Known:
			fmt.Printf("KNOWN-FINDING: property=%s %s %s: %s\n", r.Property, o.Rule, o.Construct, o.Detail)
		case Violated, Undecided:
			k++
			nviol++
			path := filepath.Join(vioDir, fmt.Sprintf("%s-%d.json", r.Property, k))
			b, _ := json.MarshalIndent(o, "", " ")
			os.WriteFile(path, b, 0o644)
			fmt.Printf("VIOLATION property=%s replay=%s\n", r.Property, path)
			fmt.Printf("  kind=%s rule=%s construct=%s at %s\n  %s\n", o.Verdict, o.Rule, o.Construct, o.Pos, o.Detail)
			for _, w := range o.Witness {
				fmt.Printf("    | %s\n", w)
			}
			exit = 1
		}
	}
	distinct := map[string]bool{}
	byRule := map[string]map[string]int{}
	for _, o := range r.Obls {
		distinct[o.Rule+"/"+o.Construct] = true
		if byRule[o.Rule] == nil {
			byRule[o.Rule] = map[string]int{}
		}
		byRule[o.Rule][string(o.Verdict)]++
	}
	var samples []any
	perRule := map[string]int{}
	for _, o := range r.Obls {
		if perRule[o.Rule] < 4 || o.Verdict != Discharged {
			if len(samples) < 120 {
				samples = append(samples, o)
			}
			perRule[o.Rule]++
		}
	}
	floors := map[string]any{}
	for k, v := range r.Floors {
		floors[k] = map[string]int{"matched": v[0], "floor": v[1]}
	}
	for k := range r.Analysed {
		sort.Strings(r.Analysed[k])
	}
	ev := map[string]any{
		"property_id": r.Property,
		"tier":        r.Tier,
		"seed":        0,
		"level":       "other",
		"coverage": map[string]any{
			"explanation":         r.Explanation,
			"evaluations":         len(r.Obls),
			"distinct_nontrivial": len(distinct),
			"rule": "static analysis of /repo's working tree; one obligation per rule instance, keyed rule/construct (position-free); " +
				"non-trivial = a distinct construct of the source the rule actually matched. Rules: " + strings.Join(r.RulesText, " || "),
			"samples":          samples,
			"obligations":      len(r.Obls),
			"discharged":       r.Count(Discharged),
			"known_findings":   r.Count(Known),
			"unconfirmed":      r.Count(Unconfirmed),
			"out_of_scope":     r.Count(OutOfScope),
			"by_rule":          byRule,
			"floors":           floors,
			"analysed":         r.Analysed,
			"suppressions":     r.Suppressed,
			"exhaustive":       false,
			"technique_family": "static analysis (go/types + go/ssa); no orb code is executed",
		},
		"assumptions": append([]string{}, r.Assumptions...),
		"wall_s":      time.Since(r.Start).Seconds(),
		"violations":  nviol,
	}
	b, _ := json.MarshalIndent(ev, "", " ")
	if err := os.WriteFile(filepath.Join(evDir, r.Property+".json"), b, 0o644); err != nil {
		fmt.Fprintf(os.Stderr, "cannot write evidence: %v\n", err)
		return 1
	}
	fmt.Printf("%s %s: %d obligations, %d discharged, %d known, %d unconfirmed, %d out-of-scope, %d violations (%.1fs)\n",
		r.Property, r.Tier, len(r.Obls), r.Count(Discharged), r.Count(Known), r.Count(Unconfirmed), r.Count(OutOfScope), nviol, time.Since(r.Start).Seconds())
	return exit
}

func LoadKnown(path string) ([]KnownFinding, error) {
	b, err := os.ReadFile(path)
	if err != nil {
		if os.IsNotExist(err) {
			return nil, nil
		}
		return nil, err
	}
	var doc struct {
		Findings []KnownFinding `json:"findings"`
	}
	if err := json.Unmarshal(b, &doc); err != nil {
		return nil, err
	}
	return doc.Findings, nil
}
