package main

// A-comp — composition over uninterpreted callees.
//
// Some properties say how a function combines the answers of the functions it
// calls ("a polygon contains a point iff its outer ring does and no hole
// does").  That clause does not depend on what the callees compute, so it is
// decided with the callees left uninterpreted: engine A runs the composing
// function on every small shape, every call of a listed callee (an *oracle*)
// forks the path once per possible answer and is logged with the identities of
// its arguments, and at the end of every path the returned value is compared
// with the stated combination of the logged answers.  A path that returns
// before the logged answers determine the stated combination is a violation
// (an element was not consulted); so is a result that differs from it.
// Only paths whose every undecided branch is an oracle answer are judged.

import (
	"fmt"
	"go/types"
	"os"
	"runtime"
	"sort"
	"strings"
	"sync"
	"time"

	"golang.org/x/tools/go/ssa"
)

type composeCase struct {
	label string
	build func(it *Interp, s *State) (args []AV, ctx interface{})
}

// composeStep names the next function to call on a finished state and its arguments.
type composeStep func(it *Interp, st *State, ctx interface{}) (fn string, args []AV, ok bool)

type composeSpec struct {
	tag     string                                       // distinguishes two specs with the same entry in construct names
	entry   string                                       // ShortKey of the composing function
	desc    string                                       // the stated combination
	oracles map[string]func(fn *ssa.Function) oracleFunc // ShortKey of callee -> outcomes
	cases   []composeCase
	judge   func(it *Interp, ctx interface{}, st *State) string // "" = the path agrees with the stated combination
	// steps: further calls made on every finished state of the previous call
	// (the step reads the previous result from the state)
	steps []composeStep
	// optional: the entry is an unexported helper whose clause is also covered
	// through its caller's spec; when it is gone the spec is kept as unconfirmed
	optional bool
	// requires: callees the judge reads events of; when the composing function
	// (or a function of its package it calls, two levels down) never calls one of
	// them, the code has another form than the one the judge can read: the spec is
	// kept as unconfirmed instead of being judged on events that cannot occur
	requires []string
	// noLiteralOf: a type (suffix of its full name) the function must not build by
	// a composite literal of its own, for the same reason
	noLiteralOf string
	// maxIter: bound on iterations of loops with decided conditions (0 = default 5000)
	maxIter int
	// termLimit: computed floats with larger terms become plain unknowns (0 = no limit)
	termLimit int
	// maxVisits: bound on undecided loop iterations for this spec (0 = default)
	maxVisits int
	// generalPosition: equality between two different free inputs is taken to be false
	generalPosition bool
	// skipTruncated: paths cut by the exploration bounds (unbounded descent for
	// ever closer points) are left out and counted instead of failing the case
	skipTruncated bool
	// splitBools: an undecided comparison feeding a boolean == / != partitions the path (its truth becomes a fact)
	splitBools bool
	// precise: byte-precise library models (interp_precise.go)
	precise bool
	// intervals: float intervals are propagated through arithmetic (interp_intervals.go)
	intervals bool
	// anyPath: judge every finished path, whatever it branched on (the judge
	// reads ranges from the state, not a history)
	anyPath bool
	// terms: floats carry their rational function (interp_terms.go); paths that
	// also branch on comparisons between such floats are judged too (the
	// comparison is available to the judge as a fact)
	terms bool
}

func boolOutcomes(n int) [][]AV {
	var out [][]AV
	for m := 0; m < 1<<n; m++ {
		var o []AV
		for i := 0; i < n; i++ {
			o = append(o, boolOf(m>>i&1 == 1))
		}
		out = append(out, o)
	}
	return out
}

func oracleBools(n int) func(fn *ssa.Function) oracleFunc {
	return func(*ssa.Function) oracleFunc {
		outs := boolOutcomes(n)
		return func(*Interp, *State, []AV) [][]AV { return outs }
	}
}

// oracleTop: one outcome, an unknown (non-opaque) value of the result type.
func oracleTop(fn *ssa.Function) oracleFunc {
	res := fn.Signature.Results()
	var o []AV
	for i := 0; i < res.Len(); i++ {
		o = append(o, topOf(res.At(i).Type(), false))
	}
	return func(*Interp, *State, []AV) [][]AV { return [][]AV{o} }
}

// oracleFreshNonNeg: like oracleFresh, and the float answers are known to be
// non-negative (distances).
func oracleFreshNonNeg(fn *ssa.Function) oracleFunc {
	inner := oracleFresh(fn)
	return func(it *Interp, s *State, args []AV) [][]AV {
		outs := inner(it, s, args)
		if it.NonNeg == nil {
			it.NonNeg = map[int]bool{}
		}
		for _, o := range outs[0] {
			if f, ok := o.(FloatV); ok && f.Sym > 0 {
				it.NonNeg[f.Sym] = true
			}
		}
		return outs
	}
}

// oracleFreshPos: like oracleFreshNonNeg, and the answers are taken to be
// strictly positive (the rule using it states the restriction).
func oracleFreshPos(fn *ssa.Function) oracleFunc {
	inner := oracleFreshNonNeg(fn)
	return func(it *Interp, s *State, args []AV) [][]AV {
		outs := inner(it, s, args)
		if it.Positive == nil {
			it.Positive = map[int]bool{}
		}
		for _, o := range outs[0] {
			if f, ok := o.(FloatV); ok && f.Sym > 0 {
				it.Positive[f.Sym] = true
			}
		}
		return outs
	}
}

// oracleFresh: one outcome whose floats (and points) are fresh identified
// unknowns, different for every call.
func oracleFresh(fn *ssa.Function) oracleFunc {
	res := fn.Signature.Results()
	return func(it *Interp, s *State, _ []AV) [][]AV {
		var o []AV
		for i := 0; i < res.Len(); i++ {
			o = append(o, it.freeValue(s, res.At(i).Type(), 0))
		}
		return [][]AV{o}
	}
}

func exactBool(v AV) (bool, bool) {
	b, ok := v.(BoolV)
	if !ok || b.T == b.F {
		return false, false
	}
	return b.T, true
}

func onlyOracleTrail(st *State, factsToo bool) bool {
	for _, t := range st.trail {
		if strings.HasPrefix(t.Desc, "oracle ") || factsToo && t.Fact != nil && !t.Opq {
			continue
		}
		return false
	}
	return true
}

type composeResult struct {
	verdict Verdict
	pos     string
	detail  string
	witness []string
}

var interpCreate sync.Mutex

func ruleCompose(mk func(thorough bool) []composeSpec, floor int) ruleFunc {
	return func(c *Ctx) {
		p := c.P
		specs := mk(c.Thorough())
		c.R.Rule("A-comp: the composing function is run by the abstract interpreter on every small shape with its callees uninterpreted (each call forks per possible answer and is logged with the identities of its arguments); on every finished path the result must equal the stated combination of the logged answers, and the logged answers must determine it")
		lim := Limits{MaxStates: 20000, MaxSteps: 60000, MaxVisits: 64, MaxDepth: 40}
		type job struct {
			si, ci int
			cons   string
			res    composeResult
			done   bool
		}
		var jobs []*job
		filter := os.Getenv("ORBCHECK_CASE")
		assumed := map[string]bool{}
		assume := func(a string) {
			if !assumed[a] {
				assumed[a] = true
				c.R.Assume(a)
			}
		}
		for _, sp := range specs {
			if sp.terms {
				assume("A-comp: computed floats are compared as rational functions of the unknowns over the reals; floating-point rounding is not modelled, and no quantity reaches the largest finite float")
			}
			if sp.generalPosition {
				assume("A-comp: two different free inputs are different values (coincident points / coordinates are not covered)")
			}
			if sp.skipTruncated {
				assume("A-comp: paths cut by the exploration bounds (endless re-clipping, ever deeper descent) are counted, not judged")
			}
			if sp.precise {
				assume("A-comp: bytes.Buffer, bytes.Reader, io.ReadFull, encoding/binary, encoding/hex and math.Float64bits/frombits behave as their documentation says (byte-precise models)")
			}
			if len(sp.oracles) > 0 {
				assume("A-comp: the uninterpreted callees are pure (their answer depends on their arguments only) and total")
			}
		}
		for si, sp := range specs {
			if p.funcByShortKey(sp.entry) == nil {
				if sp.optional {
					c.R.Add("A-comp", sp.entry, Unconfirmed, "", "helper not found (inlined or renamed); its clause is left to the specs of its callers ("+sp.desc+")")
					continue
				}
				c.R.Unknown("A-comp", sp.entry, "", "composing function not found")
				continue
			}
			if why := missingRequired(p, sp); why != "" {
				c.R.Add("A-comp", sp.entry, Unconfirmed, p.Pos(p.funcByShortKey(sp.entry).Pos()), why)
				continue
			}
			missing := ""
			for k := range sp.oracles {
				if p.funcByShortKey(k) == nil && p.externalFunc(k) == nil {
					missing = k
				}
			}
			if missing != "" {
				c.R.Unknown("A-comp", sp.entry, "", "callee "+missing+" not found")
				continue
			}
			for ci, cs := range sp.cases {
				if filter != "" && !strings.Contains(cs.label, filter) {
					continue
				}
				cons := fmt.Sprintf("%s(%s)", sp.entry, cs.label)
				if sp.tag != "" {
					cons = fmt.Sprintf("%s[%s](%s)", sp.entry, sp.tag, cs.label)
				}
				jobs = append(jobs, &job{si: si, ci: ci, cons: cons})
			}
		}
		ch := make(chan *job, len(jobs))
		for _, j := range jobs {
			ch <- j
		}
		close(ch)
		nw := runtime.NumCPU()
		if nw > 8 {
			nw = 8
		}
		if nw > len(jobs) {
			nw = len(jobs)
		}
		var wg sync.WaitGroup
		for w := 0; w < nw; w++ {
			wg.Add(1)
			go func() {
				defer wg.Done()
				var itPlain, itPrecise *Interp
				for j := range ch {
					sp := specs[j.si]
					var it *Interp
					interpCreate.Lock()
					if sp.precise {
						if itPrecise == nil {
							itPrecise = NewInterpPrecise(p, lim)
							itPrecise.KeepFinished = true
						}
						it = itPrecise
					} else {
						if itPlain == nil {
							itPlain = NewInterp(p, lim)
							itPlain.KeepFinished = true
						}
						it = itPlain
					}
					interpCreate.Unlock()
					j.res = runComposeCase(p, it, &sp, sp.cases[j.ci])
					j.done = true
				}
			}()
		}
		wg.Wait()
		for _, j := range jobs {
			c.R.Add("A-comp", j.cons, j.res.verdict, j.res.pos, j.res.detail, j.res.witness...)
		}
		c.R.Floor("A-comp", len(jobs), floor)
	}
}

// runComposeCase runs one case of a spec on the given interpreter and judges every finished path.
func runComposeCase(p *Program, it *Interp, sp *composeSpec, cs composeCase) (res composeResult) {
	defer func() {
		if x := recover(); x != nil {
			res = composeResult{verdict: Undecided, detail: fmt.Sprintf("interpreter panic: %v", x)}
		}
	}()
	t0 := time.Now()
	defer func() {
		if os.Getenv("ORBCHECK_STATS") != "" {
			fmt.Printf("TIME %6.1fs %s(%s)\n", time.Since(t0).Seconds(), sp.entry, cs.label)
		}
	}()
	fn := p.funcByShortKey(sp.entry)
	it.Oracles = map[*ssa.Function]oracleFunc{}
	it.Terms = sp.terms
	it.Intervals = sp.intervals
	it.Precise = sp.precise
	it.GeneralPosition = sp.generalPosition
	it.SplitBools = sp.splitBools
	it.NonNeg, it.Positive, it.Infinitesimal = nil, nil, nil
	it.TermLimit = sp.termLimit
	it.MaxIter = sp.maxIter
	it.lim.MaxVisits = 64
	if sp.maxVisits > 0 {
		it.lim.MaxVisits = sp.maxVisits
	}
	var okeys []string
	for k := range sp.oracles {
		okeys = append(okeys, k)
	}
	sort.Strings(okeys)
	for _, k := range okeys {
		of := p.funcByShortKey(k)
		if of == nil {
			of = p.externalFunc(k) // "import/path.Name" of a library function
		}
		if of == nil {
			return composeResult{verdict: Undecided, detail: "oracle " + k + " is not a function of the program"}
		}
		it.Oracles[of] = sp.oracles[k](of)
	}
	it.Faults, it.Finished = nil, nil
	it.Paths, it.Truncated, it.Steps, it.NFinished = 0, 0, 0, 0
	it.TruncWhy = map[string]int{}
	it.Unsupported = map[string]int{}
	s := &State{heap: make(map[int]AV, len(it.baseHeap)+16)}
	for k, v := range it.baseHeap {
		s.heap[k] = v
	}
	args, ctx := cs.build(it, s)
	pos := p.Pos(fn.Pos())
	judged, skipped, infeasible := 0, 0, 0
	var failure *composeResult
	// depth first over the steps, so that only one branch of finished states is alive at a time
	var leaf func(st *State)
	leaf = func(st *State) {
		if !sp.anyPath && !onlyOracleTrail(st, sp.terms) {
			skipped++
			return
		}
		if sp.terms && pathOrder(it, st, nil).infeasible() {
			infeasible++ // the comparisons assumed on this path contradict each other
			return
		}
		judged++
		if why := sp.judge(it, ctx, st); why != "" {
			var hist []string
			for _, ev := range st.events {
				var outs []string
				for _, o := range ev.Out {
					outs = append(outs, avString(o))
				}
				hist = append(hist, fmt.Sprintf("%s@%s=%s", ev.Fn.Name(), ev.Pos, strings.Join(outs, ",")))
			}
			wit := []string{"answers on this path: " + strings.Join(hist, " ")}
			if sp.terms {
				var facts []string
				for _, t := range st.trail {
					if f := t.Fact; f != nil && f.A != nil && f.B != nil {
						neg := ""
						if !f.Taken {
							neg = "not "
						}
						facts = append(facts, fmt.Sprintf("%s(%s %s %s) at %s", neg, it.nameTerm(f.A, nil), f.Op, it.nameTerm(f.B, nil), t.Pos))
					}
				}
				if len(facts) > 40 {
					facts = append(facts[:40], "...")
				}
				wit = append(wit, "comparisons assumed on this path: "+strings.Join(facts, "; "))
			}
			failure = &composeResult{verdict: Violated, pos: pos, detail: why + "; expected: " + sp.desc, witness: wit}
		}
	}
	var from func(st *State, k int)
	from = func(st *State, k int) {
		if failure != nil {
			return
		}
		if k == len(sp.steps) {
			leaf(st)
			return
		}
		name, sargs, ok := sp.steps[k](it, st, ctx)
		if !ok {
			from(st, k+1) // nothing to feed on: the path ends with what it has
			return
		}
		sf := p.funcByShortKey(name)
		if sf == nil {
			failure = &composeResult{verdict: Undecided, detail: "step function " + name + " not found"}
			return
		}
		st.done, st.result = false, nil
		it.Finished = nil
		it.pushFrame(st, sf, sargs, nil, nil)
		it.Run(st)
		fin := it.Finished
		it.Finished = nil
		for _, f := range fin {
			from(f, k+1)
		}
	}
	it.pushFrame(s, fn, args, nil, nil)
	it.Run(s)
	first := it.Finished
	it.Finished = nil
	for _, f := range first {
		from(f, 0)
	}
	if os.Getenv("ORBCHECK_STATS") != "" {
		fmt.Printf("STATS %s(%s): paths=%d judged=%d truncated=%d %v steps=%d\n", sp.entry, cs.label, it.Paths, judged, it.Truncated, it.TruncWhy, it.Steps)
	}
	if it.Truncated > 0 && !sp.skipTruncated {
		return composeResult{verdict: Undecided, pos: pos, detail: fmt.Sprintf("exploration truncated (%v); the composition is not decided", it.TruncWhy)}
	}
	truncated := it.Truncated
	for _, f := range it.Faults {
		if f.Free {
			return composeResult{verdict: Violated, pos: p.InstrPos(f.In), detail: fmt.Sprintf("%s fault while composing: %s", f.Kind, f.Detail)}
		}
	}
	if failure != nil {
		return *failure
	}
	if judged == 0 {
		return composeResult{verdict: Undecided, pos: pos, detail: fmt.Sprintf("no finished path depends on the callees' answers alone (%d paths branch on other unknowns)", skipped)}
	}
	extra := ""
	if truncated > 0 {
		extra = fmt.Sprintf(", %d cut by the exploration bounds", truncated)
	}
	return composeResult{verdict: Discharged, pos: pos, detail: fmt.Sprintf("%s: %d paths judged, %d infeasible, %d not judged (branch on other unknowns)%s", sp.desc, judged, infeasible, skipped, extra)}
}

// ---------------------------------------------------------------------------
// C09: planar containment

type containsCtx struct {
	point  string         // identity of the query point
	vertex map[string]int // identity of a ring vertex -> index
	n      int
	ring   map[string]int // identity of a ring / polygon value -> index
}

func freePointAV(it *Interp) AV {
	return ArrV{N: 2, Elems: []AV{it.freeFloat(), it.freeFloat()}, Def: FloatV{Finite: true}}
}

func eventsOf(st *State, name string) []oracleEvent {
	var out []oracleEvent
	for _, ev := range st.events {
		if ShortKey(FuncKey(ev.Fn)) == name {
			out = append(out, ev)
		}
	}
	return out
}

func planarContainsSpecs(thorough bool) []composeSpec {
	var ringCases, polyCases, mpolyCases []composeCase
	maxRing, maxHoles, maxMembers := 5, 4, 3
	if thorough {
		maxRing, maxHoles, maxMembers = 11, 10, 8
	}
	for n := 1; n <= maxRing; n++ {
		n := n
		ringCases = append(ringCases, composeCase{fmt.Sprintf("ring of %d vertices", n), func(it *Interp, s *State) ([]AV, interface{}) {
			r := it.buildGeom(s, pts("Ring", n)).(SliceV)
			pt := freePointAV(it)
			ctx := &containsCtx{point: identString(pt), vertex: map[string]int{}, n: n}
			arr := s.heap[r.Arr].(ArrV)
			for i, e := range arr.Elems {
				ctx.vertex[identString(e)] = i
			}
			return []AV{r, pt}, ctx
		}})
	}
	for k := 1; k <= maxHoles; k++ {
		k := k
		polyCases = append(polyCases, composeCase{fmt.Sprintf("polygon of %d rings", k), func(it *Interp, s *State) ([]AV, interface{}) {
			var rings []*GeomHyp
			for i := 0; i < k; i++ {
				rings = append(rings, pts("Ring", 4))
			}
			pg := it.buildGeom(s, of("Polygon", rings...)).(SliceV)
			pt := freePointAV(it)
			ctx := &containsCtx{point: identString(pt), ring: map[string]int{}, n: k}
			for i, e := range s.heap[pg.Arr].(ArrV).Elems {
				ctx.ring[identString(e)] = i
			}
			return []AV{pg, pt}, ctx
		}})
	}
	for m := 0; m <= maxMembers; m++ {
		m := m
		mpolyCases = append(mpolyCases, composeCase{fmt.Sprintf("multipolygon of %d polygons", m), func(it *Interp, s *State) ([]AV, interface{}) {
			var ps []*GeomHyp
			for i := 0; i < m; i++ {
				ps = append(ps, of("Polygon", pts("Ring", 4)))
			}
			mp := it.buildGeom(s, of("MultiPolygon", ps...)).(SliceV)
			pt := freePointAV(it)
			ctx := &containsCtx{point: identString(pt), ring: map[string]int{}, n: m}
			for i, e := range s.heap[mp.Arr].(ArrV).Elems {
				ctx.ring[identString(e)] = i
			}
			return []AV{mp, pt}, ctx
		}})
	}

	// answers of the member oracle, by member index; false if an event does
	// not name a member and the query point
	memberAnswers := func(ctx *containsCtx, evs []oracleEvent) (map[int]bool, string) {
		ans := map[int]bool{}
		for _, ev := range evs {
			if len(ev.Args) != 2 {
				return nil, "callee called with an unexpected argument list"
			}
			i, ok := ctx.ring[identString(ev.Args[0])]
			if !ok {
				return nil, fmt.Sprintf("the callee at %s is asked about a value that is not a member of the argument", ev.Pos)
			}
			if identString(ev.Args[1]) != ctx.point {
				return nil, fmt.Sprintf("the callee at %s is not asked about the query point", ev.Pos)
			}
			b, _ := exactBool(ev.Out[0])
			if prev, seen := ans[i]; seen && prev != b {
				continue // asked twice with different answers: an infeasible path
			}
			ans[i] = b
		}
		return ans, ""
	}

	return []composeSpec{
		{
			entry: "planar.RingContains",
			desc:  "true iff some edge of the implicitly closed ring reports the point on it, else the parity of the crossings over every edge (each consecutive pair and the closing pair last-first, each consulted exactly once)",
			oracles: map[string]func(*ssa.Function) oracleFunc{
				"planar.rayIntersect":  oracleBools(2),
				"orb.(Bound).Contains": oracleBools(1),
				"orb.(Ring).Bound":     oracleTop,
			},
			cases: ringCases,
			judge: func(_ *Interp, cx interface{}, st *State) string {
				ctx := cx.(*containsCtx)
				res, ok := exactBool(st.result[0])
				if !ok {
					return "the result is not decided by the callees' answers"
				}
				rays := eventsOf(st, "planar.rayIntersect")
				for _, ev := range eventsOf(st, "orb.(Bound).Contains") {
					if b, _ := exactBool(ev.Out[0]); !b && !res && len(rays) == 0 {
						return "" // rejected by the bounding box
					}
				}
				anyOn, parity := false, false
				count := map[[2]int]int{}
				for _, ev := range rays {
					if len(ev.Args) != 3 || identString(ev.Args[0]) != ctx.point {
						return fmt.Sprintf("the edge test at %s is not asked about the query point", ev.Pos)
					}
					i, ok1 := ctx.vertex[identString(ev.Args[1])]
					j, ok2 := ctx.vertex[identString(ev.Args[2])]
					if !ok1 || !ok2 {
						return fmt.Sprintf("the edge test at %s is given a point that is not a vertex of the ring", ev.Pos)
					}
					if i > j {
						i, j = j, i
					}
					if !(j == i+1 || (i == 0 && j == ctx.n-1)) {
						return fmt.Sprintf("the edge test at %s is given vertices %d and %d, which are not consecutive", ev.Pos, i, j)
					}
					count[[2]int{i, j}]++
					inter, _ := exactBool(ev.Out[0])
					on, _ := exactBool(ev.Out[1])
					if on {
						anyOn = true
					} else if inter {
						parity = !parity
					}
				}
				if anyOn {
					if !res {
						return "an edge reports the point on the boundary but the result is false"
					}
					return ""
				}
				want := map[[2]int]int{}
				for i := 0; i < ctx.n; i++ {
					a, b := i, (i+1)%ctx.n
					if a > b {
						a, b = b, a
					}
					want[[2]int{a, b}]++
				}
				for e, w := range want {
					if count[e] != w {
						return fmt.Sprintf("edge (%d,%d) of the closed ring is consulted %d time(s), want %d", e[0], e[1], count[e], w)
					}
				}
				if res != parity {
					return fmt.Sprintf("the result is %v but the crossings counted over all edges have parity %v", res, parity)
				}
				return ""
			},
		},
		{
			entry:   "planar.PolygonContains",
			desc:    "true iff the outer ring contains the point and no hole does",
			oracles: map[string]func(*ssa.Function) oracleFunc{"planar.RingContains": oracleBools(1)},
			cases:   polyCases,
			judge: func(_ *Interp, cx interface{}, st *State) string {
				ctx := cx.(*containsCtx)
				res, ok := exactBool(st.result[0])
				if !ok {
					return "the result is not decided by the callees' answers"
				}
				ans, why := memberAnswers(ctx, eventsOf(st, "planar.RingContains"))
				if why != "" {
					return why
				}
				// determined value of  a0 && !(a1 || ... )
				if a0, seen := ans[0]; seen && !a0 {
					if res {
						return "the outer ring does not contain the point but the result is true"
					}
					return ""
				}
				for i := 1; i < ctx.n; i++ {
					if a, seen := ans[i]; seen && a {
						if res {
							return fmt.Sprintf("hole %d contains the point but the result is true", i)
						}
						return ""
					}
				}
				for i := 0; i < ctx.n; i++ {
					if _, seen := ans[i]; !seen {
						what := fmt.Sprintf("hole %d", i)
						if i == 0 {
							what = "the outer ring"
						}
						return fmt.Sprintf("the result %v is returned without consulting %s", res, what)
					}
				}
				if !res {
					return "the outer ring contains the point and no hole does, but the result is false"
				}
				return ""
			},
		},
		{
			entry:   "planar.MultiPolygonContains",
			desc:    "true iff some member polygon contains the point",
			oracles: map[string]func(*ssa.Function) oracleFunc{"planar.PolygonContains": oracleBools(1)},
			cases:   mpolyCases,
			judge: func(_ *Interp, cx interface{}, st *State) string {
				ctx := cx.(*containsCtx)
				res, ok := exactBool(st.result[0])
				if !ok {
					return "the result is not decided by the callees' answers"
				}
				ans, why := memberAnswers(ctx, eventsOf(st, "planar.PolygonContains"))
				if why != "" {
					return why
				}
				for i := 0; i < ctx.n; i++ {
					if a, seen := ans[i]; seen && a {
						if !res {
							return fmt.Sprintf("member %d contains the point but the result is false", i)
						}
						return ""
					}
				}
				for i := 0; i < ctx.n; i++ {
					if _, seen := ans[i]; !seen {
						return fmt.Sprintf("the result %v is returned without consulting member %d", res, i)
					}
				}
				if res {
					return "no member contains the point but the result is true"
				}
				return ""
			},
		},
	}
}

// ---------------------------------------------------------------------------
// C06: Reverse is the reversal permutation (in place)

type permCtx struct {
	slice SliceV
	ids   []string
}

func reverseSpecs(thorough bool) []composeSpec {
	maxN := 6
	if thorough {
		maxN = 12
	}
	mk := func(entry, kind string) composeSpec {
		var cases []composeCase
		for n := 0; n <= maxN; n++ {
			n := n
			cases = append(cases, composeCase{fmt.Sprintf("%d vertices", n), func(it *Interp, s *State) ([]AV, interface{}) {
				v := it.buildGeom(s, pts(kind, n)).(SliceV)
				ctx := &permCtx{slice: v}
				for _, e := range s.heap[v.Arr].(ArrV).Elems {
					ctx.ids = append(ctx.ids, identString(e))
				}
				return []AV{v}, ctx
			}})
		}
		return composeSpec{
			entry: entry,
			desc:  "after the call vertex i is the vertex that was at position n-1-i, for every i (so reversing twice is the identity)",
			cases: cases,
			judge: func(_ *Interp, cx interface{}, st *State) string {
				ctx := cx.(*permCtx)
				arr, ok := st.heap[ctx.slice.Arr].(ArrV)
				if !ok || len(arr.Elems) != len(ctx.ids) {
					return "the backing array changed shape"
				}
				n := len(ctx.ids)
				for i, e := range arr.Elems {
					if identString(e) != ctx.ids[n-1-i] {
						at := "a value that was not in the input"
						for j, id := range ctx.ids {
							if id == identString(e) {
								at = fmt.Sprintf("the vertex that was at position %d", j)
							}
						}
						return fmt.Sprintf("position %d holds %s, want the vertex that was at position %d", i, at, n-1-i)
					}
				}
				return ""
			},
		}
	}
	return []composeSpec{mk("orb.(LineString).Reverse", "LineString"), mk("orb.(Ring).Reverse", "Ring")}
}

// contentString renders an abstract geometry by structure and identities of
// its coordinates, ignoring which heap cells hold it.
func contentString(st *State, v AV) string {
	switch x := v.(type) {
	case SliceV:
		if x.Nil {
			return "nil"
		}
		arr, ok := st.heap[x.Arr].(ArrV)
		if !ok || arr.Elems == nil || x.Hi > len(arr.Elems) {
			return "?"
		}
		var parts []string
		for _, e := range arr.Elems[x.Lo:x.Hi] {
			parts = append(parts, contentString(st, e))
		}
		return "[" + strings.Join(parts, " ") + "]"
	case IfaceV:
		if x.Nil {
			return "nil-interface"
		}
		if x.Typ == nil {
			return "?"
		}
		if sl, ok := x.Val.(SliceV); ok && sl.Nil {
			// orb.Clone answers a typed nil slice with the nil interface (its
			// documented arms `if g == nil { return nil }`): the two are one value here
			return "nil-interface"
		}
		return kindName(x.Typ) + ":" + contentString(st, x.Val)
	case StructV:
		var parts []string
		for _, f := range x.Fields {
			parts = append(parts, contentString(st, f))
		}
		return "{" + strings.Join(parts, " ") + "}"
	}
	return identString(v)
}

// C06: a clone has the content of the original (same kind, nesting, lengths,
// and the very same coordinates in the same places).
func cloneSpecs(thorough bool) []composeSpec {
	kinds := []string{"Point", "MultiPoint", "LineString", "MultiLineString", "Ring", "Polygon", "MultiPolygon", "Collection", "Bound"}
	var generic []composeCase
	for _, h := range allHyps(kinds, thorough) {
		h := h
		generic = append(generic, composeCase{h.String(), func(it *Interp, s *State) ([]AV, interface{}) {
			g := it.buildIface(s, h)
			return []AV{g}, contentString(s, g)
		}})
	}
	judge := func(_ *Interp, cx interface{}, st *State) string {
		want := cx.(string)
		if len(st.result) != 1 {
			return "no result"
		}
		if got := contentString(st, st.result[0]); got != want {
			return fmt.Sprintf("the clone's content is %s, the original's %s", got, want)
		}
		return ""
	}
	specs := []composeSpec{{
		entry: "orb.Clone",
		desc:  "the clone has the kind, nesting, lengths and coordinates of the original, each coordinate in its place",
		cases: generic,
		judge: judge,
	}}
	for _, k := range kinds {
		if k == "Point" || k == "Bound" {
			continue
		}
		k := k
		var cases []composeCase
		for _, h := range hypsOfKind(k, thorough) {
			h := h
			cases = append(cases, composeCase{h.String(), func(it *Interp, s *State) ([]AV, interface{}) {
				v := it.buildGeom(s, h)
				return []AV{v}, contentString(s, v)
			}})
		}
		specs = append(specs, composeSpec{
			entry: "orb.(" + k + ").Clone",
			desc:  "the clone has the nesting, lengths and coordinates of the original, each coordinate in its place",
			cases: cases,
			judge: judge,
		})
	}
	return specs
}

// externalFunc: a package-level function of an imported library, by "import/path.Name".
func (p *Program) externalFunc(key string) *ssa.Function {
	i := strings.LastIndex(key, ".")
	if i < 0 {
		return nil
	}
	for _, pkg := range p.Prog.AllPackages() {
		if pkg.Pkg.Path() == key[:i] {
			return pkg.Func(key[i+1:])
		}
	}
	return nil
}

// missingRequired: "" when every callee named in sp.requires is called
// statically from the entry or from a same-package function it calls (two
// levels down); otherwise the reason.
func missingRequired(p *Program, sp composeSpec) string {
	if len(sp.requires) == 0 && sp.noLiteralOf == "" {
		return ""
	}
	entry := p.funcByShortKey(sp.entry)
	seen := map[*ssa.Function]bool{}
	called := map[string]bool{}
	var walk func(fn *ssa.Function, depth int)
	walk = func(fn *ssa.Function, depth int) {
		if fn == nil || seen[fn] {
			return
		}
		seen[fn] = true
		for _, af := range fn.AnonFuncs {
			walk(af, depth)
		}
		for _, b := range fn.Blocks {
			for _, in := range b.Instrs {
				cc, ok := in.(ssa.CallInstruction)
				if !ok {
					continue
				}
				callee := cc.Common().StaticCallee()
				if callee == nil {
					continue
				}
				called[ShortKey(FuncKey(callee))] = true
				if depth < 2 && callee.Pkg != nil && callee.Pkg == entry.Pkg {
					walk(callee, depth+1)
				}
			}
		}
	}
	walk(entry, 0)
	if sp.noLiteralOf != "" {
		for fn := range seen {
			for _, b := range fn.Blocks {
				for _, in := range b.Instrs {
					if al, ok := in.(*ssa.Alloc); ok {
						if pt, ok := al.Type().Underlying().(*types.Pointer); ok && strings.HasSuffix(pt.Elem().String(), sp.noLiteralOf) {
							return "the function builds a " + sp.noLiteralOf + " value itself instead of (or besides) calling the constructor whose calls the judge reads: form not recognised; the clause is not decided here (" + sp.desc + ")"
						}
					}
				}
			}
		}
	}
	for _, r := range sp.requires {
		if !called[r] {
			return "the function never calls " + r + ", whose calls the judge reads: the code has a form this rule does not recognise; the clause is not decided here (" + sp.desc + ")"
		}
	}
	return ""
}
