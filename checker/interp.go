package main

// Engine A — path-sensitive abstract interpreter over go/ssa.
//
// No orb code is compiled or run: SSA instructions are evaluated over the
// abstract values of av.go.  A branch the abstract state does not decide is
// explored both ways (the path is partitioned) and remembered in the trail
// with its taint; no path condition is handed to a solver.  Loops are bounded
// by a per-block visit limit, paths by a step budget; what was cut is counted
// and reported, never called "discharged".

import (
	"fmt"
	"go/constant"
	"go/token"
	"go/types"
	"math"
	"os"

	"golang.org/x/tools/go/ssa"
)

type trailEntry struct {
	Pos  string
	Desc string
	Opq  bool
	Der  bool
	Fact *floatFact // Interp.Terms only: the float comparison decided here
}

type Frame struct {
	fn     *ssa.Function
	env    map[ssa.Value]AV
	block  *ssa.BasicBlock
	prev   *ssa.BasicBlock
	pc     int
	call   ssa.CallInstruction // instruction in the caller awaiting the result
	visits map[*ssa.BasicBlock]int
	total  map[*ssa.BasicBlock]int
	defers []*ssa.Defer
}

// oracleEvent: one call of an uninterpreted (oracle) function on this path,
// with the abstract arguments it received and the outcome chosen for it.
type oracleEvent struct {
	Fn   *ssa.Function
	Args []AV
	Out  []AV
	Pos  string
}

// oracleFunc lists the possible outcomes (result tuples) of one oracle call.
type oracleFunc func(it *Interp, s *State, args []AV) [][]AV

type State struct {
	rel    map[string]uint8 // Interp.Terms: what earlier undecided comparisons on this path established between two terms (bit 1: <, 2: ==, 4: >)
	notes  map[string]AV    // values a multi-step rule keeps between steps
	heap   map[int]AV
	frames []*Frame
	trail  []trailEntry
	events []oracleEvent
	steps  int
	result []AV
	done   bool
	syms   map[int]*symInfo
	fsyms  map[int]fInterval
}

// fInterval: what comparisons with constants have established about a free float input.
type fInterval struct {
	Lo, Hi             float64
	LoStrict, HiStrict bool
}

type Fault struct {
	Kind    string // index, slice, nil-deref, nil-call, makeslice, panic, divzero, alloc
	In      ssa.Instruction
	Fn      *ssa.Function
	Detail  string
	Trail   []trailEntry
	Free    bool // trail contains only decided and free branches
	Decided bool // trail contains no undecided branch at all
	Stack   []string
}

type Limits struct {
	MaxStates int
	MaxSteps  int
	MaxVisits int
	MaxDepth  int
}

type Interp struct {
	p            *Program
	lim          Limits
	nextCell     int
	nextSym      int
	work         []*State
	Faults       []*Fault
	Finished     []*State
	Paths        int
	Truncated    int
	TruncWhy     map[string]int
	Steps        int
	baseHeap     map[int]AV
	globals      map[*ssa.Global]int
	Unsupported  map[string]int
	liveCache    map[*ssa.Function]*liveInfo
	seen         map[uint64]bool
	Merged       int
	NFinished    int
	KeepFinished bool // keep the final states (needed only for postconditions)
	InitNotes    map[string]string
	Hostile      bool                                               // decoder analysis: symbols are attacker-chosen
	allocLimit   func(n int64, in ssa.Instruction, s *State) string // optional: judge allocation sizes
	// Oracles: module functions that are not entered; every call forks the
	// path once per listed outcome (result tuple) and is logged in State.events.
	Oracles map[*ssa.Function]oracleFunc
	// Terms: floats computed from identified unknowns carry their rational function (interp_terms.go)
	Terms           bool
	absAtoms        map[string]int
	absOf           map[int]*fterm
	atomFn          map[int]string
	atomArgs        map[int][2]int
	orderCache      map[[2]string]uint8 // termOrder.static
	Precise         bool                // byte-precise library models (interp_precise.go)
	preciseKind     map[int]string
	curState        *State
	MaxIter         int          // >0: bound on the iterations of a loop whose own condition is decided (default 5000)
	TermLimit       int          // >0: a computed float whose term has more monomials than this becomes a plain unknown
	GeneralPosition bool         // two different free inputs are never equal (a stated restriction of the rule that sets it)
	Intervals       bool         // propagate float intervals through arithmetic (interp_intervals.go)
	NonNeg          map[int]bool // atoms known to be >= 0 (answers of distance oracles)
	Positive        map[int]bool // atoms taken to be > 0 (a stated restriction of the rule that sets them)
	SplitBools      bool         // partition the path on an undecided comparison that feeds a boolean == / != (so that it becomes a fact)
	Infinitesimal   map[int]bool // positive atoms smaller than every positive quantity built from the others (one-ulp nudges)
	inputLen        int
}

// NewInterpPrecise: like NewInterp, with the byte-precise library models on
// from the start (package initialisers are evaluated with them, so that error
// sentinels get identities).
func NewInterpPrecise(p *Program, lim Limits) *Interp {
	preciseFromStart = true
	defer func() { preciseFromStart = false }()
	return NewInterp(p, lim)
}

var preciseFromStart bool

func NewInterp(p *Program, lim Limits) *Interp {
	it := &Interp{p: p, lim: lim, Precise: preciseFromStart, nextCell: 1, nextSym: 1, globals: map[*ssa.Global]int{},
		TruncWhy: map[string]int{}, Unsupported: map[string]int{}, baseHeap: map[int]AV{},
		liveCache: map[*ssa.Function]*liveInfo{}, seen: map[uint64]bool{}}
	it.initGlobals()
	hasCustomUnmarshal = func(t types.Type) bool {
		nt, ok := t.(*types.Named)
		if !ok || nt.Obj().Pkg() == nil || p.SSA[nt.Obj().Pkg().Path()] == nil {
			return false
		}
		ms := p.Prog.MethodSets.MethodSet(types.NewPointer(nt))
		for _, m := range []string{"UnmarshalJSON", "UnmarshalBSON"} {
			if ms.Lookup(nt.Obj().Pkg(), m) != nil {
				return true
			}
		}
		return false
	}
	return it
}

func (it *Interp) newCell(s *State, v AV) int {
	id := it.nextCell
	it.nextCell++
	s.heap[id] = v
	return id
}

func (s *State) clone() *State {
	n := &State{heap: make(map[int]AV, len(s.heap)), steps: s.steps}
	for k, v := range s.heap {
		n.heap[k] = v
	}
	n.trail = append([]trailEntry(nil), s.trail...)
	n.events = append([]oracleEvent(nil), s.events...)
	if s.rel != nil {
		n.rel = make(map[string]uint8, len(s.rel))
		for k, v := range s.rel {
			n.rel[k] = v
		}
	}
	if s.notes != nil {
		n.notes = make(map[string]AV, len(s.notes))
		for k, v := range s.notes {
			n.notes[k] = v
		}
	}
	for _, f := range s.frames {
		nf := &Frame{fn: f.fn, env: make(map[ssa.Value]AV, len(f.env)), block: f.block, prev: f.prev, pc: f.pc, call: f.call,
			visits: make(map[*ssa.BasicBlock]int, len(f.visits)), defers: append([]*ssa.Defer(nil), f.defers...)}
		if f.total != nil {
			nf.total = make(map[*ssa.BasicBlock]int, len(f.total))
			for k, v := range f.total {
				nf.total[k] = v
			}
		}
		for k, v := range f.env {
			nf.env[k] = v
		}
		for k, v := range f.visits {
			nf.visits[k] = v
		}
		n.frames = append(n.frames, nf)
	}
	if s.fsyms != nil {
		n.fsyms = make(map[int]fInterval, len(s.fsyms))
		for k, v := range s.fsyms {
			n.fsyms[k] = v
		}
	}
	if s.syms != nil {
		n.syms = make(map[int]*symInfo, len(s.syms))
		for k, v := range s.syms {
			c := *v
			n.syms[k] = &c
		}
	}
	return n
}

func (s *State) top() *Frame { return s.frames[len(s.frames)-1] }

// ---------------------------------------------------------------------------
// globals: package-level variables get a cell; initial contents come from
// abstractly evaluating the stores of the package initialisers that have
// constant or literal right-hand sides, everything else is unknown.

func (it *Interp) initGlobals() {
	s := &State{heap: it.baseHeap}
	for _, path := range it.p.Order {
		sp := it.p.SSA[path]
		for _, m := range sp.Members {
			g, ok := m.(*ssa.Global)
			if !ok {
				continue
			}
			et := g.Type().Underlying().(*types.Pointer).Elem()
			var v AV
			if types.IsInterface(et) {
				// zero value; the abstract evaluation of the package initialiser below stores the
				// errors.New(...) values (if that evaluation fails the variable is reset to "non-nil")
				v = IfaceV{Nil: true}
			} else {
				v = topOf(et, true)
			}
			it.globals[g] = it.newCell(s, v)
		}
	}
	// evaluate the package initialisers abstractly (single path expected)
	for _, path := range it.p.Order {
		sp := it.p.SSA[path]
		if g, ok := sp.Members["init$guard"].(*ssa.Global); ok {
			s.heap[it.globals[g]] = boolOf(false)
		}
	}
	it.InitNotes = map[string]string{}
	for _, path := range it.p.Order {
		sp := it.p.SSA[path]
		initFn := sp.Func("init")
		if initFn == nil || len(initFn.Blocks) == 0 {
			continue
		}
		st := &State{heap: make(map[int]AV, len(it.baseHeap))}
		for k, v := range it.baseHeap {
			st.heap[k] = v
		}
		save := it.lim
		it.lim = Limits{MaxStates: 50, MaxSteps: 200000, MaxVisits: 5000, MaxDepth: 30}
		it.Faults, it.Finished = nil, nil
		it.KeepFinished = true
		it.pushFrame(st, initFn, nil, nil, nil)
		it.Run(st)
		it.lim = save
		if len(it.Finished) == 1 && len(it.Faults) == 0 {
			it.baseHeap = it.Finished[0].heap
			it.InitNotes[path] = "evaluated"
		} else {
			it.InitNotes[path] = fmt.Sprintf("not evaluated (%d paths, %d faults): globals stay unknown", len(it.Finished), len(it.Faults))
			for _, m := range sp.Members {
				if g, ok := m.(*ssa.Global); ok {
					et := g.Type().Underlying().(*types.Pointer).Elem()
					if types.IsInterface(et) {
						it.baseHeap[it.globals[g]] = IfaceV{Top: true, Opq: true}
					}
				}
			}
		}
		it.Faults, it.Finished = nil, nil
	}
	it.Paths, it.Truncated, it.Steps, it.Merged = 0, 0, 0, 0
	it.KeepFinished = false
	it.TruncWhy = map[string]int{}
	it.Unsupported = map[string]int{}
}

func (it *Interp) constVal(c *ssa.Const) AV {
	t := c.Type()
	if c.Value == nil {
		return zeroOf(t)
	}
	switch c.Value.Kind() {
	case constant.Bool:
		return boolOf(constant.BoolVal(c.Value))
	case constant.String:
		s := constant.StringVal(c.Value)
		return StrV{LenKnown: true, Len: len(s), HasLit: true, Lit: s}
	case constant.Int:
		if b, ok := t.Underlying().(*types.Basic); ok && b.Info()&types.IsFloat != 0 {
			f, _ := constant.Float64Val(c.Value)
			return FloatV{Known: true, V: f}
		}
		if i, ok := constant.Int64Val(c.Value); ok {
			return intOf(i)
		}
		if u, ok := constant.Uint64Val(c.Value); ok {
			return intOf(int64(u))
		}
		return IntV{}
	case constant.Float:
		f, _ := constant.Float64Val(c.Value)
		if b, ok := t.Underlying().(*types.Basic); ok && b.Info()&types.IsInteger != 0 {
			return intOf(int64(f))
		}
		return FloatV{Known: true, V: f}
	}
	return topOf(t, true)
}

// ---------------------------------------------------------------------------
// path helpers

func readPath(v AV, path []int) AV {
	for _, i := range path {
		switch x := v.(type) {
		case StructV:
			if i < 0 || i >= len(x.Fields) {
				return TopV{Opq: true}
			}
			v = x.Fields[i]
		case ArrV:
			if x.Elems == nil {
				v = x.Def
			} else if i < 0 {
				if len(x.Elems) == 0 {
					return x.Def
				}
				j := x.Elems[0]
				for _, e := range x.Elems[1:] {
					j = joinAV(j, e)
				}
				v = j
			} else if i >= len(x.Elems) {
				return TopV{Opq: true}
			} else {
				v = x.Elems[i]
			}
		default:
			return TopV{Opq: true}
		}
	}
	return v
}

func writePath(v AV, path []int, nv AV) AV {
	if len(path) == 0 {
		return nv
	}
	i := path[0]
	switch x := v.(type) {
	case StructV:
		if i < 0 || i >= len(x.Fields) {
			return v
		}
		f := make([]AV, len(x.Fields))
		copy(f, x.Fields)
		f[i] = writePath(f[i], path[1:], nv)
		return StructV{Fields: f}
	case ArrV:
		if x.Elems == nil {
			return ArrV{N: x.N, Def: joinAV(x.Def, writePath(x.Def, path[1:], nv))}
		}
		e := make([]AV, len(x.Elems))
		copy(e, x.Elems)
		if i < 0 {
			for k := range e {
				e[k] = joinAV(e[k], writePath(e[k], path[1:], nv))
			}
		} else if i < len(e) {
			e[i] = writePath(e[i], path[1:], nv)
		}
		return ArrV{N: x.N, Elems: e, Def: x.Def}
	}
	return v
}

func equalAV(a, b AV) bool {
	switch x := a.(type) {
	case BoolV:
		y, ok := b.(BoolV)
		return ok && x == y
	case IntV:
		y, ok := b.(IntV)
		return ok && x == y
	case FloatV:
		y, ok := b.(FloatV)
		return ok && x.Known == y.Known && x.Opq == y.Opq && (!x.Known || x.V == y.V || (x.V != x.V && y.V != y.V))
	case StrV:
		y, ok := b.(StrV)
		return ok && x == y
	case PtrV:
		y, ok := b.(PtrV)
		if !ok || x.Nil != y.Nil || x.Top != y.Top || x.Cell != y.Cell || x.MayNil != y.MayNil || len(x.Path) != len(y.Path) {
			return false
		}
		for i := range x.Path {
			if x.Path[i] != y.Path[i] {
				return false
			}
		}
		return true
	case SliceV:
		y, ok := b.(SliceV)
		return ok && x == y
	case IfaceV:
		y, ok := b.(IfaceV)
		if !ok || x.Nil != y.Nil || x.Top != y.Top || x.User != y.User || x.MayNil != y.MayNil {
			return false
		}
		if (x.Typ == nil) != (y.Typ == nil) || (x.Typ != nil && !types.Identical(x.Typ, y.Typ)) {
			return false
		}
		return x.Val == nil && y.Val == nil || x.Val != nil && y.Val != nil && equalAV(x.Val, y.Val)
	case StructV:
		y, ok := b.(StructV)
		if !ok || len(x.Fields) != len(y.Fields) {
			return false
		}
		for i := range x.Fields {
			if !equalAV(x.Fields[i], y.Fields[i]) {
				return false
			}
		}
		return true
	case ArrV:
		y, ok := b.(ArrV)
		if !ok || x.N != y.N || (x.Elems == nil) != (y.Elems == nil) {
			return false
		}
		for i := range x.Elems {
			if !equalAV(x.Elems[i], y.Elems[i]) {
				return false
			}
		}
		return true
	case TopV:
		y, ok := b.(TopV)
		return ok && x == y
	case MapV:
		y, ok := b.(MapV)
		return ok && x == y
	case FuncV:
		y, ok := b.(FuncV)
		return ok && x.Nil == y.Nil && x.Top == y.Top && x.User == y.User && x.Fn == y.Fn && len(x.Bindings) == 0 && len(y.Bindings) == 0
	}
	return false
}

// joinAV is used only for weak updates and summaries.
func joinAV(a, b AV) AV {
	if a == nil {
		return b
	}
	if b == nil {
		return a
	}
	if equalAV(a, b) {
		return a
	}
	opq := isOpq(a) || isOpq(b)
	switch x := a.(type) {
	case BoolV:
		if y, ok := b.(BoolV); ok {
			return BoolV{T: x.T || y.T, F: x.F || y.F, Opq: opq}
		}
	case IntV:
		return IntV{Opq: opq}
	case FloatV:
		return FloatV{Opq: opq}
	case StrV:
		return StrV{Opq: opq}
	case PtrV:
		return PtrV{Top: true, Opq: opq}
	case SliceV:
		return SliceV{Top: true, Opq: opq}
	case IfaceV:
		return IfaceV{Top: true, Opq: opq}
	case FuncV:
		return FuncV{Top: true, Opq: opq}
	case MapV:
		return MapV{Opq: opq}
	case StructV:
		if y, ok := b.(StructV); ok && len(x.Fields) == len(y.Fields) {
			f := make([]AV, len(x.Fields))
			for i := range f {
				f[i] = joinAV(x.Fields[i], y.Fields[i])
			}
			return StructV{Fields: f}
		}
	case ArrV:
		if y, ok := b.(ArrV); ok && x.N == y.N && x.Elems != nil && y.Elems != nil {
			e := make([]AV, len(x.Elems))
			for i := range e {
				e[i] = joinAV(x.Elems[i], y.Elems[i])
			}
			return ArrV{N: x.N, Elems: e, Def: joinAV(x.Def, y.Def)}
		}
		if y, ok := b.(ArrV); ok && x.N == y.N {
			return ArrV{N: x.N, Def: joinAV(x.Def, y.Def)}
		}
	}
	return TopV{Opq: opq}
}

// ---------------------------------------------------------------------------
// running

func (it *Interp) fault(s *State, kind string, in ssa.Instruction, detail string) {
	f := &Fault{Kind: kind, In: in, Fn: in.Parent(), Detail: detail, Trail: append([]trailEntry(nil), s.trail...), Free: true, Decided: true}
	for _, t := range s.trail {
		f.Decided = false
		if t.Opq || t.Der {
			f.Free = false
		}
	}
	for i := len(s.frames) - 1; i >= 0; i-- {
		fr := s.frames[i]
		pos := "-"
		if fr.pc < len(fr.block.Instrs) {
			pos = it.p.InstrPos(fr.block.Instrs[fr.pc])
		}
		f.Stack = append(f.Stack, ShortKey(FuncKey(fr.fn))+" @"+pos)
	}
	it.Faults = append(it.Faults, f)
}

func (it *Interp) truncate(s *State, why string) {
	it.Truncated++
	it.TruncWhy[why]++
	s.done = true
	if os.Getenv("ORBCHECK_TRUNC") != "" && it.Terms {
		fmt.Printf("TRUNCATED (%s) in %s\n", why, s.top().fn.Name())
		for _, t := range s.trail {
			fmt.Printf("   %s %s\n", t.Pos, t.Desc)
		}
	}
}

// Run explores every path from the given initial state.
func (it *Interp) Run(init *State) {
	it.work = append(it.work, init)
	it.seen = map[uint64]bool{}
	states := 0
	for len(it.work) > 0 {
		s := it.work[len(it.work)-1]
		it.work = it.work[:len(it.work)-1]
		states++
		if states > it.lim.MaxStates {
			it.Truncated += len(it.work) + 1
			it.TruncWhy["state budget"] += len(it.work) + 1
			it.work = nil
			return
		}
		it.runPath(s)
	}
}

func (it *Interp) runPath(s *State) {
	it.Paths++
	defer func() {
		if x := recover(); x != nil {
			if ab, ok := x.(abortPath); ok {
				if ab.why != "" {
					it.Truncated++
					it.TruncWhy[ab.why]++
				}
				return
			}
			panic(x)
		}
	}()
	for !s.done {
		if len(s.frames) == 0 {
			return
		}
		fr := s.top()
		if fr.pc >= len(fr.block.Instrs) {
			it.truncate(s, "fell off block")
			return
		}
		s.steps++
		it.Steps++
		if s.steps > it.lim.MaxSteps {
			it.truncate(s, "step budget")
			return
		}
		in := fr.block.Instrs[fr.pc]
		it.exec(s, fr, in)
	}
}

// abortPath ends the current path (after a fault or an unsupported construct).
type abortPath struct{ why string }

func (it *Interp) stop(why string) { panic(abortPath{why}) }

func (it *Interp) val(fr *Frame, v ssa.Value) AV {
	switch x := v.(type) {
	case *ssa.Const:
		return it.constVal(x)
	case *ssa.Global:
		return PtrV{Cell: it.globals[x]}
	case *ssa.Function:
		return FuncV{Fn: x}
	case *ssa.Builtin:
		return FuncV{Fn: x}
	}
	if av, ok := fr.env[v]; ok {
		return av
	}
	return topOf(v.Type(), true)
}

func (it *Interp) jump(s *State, fr *Frame, to *ssa.BasicBlock) { it.jumpF(s, fr, to, false) }

// jumpF: forked = the branch leading here was not decided by the abstract state.
// Loops whose condition is decided run to completion (bounded by a large
// limit); only iterations entered through an undecided condition count against
// the exploration bound.
func (it *Interp) jumpF(s *State, fr *Frame, to *ssa.BasicBlock, forked bool) {
	if len(to.Preds) > 1 && len(s.trail) > 0 {
		fp := it.fingerprint(s, to)
		if it.seen[fp] {
			it.Merged++
			s.done = true
			it.stop("")
		}
		it.seen[fp] = true
	}
	if forked {
		fr.visits[to]++
		if fr.visits[to] > it.lim.MaxVisits {
			it.truncate(s, "loop bound")
			it.stop("")
		}
	} else {
		if fr.total == nil {
			fr.total = map[*ssa.BasicBlock]int{}
		}
		fr.total[to]++
		maxIter := 5000
		if it.MaxIter > 0 {
			maxIter = it.MaxIter
		}
		if fr.total[to] > maxIter {
			it.truncate(s, "iteration bound")
			it.stop("")
		}
	}
	fr.prev = fr.block
	fr.block = to
	fr.pc = 0
	// the phis of a block read their operands simultaneously on the edge taken
	// (a swap "a, b = b, a" in a loop is two phis that name each other)
	var vals []AV
	nphi := 0
	for _, in := range to.Instrs {
		phi, ok := in.(*ssa.Phi)
		if !ok {
			break
		}
		var v AV = topOf(phi.Type(), true)
		for i, pb := range to.Preds {
			if pb == fr.prev {
				v = it.val(fr, phi.Edges[i])
				break
			}
		}
		vals = append(vals, v)
		nphi++
	}
	for i := 0; i < nphi; i++ {
		fr.env[to.Instrs[i].(*ssa.Phi)] = vals[i]
	}
	fr.pc = nphi
}

// factOf: the float comparison behind a branch condition, as terms.
func (it *Interp) factOf(fr *Frame, cond ssa.Value, taken bool) *floatFact {
	if !it.Terms {
		return nil
	}
	if b, ok := it.val(fr, cond).(BoolV); ok && b.Src != nil {
		f := *b.Src
		f.Taken = taken != b.Neg
		return &f
	}
	bo, ok := cond.(*ssa.BinOp)
	if !ok {
		return nil
	}
	a, ok1 := it.val(fr, bo.X).(FloatV)
	b, ok2 := it.val(fr, bo.Y).(FloatV)
	if !ok1 || !ok2 {
		// equality of two points made of identified unknowns: a fact without order content
		pa, ok1 := it.val(fr, bo.X).(ArrV)
		pb, ok2 := it.val(fr, bo.Y).(ArrV)
		if ok1 && ok2 && len(pa.Elems) == len(pb.Elems) && len(pa.Elems) > 0 {
			for i := range pa.Elems {
				fa, ok1 := pa.Elems[i].(FloatV)
				fb, ok2 := pb.Elems[i].(FloatV)
				if !ok1 || !ok2 || it.termOf(fa) == nil || it.termOf(fb) == nil {
					return nil
				}
			}
			return &floatFact{Op: bo.Op.String() + " (points)", Taken: taken}
		}
		return nil
	}
	ta, tb := it.termOf(a), it.termOf(b)
	if ta == nil || tb == nil {
		return nil
	}
	return &floatFact{Op: bo.Op.String(), A: ta, B: tb, Taken: taken}
}

func (it *Interp) branchDesc(in ssa.Instruction, cond ssa.Value, taken bool) string {
	return fmt.Sprintf("%s: %s is %v", it.p.InstrPos(in), condText(cond), taken)
}

func condText(v ssa.Value) string {
	switch x := v.(type) {
	case *ssa.BinOp:
		return fmt.Sprintf("%s %s %s", operandText(x.X), x.Op, operandText(x.Y))
	case *ssa.UnOp:
		return fmt.Sprintf("%s%s", x.Op, operandText(x.X))
	case *ssa.Call:
		return "result of " + calleeName(x)
	case *ssa.Extract:
		return fmt.Sprintf("%s#%d", operandText(x.Tuple), x.Index)
	}
	return v.Name()
}

func operandText(v ssa.Value) string {
	switch x := v.(type) {
	case *ssa.Const:
		return x.Name()
	case *ssa.Parameter:
		return x.Name()
	case *ssa.Call:
		if b, ok := x.Call.Value.(*ssa.Builtin); ok && len(x.Call.Args) > 0 {
			return b.Name() + "(" + operandText(x.Call.Args[0]) + ")"
		}
		return calleeName(x) + "(..)"
	case *ssa.UnOp:
		if x.Op == token.MUL {
			return "*" + operandText(x.X)
		}
	case *ssa.FieldAddr:
		st := x.X.Type().Underlying().(*types.Pointer).Elem().Underlying().(*types.Struct)
		return operandText(x.X) + "." + st.Field(x.Field).Name()
	case *ssa.Extract:
		return fmt.Sprintf("%s#%d", operandText(x.Tuple), x.Index)
	}
	if v.Name() != "" {
		return v.Name()
	}
	return "?"
}

func (it *Interp) exec(s *State, fr *Frame, in ssa.Instruction) {
	switch x := in.(type) {
	case *ssa.If:
		c, _ := it.val(fr, x.Cond).(BoolV)
		if !c.T && !c.F {
			c = BoolV{T: true, F: true, Opq: true}
		}
		if c.T && c.F {
			if it.Terms && os.Getenv("ORBCHECK_TRUNC") == "2" {
				if bo, ok := x.Cond.(*ssa.BinOp); ok {
					a, b := it.val(fr, bo.X), it.val(fr, bo.Y)
					fa, _ := a.(FloatV)
					fb, _ := b.(FloatV)
					fmt.Printf("FORK %s: %s %s %s | %v | %v\n", it.p.InstrPos(x), avString(a), bo.Op, avString(b), it.termOf(fa), it.termOf(fb))
				}
			}
			// partition the path
			o := s.clone()
			ofr := o.top()
			o.trail = append(o.trail, trailEntry{Pos: it.p.InstrPos(x), Desc: it.branchDesc(x, x.Cond, false), Opq: c.Opq, Der: c.Der, Fact: it.factOf(fr, x.Cond, false)})
			it.recordRel(o, o.trail[len(o.trail)-1].Fact)
			it.refine(o, ofr, x.Cond, false)
			if it.tryJump(o, ofr, fr.block.Succs[1]) {
				it.work = append(it.work, o)
			}
			s.trail = append(s.trail, trailEntry{Pos: it.p.InstrPos(x), Desc: it.branchDesc(x, x.Cond, true), Opq: c.Opq, Der: c.Der, Fact: it.factOf(fr, x.Cond, true)})
			it.recordRel(s, s.trail[len(s.trail)-1].Fact)
			it.refine(s, fr, x.Cond, true)
			it.jumpF(s, fr, fr.block.Succs[0], true)
			return
		}
		if c.T {
			it.jump(s, fr, fr.block.Succs[0])
		} else {
			it.jump(s, fr, fr.block.Succs[1])
		}
	case *ssa.Jump:
		it.jump(s, fr, fr.block.Succs[0])
	case *ssa.Return:
		res := make([]AV, len(x.Results))
		for i, r := range x.Results {
			res[i] = it.val(fr, r)
		}
		it.doReturn(s, fr, res)
	case *ssa.Panic:
		it.fault(s, "panic", x, "explicit panic("+operandText(x.X)+")")
		s.done = true
	case *ssa.RunDefers:
		fr.pc++
	case *ssa.Defer:
		fr.pc++ // deferred calls are not modelled (none on the analysed paths change geometry state)
		it.Unsupported["defer"]++
	case *ssa.Go:
		fr.pc++
		it.Unsupported["go"]++
	case *ssa.Store:
		it.store(s, fr, x, it.val(fr, x.Addr), it.val(fr, x.Val))
		fr.pc++
	case *ssa.MapUpdate:
		m, _ := it.val(fr, x.Map).(MapV)
		if m.Nil {
			it.fault(s, "nil-map", x, "assignment to entry in nil map")
			s.done = true
			return
		}
		fr.pc++
	case *ssa.Send:
		fr.pc++
	case *ssa.DebugRef:
		fr.pc++
	case ssa.Value:
		if call, ok := x.(*ssa.Call); ok {
			it.call(s, fr, call)
			return
		}
		if it.SplitBools && it.Terms {
			// (a > y) != (b > y): the truth of each recorded comparison is needed as a fact of the path, so the
			// path is partitioned on an undecided operand before the operator is applied
			if bo, ok := x.(*ssa.BinOp); ok && (bo.Op == token.EQL || bo.Op == token.NEQ || bo.Op == token.XOR) {
				for _, opnd := range []ssa.Value{bo.X, bo.Y} {
					if _, isConst := opnd.(*ssa.Const); isConst {
						continue
					}
					c, ok := fr.env[opnd].(BoolV)
					if !ok || !(c.T && c.F) || c.Src == nil {
						continue
					}
					o := s.clone()
					ofr := o.top()
					ff := *c.Src
					ff.Taken = false != c.Neg
					o.trail = append(o.trail, trailEntry{Pos: it.p.InstrPos(bo), Desc: it.branchDesc(bo, opnd, false), Opq: c.Opq, Der: c.Der, Fact: &ff})
					it.recordRel(o, o.trail[len(o.trail)-1].Fact)
					ofr.env[opnd] = boolOf(false)
					it.work = append(it.work, o)
					ft := *c.Src
					ft.Taken = true != c.Neg
					s.trail = append(s.trail, trailEntry{Pos: it.p.InstrPos(bo), Desc: it.branchDesc(bo, opnd, true), Opq: c.Opq, Der: c.Der, Fact: &ft})
					it.recordRel(s, s.trail[len(s.trail)-1].Fact)
					fr.env[opnd] = boolOf(true)
					return // both halves apply the operator again with the operand decided
				}
			}
		}
		v := it.eval(s, fr, x)
		fr.env[x] = v
		fr.pc++
	default:
		it.Unsupported[fmt.Sprintf("%T", in)]++
		fr.pc++
	}
}

// tryJump performs the jump on a forked state; false if the fork dies at once.
func (it *Interp) tryJump(s *State, fr *Frame, to *ssa.BasicBlock) (ok bool) {
	defer func() {
		if x := recover(); x != nil {
			if _, isAbort := x.(abortPath); isAbort {
				ok = false
				return
			}
			panic(x)
		}
	}()
	it.jumpF(s, fr, to, true)
	return true
}

func (it *Interp) doReturn(s *State, fr *Frame, res []AV) {
	s.frames = s.frames[:len(s.frames)-1]
	if len(s.frames) == 0 {
		s.result = res
		s.done = true
		it.NFinished++
		if it.KeepFinished {
			it.Finished = append(it.Finished, s)
		}
		return
	}
	caller := s.top()
	if v, ok := fr.call.(*ssa.Call); ok {
		switch len(res) {
		case 0:
		case 1:
			caller.env[v] = res[0]
		default:
			caller.env[v] = TupleV{Vals: res}
		}
	}
	caller.pc++
}

// ---------------------------------------------------------------------------
// memory

func (it *Interp) load(s *State, in ssa.Instruction, p AV, t types.Type) AV {
	ptr, ok := p.(PtrV)
	if !ok {
		return topOf(t, true)
	}
	if ptr.Nil {
		it.fault(s, "nil-deref", in, "load through a nil pointer")
		s.done = true
		it.stop("")
	}
	if ptr.MayNil {
		it.forkNil(s, in, "pointer", ptr.Opq)
	}
	if ptr.Top {
		if ptr.Hostile {
			return hostileOf(t)
		}
		return topOf(t, ptr.Opq)
	}
	cell, ok := s.heap[ptr.Cell]
	if !ok {
		if it.Precise && types.TypeString(t, nil) == "error" {
			return nonNilError() // a library's error sentinel (io.EOF ...): not nil
		}
		return topOf(t, true)
	}
	v := readPath(cell, ptr.Path)
	if _, isTop := v.(TopV); isTop {
		return topOf(t, isOpq(v))
	}
	return v
}

// hostileOf: a value of type t chosen by the attacker (inside a structure
// decoded from hostile input): references may be nil, scalars are free.
// hasCustomUnmarshal: values of this type are produced by the type's own
// UnmarshalJSON/UnmarshalBSON (called by the reflection-based decoder), so their
// contents satisfy whatever that method establishes - not attacker-chosen field by field.
var hasCustomUnmarshal = func(t types.Type) bool { return false }

func hostileOf(t types.Type) AV {
	switch u := t.Underlying().(type) {
	case *types.Pointer:
		if hasCustomUnmarshal(u.Elem()) {
			// may be nil (JSON null), but what it points to was built by its own decoder: opaque
			return PtrV{Top: true, MayNil: true, Opq: false}
		}
		return PtrV{Top: true, MayNil: true, Hostile: true}
	case *types.Slice:
		return SliceV{Top: true, MayNil: true, Hostile: true}
	case *types.Interface:
		return IfaceV{Top: true, MayNil: true}
	case *types.Struct:
		sv := StructV{Fields: make([]AV, u.NumFields())}
		for i := range sv.Fields {
			sv.Fields[i] = hostileOf(u.Field(i).Type())
		}
		return sv
	case *types.Array:
		return topOf(t, false)
	case *types.Map:
		return MapV{}
	}
	return topOf(t, false)
}

// forkNil handles a free-nilable reference: the nil alternative faults (it is
// the attacker's choice), the non-nil alternative continues.
func (it *Interp) forkNil(s *State, in ssa.Instruction, what string, opq bool) {
	tr := append(append([]trailEntry(nil), s.trail...), trailEntry{Pos: it.p.InstrPos(in), Desc: what + " decoded from input is nil", Opq: opq})
	save := s.trail
	s.trail = tr
	it.fault(s, "nil-deref", in, "use of a "+what+" that the input may leave nil")
	s.trail = save
}

func (it *Interp) store(s *State, fr *Frame, in ssa.Instruction, p AV, v AV) {
	ptr, ok := p.(PtrV)
	if !ok {
		return
	}
	if ptr.Nil {
		it.fault(s, "nil-deref", in, "store through a nil pointer")
		s.done = true
		it.stop("")
	}
	if ptr.MayNil {
		it.forkNil(s, in, "pointer", ptr.Opq)
	}
	if ptr.Top {
		return
	}
	cell, ok := s.heap[ptr.Cell]
	if !ok {
		return
	}
	s.heap[ptr.Cell] = writePath(cell, ptr.Path, v)
}

// ---------------------------------------------------------------------------
// evaluation of value instructions (except calls)

func (it *Interp) eval(s *State, fr *Frame, v ssa.Value) AV {
	switch x := v.(type) {
	case *ssa.Alloc:
		et := x.Type().Underlying().(*types.Pointer).Elem()
		return PtrV{Cell: it.newCell(s, zeroOf(et))}
	case *ssa.Phi:
		for i, pb := range fr.block.Preds {
			if pb == fr.prev {
				return it.val(fr, x.Edges[i])
			}
		}
		return topOf(x.Type(), true)
	case *ssa.UnOp:
		return it.unop(s, fr, x)
	case *ssa.BinOp:
		return it.binop(s, fr, x, it.val(fr, x.X), it.val(fr, x.Y))
	case *ssa.FieldAddr:
		p, _ := it.val(fr, x.X).(PtrV)
		if p.Nil {
			it.fault(s, "nil-deref", x, "field access through a nil pointer")
			s.done = true
			it.stop("")
		}
		if p.MayNil {
			it.forkNil(s, x, "pointer", p.Opq)
			p.MayNil = false
			// the surviving path is the one where it was not nil
			if _, isConst := x.X.(*ssa.Const); !isConst {
				fr.env[x.X] = p
			}
		}
		if p.Top {
			return PtrV{Top: true, Opq: p.Opq, Hostile: p.Hostile}
		}
		np := PtrV{Cell: p.Cell, Path: append(append([]int(nil), p.Path...), x.Field)}
		return np
	case *ssa.Field:
		sv, ok := it.val(fr, x.X).(StructV)
		if !ok || x.Field >= len(sv.Fields) {
			return topOf(x.Type(), true)
		}
		return sv.Fields[x.Field]
	case *ssa.IndexAddr:
		return it.indexAddr(s, fr, x)
	case *ssa.Index:
		return it.index(s, fr, x)
	case *ssa.Slice:
		return it.slice(s, fr, x)
	case *ssa.MakeSlice:
		return it.makeSlice(s, fr, x)
	case *ssa.MakeMap:
		if x.Reserve != nil && it.allocLimit != nil {
			if r, ok := it.val(fr, x.Reserve).(IntV); ok {
				msg := ""
				if r.Known {
					msg = it.allocLimit(r.V, x, s)
				} else if r.Sym > 0 {
					if si := s.sym(r.Sym); !si.Bounded && !si.Inexact {
						_, hi, _ := s.bounds(r)
						msg = it.allocLimit(hi, x, s)
					}
				}
				if msg != "" {
					it.fault(s, "alloc", x, msg)
					s.done = true
					it.stop("")
				}
			}
		}
		return MapV{Cell: it.newCell(s, TopV{})}
	case *ssa.MakeChan:
		return TopV{}
	case *ssa.MakeInterface:
		return IfaceV{Typ: x.X.Type(), Val: it.val(fr, x.X)}
	case *ssa.MakeClosure:
		fv := FuncV{Fn: x.Fn.(*ssa.Function)}
		for _, b := range x.Bindings {
			fv.Bindings = append(fv.Bindings, it.val(fr, b))
		}
		return fv
	case *ssa.ChangeType:
		return it.val(fr, x.X)
	case *ssa.ChangeInterface:
		return it.val(fr, x.X)
	case *ssa.Convert:
		return it.convert(s, fr, x)
	case *ssa.SliceToArrayPointer:
		return PtrV{Top: true, Opq: true}
	case *ssa.TypeAssert:
		return it.typeAssert(s, fr, x)
	case *ssa.Extract:
		tv, ok := it.val(fr, x.Tuple).(TupleV)
		if !ok || x.Index >= len(tv.Vals) {
			return topOf(x.Type(), true)
		}
		return tv.Vals[x.Index]
	case *ssa.Lookup:
		return it.lookup(s, fr, x)
	case *ssa.Range:
		return it.val(fr, x.X)
	case *ssa.Next:
		// map / string iteration: unknown number of rounds
		tup := x.Type().(*types.Tuple)
		opq := true
		if x.IsString {
			if sv, ok := it.val(fr, x.Iter).(StrV); ok {
				opq = sv.Opq
			}
		}
		vals := make([]AV, tup.Len())
		vals[0] = BoolV{T: true, F: true, Opq: opq}
		for i := 1; i < tup.Len(); i++ {
			vals[i] = topOf(tup.At(i).Type(), opq)
		}
		return TupleV{Vals: vals}
	case *ssa.Select:
		it.Unsupported["select"]++
		return topOf(x.Type(), true)
	}
	it.Unsupported[fmt.Sprintf("%T", v)]++
	return topOf(v.Type(), true)
}

func (it *Interp) unop(s *State, fr *Frame, x *ssa.UnOp) AV {
	a := it.val(fr, x.X)
	switch x.Op {
	case token.MUL:
		return it.load(s, x, a, x.Type())
	case token.NOT:
		if b, ok := a.(BoolV); ok {
			return BoolV{T: b.F, F: b.T, Opq: b.Opq, Der: b.Der, Src: b.Src, Neg: !b.Neg}
		}
	case token.SUB:
		switch n := a.(type) {
		case IntV:
			if n.Known {
				return it.wrap(intOf(-n.V), x.Type())
			}
			return IntV{Opq: n.Opq}
		case FloatV:
			if n.Known {
				return FloatV{Known: true, V: -n.V}
			}
			if t := it.termOf(n); t != nil {
				it.nextSym++
				return FloatV{Opq: n.Opq, Finite: n.Finite, Sym: it.nextSym, Term: termAdd(termConst(0), t, -1)}
			}
			return FloatV{Opq: n.Opq}
		}
	case token.XOR:
		if n, ok := a.(IntV); ok {
			if n.Known {
				return it.wrap(intOf(^n.V), x.Type())
			}
			return IntV{Opq: n.Opq}
		}
	case token.ARROW:
		return topOf(x.Type(), true)
	}
	return topOf(x.Type(), isOpq(a))
}

// wrap truncates an integer to its static type.
func (it *Interp) wrap(v IntV, t types.Type) IntV {
	if !v.Known {
		return v
	}
	b, ok := t.Underlying().(*types.Basic)
	if !ok {
		return v
	}
	switch b.Kind() {
	case types.Int8:
		v.V = int64(int8(v.V))
	case types.Int16:
		v.V = int64(int16(v.V))
	case types.Int32:
		v.V = int64(int32(v.V))
	case types.Uint8:
		v.V = int64(uint8(v.V))
	case types.Uint16:
		v.V = int64(uint16(v.V))
	case types.Uint32:
		v.V = int64(uint32(v.V))
	}
	return v
}

func isUnsigned(t types.Type) bool {
	b, ok := t.Underlying().(*types.Basic)
	return ok && b.Info()&types.IsUnsigned != 0
}

func (it *Interp) binop(s *State, fr *Frame, x *ssa.BinOp, a, b AV) AV {
	opq := isOpq(a) || isOpq(b)
	switch av := a.(type) {
	case IntV:
		bv, ok := b.(IntV)
		if !ok {
			break
		}
		if av.Bits != nil || bv.Bits != nil {
			ab, bb := bitsOfInt(av), bitsOfInt(bv)
			if (x.Op == token.EQL || x.Op == token.NEQ) && ab != nil && bb != nil {
				if eq, ok := bitsEqual(ab, bb); ok {
					return boolOf(eq == (x.Op == token.EQL))
				}
			}
			nb := bitsArith(x.Op, av, bv, unsignedWidth(x.Type()))
			a2, b2 := av, bv
			a2.Bits, b2.Bits = nil, nil
			return attachBits(it.binop(s, fr, x, a2, b2), nb)
		}
		if r, ok := it.symBinop(s, x, av, bv); ok {
			return r
		}
		if !av.Known || !bv.Known {
			switch x.Op {
			case token.EQL, token.NEQ, token.LSS, token.LEQ, token.GTR, token.GEQ:
				return BoolV{T: true, F: true, Opq: opq}
			case token.QUO, token.REM:
				if bv.Known && bv.V == 0 {
					it.fault(s, "divzero", x, "integer division by zero")
					s.done = true
					it.stop("")
				}
			}
			return IntV{Opq: opq}
		}
		uns := isUnsigned(x.X.Type())
		A, B := av.V, bv.V
		cmp := func(lt, eq bool) BoolV {
			var less, equal bool
			if uns {
				less, equal = uint64(A) < uint64(B), A == B
			} else {
				less, equal = A < B, A == B
			}
			return boolOf((lt && less) || (eq && equal))
		}
		switch x.Op {
		case token.ADD:
			return it.wrap(intOf(A+B), x.Type())
		case token.SUB:
			return it.wrap(intOf(A-B), x.Type())
		case token.MUL:
			return it.wrap(intOf(A*B), x.Type())
		case token.QUO:
			if B == 0 {
				it.fault(s, "divzero", x, "integer division by zero")
				s.done = true
				it.stop("")
			}
			if uns {
				return it.wrap(intOf(int64(uint64(A)/uint64(B))), x.Type())
			}
			return it.wrap(intOf(A/B), x.Type())
		case token.REM:
			if B == 0 {
				it.fault(s, "divzero", x, "integer division by zero")
				s.done = true
				it.stop("")
			}
			if uns {
				return it.wrap(intOf(int64(uint64(A)%uint64(B))), x.Type())
			}
			return it.wrap(intOf(A%B), x.Type())
		case token.AND:
			return intOf(A & B)
		case token.OR:
			return intOf(A | B)
		case token.XOR:
			return intOf(A ^ B)
		case token.AND_NOT:
			return intOf(A &^ B)
		case token.SHL:
			if uint64(B) >= 64 {
				return intOf(0)
			}
			return it.wrap(intOf(A<<uint64(B)), x.Type())
		case token.SHR:
			if uint64(B) >= 64 {
				if !uns && A < 0 {
					return intOf(-1)
				}
				return intOf(0)
			}
			if uns {
				return intOf(int64(uint64(A) >> uint64(B)))
			}
			return intOf(A >> uint64(B))
		case token.EQL:
			return boolOf(A == B)
		case token.NEQ:
			return boolOf(A != B)
		case token.LSS:
			return cmp(true, false)
		case token.LEQ:
			return cmp(true, true)
		case token.GTR:
			r := cmp(true, true)
			return BoolV{T: r.F, F: r.T}
		case token.GEQ:
			r := cmp(true, false)
			return BoolV{T: r.F, F: r.T}
		}
	case FloatV:
		bv, ok := b.(FloatV)
		if !ok {
			break
		}
		if av.Known && bv.Known {
			A, B := av.V, bv.V
			switch x.Op {
			case token.ADD:
				return FloatV{Known: true, V: A + B}
			case token.SUB:
				return FloatV{Known: true, V: A - B}
			case token.MUL:
				return FloatV{Known: true, V: A * B}
			case token.QUO:
				return FloatV{Known: true, V: A / B}
			case token.EQL:
				return boolOf(A == B)
			case token.NEQ:
				return boolOf(A != B)
			case token.LSS:
				return boolOf(A < B)
			case token.LEQ:
				return boolOf(A <= B)
			case token.GTR:
				return boolOf(A > B)
			case token.GEQ:
				return boolOf(A >= B)
			}
		}
		if r, ok := infCompare(x.Op, av, bv); ok {
			return r
		}
		isCmp := x.Op == token.EQL || x.Op == token.NEQ || x.Op == token.LSS || x.Op == token.LEQ || x.Op == token.GTR || x.Op == token.GEQ
		if it.Terms && isCmp && !(av.Known && bv.Known) {
			if ta, tb := it.termOf(av), it.termOf(bv); ta != nil && tb != nil && (av.Term != nil || bv.Term != nil || it.NonNeg != nil) {
				if r, ok := it.termCompare(x.Op.String(), ta, tb); ok {
					return boolOf(r)
				}
			}
		}
		if it.Terms && isCmp && (av.Known != bv.Known) {
			// a square against a non-positive constant
			k, sq, op := av, bv, x.Op
			if bv.Known {
				k, sq = bv, av
				op = map[token.Token]token.Token{token.LSS: token.GTR, token.GTR: token.LSS, token.LEQ: token.GEQ, token.GEQ: token.LEQ, token.EQL: token.EQL, token.NEQ: token.NEQ}[op]
			}
			// now: k op sq
			if termNonNeg(it.termOf(sq)) && sq.Finite {
				switch {
				case k.V <= 0 && op == token.GTR: // k > sq
					return boolOf(false)
				case k.V <= 0 && op == token.LEQ: // k <= sq
					return boolOf(true)
				case k.V < 0 && (op == token.GEQ || op == token.EQL):
					return boolOf(false)
				case k.V < 0 && (op == token.LSS || op == token.NEQ):
					return boolOf(true)
				}
			}
		}
		if it.Terms && isCmp && (av.Known != bv.Known) {
			// no computed or input quantity reaches the largest finite float (stated assumption of the term rules)
			k, u, op := av, bv, x.Op
			if bv.Known {
				k, u = bv, av
				op = map[token.Token]token.Token{token.LSS: token.GTR, token.GTR: token.LSS, token.LEQ: token.GEQ, token.GEQ: token.LEQ, token.EQL: token.EQL, token.NEQ: token.NEQ}[op]
			}
			// now: k op u
			if u.Finite && (k.V == math.MaxFloat64 || k.V == -math.MaxFloat64) {
				big := k.V > 0
				switch op {
				case token.GTR, token.GEQ, token.NEQ: // k > u
					return boolOf(big || op == token.NEQ)
				case token.LSS, token.LEQ: // k < u
					return boolOf(!big)
				case token.EQL:
					return boolOf(false)
				}
			}
		}
		if it.Terms && isCmp && s.rel != nil {
			if ta, tb := it.termOf(av), it.termOf(bv); ta != nil && tb != nil {
				if r, ok := relDecide(s, x.Op.String(), ta, tb); ok {
					return boolOf(r)
				}
			}
		}
		if it.GeneralPosition && (x.Op == token.EQL || x.Op == token.NEQ) && av.Input && bv.Input && av.Sym > 0 && bv.Sym > 0 && av.Sym != bv.Sym && av.Term == nil && bv.Term == nil {
			return boolOf(x.Op == token.NEQ)
		}
		if it.Terms && isCmp && !av.Known && !bv.Known && av.Finite && bv.Finite {
			// the same finite unknown on both sides
			if ia, ok1 := atomOf(it.termOf(av)); ok1 {
				if ib, ok2 := atomOf(it.termOf(bv)); ok2 && ia == ib {
					switch x.Op {
					case token.EQL, token.LEQ, token.GEQ:
						return boolOf(true)
					case token.NEQ, token.LSS, token.GTR:
						return boolOf(false)
					}
				}
			}
		}
		if r, ok := s.intervalCompare(x.Op, av, bv); ok {
			return r
		}
		switch x.Op {
		case token.EQL, token.NEQ, token.LSS, token.LEQ, token.GTR, token.GEQ:
			// free: input vs input/constant (independent), or one computed value vs a constant
			// (its interval is tracked); two computed values may be correlated
			indep := func(f FloatV) bool { return f.Known || f.Sym > 0 && f.Input }
			der := !(indep(av) && indep(bv)) && !(av.Known && bv.Sym > 0) && !(bv.Known && av.Sym > 0)
			r := BoolV{T: true, F: true, Opq: opq, Der: der}
			if it.Terms {
				if ta, tb := it.termOf(av), it.termOf(bv); ta != nil && tb != nil {
					r.Src = &floatFact{Op: x.Op.String(), A: ta, B: tb}
				}
			}
			return r
		case token.ADD, token.SUB, token.MUL:
			// assumption: arithmetic on finite inputs neither overflows nor yields NaN
			fin := func(f FloatV) bool { return f.Finite || f.Known && !math.IsInf(f.V, 0) && !math.IsNaN(f.V) }
			it.nextSym++
			r := FloatV{Opq: opq, Finite: fin(av) && fin(bv), Sym: it.nextSym}
			if ta, tb := it.termOf(av), it.termOf(bv); ta != nil && tb != nil {
				switch x.Op {
				case token.ADD:
					r.Term = termAdd(ta, tb, 1)
				case token.SUB:
					r.Term = termAdd(ta, tb, -1)
				case token.MUL:
					r.Term = termMul(ta, tb)
				}
			}
			it.intervalArith(s, x.Op, av, bv, r)
			if it.TermLimit > 0 && r.Term != nil && len(r.Term.N)+len(r.Term.D) > it.TermLimit {
				r.Term = nil
			}
			return r
		}
		it.nextSym++
		r := FloatV{Opq: opq, Sym: it.nextSym}
		if x.Op == token.QUO {
			if ta, tb := it.termOf(av), it.termOf(bv); ta != nil && tb != nil {
				if bv.Known && bv.V == 0 && it.polySign(ta.N) == 2 && it.polySign(ta.D) == 2 {
					return FloatV{Known: true, V: math.Inf(1)} // a positive value over zero
				}
				if tb.isZero() {
					// the divisor is zero whatever the unknowns are: 0/0 is NaN, anything else over zero is not finite
					if ta.isZero() {
						return FloatV{Known: true, V: math.NaN()}
					}
					return FloatV{Opq: true}
				}
				r.Term = termDiv(ta, tb)
			}
			it.intervalArith(s, x.Op, av, bv, r)
			if it.TermLimit > 0 && r.Term != nil && len(r.Term.N)+len(r.Term.D) > it.TermLimit {
				r.Term = nil
			}
		}
		return r
	case BoolV:
		bv, ok := b.(BoolV)
		if !ok {
			break
		}
		known := func(v BoolV) (bool, bool) { return v.T, v.T != v.F }
		at, ak := known(av)
		bt, bk := known(bv)
		if ak && bk {
			switch x.Op {
			case token.EQL:
				return boolOf(at == bt)
			case token.NEQ:
				return boolOf(at != bt)
			case token.AND, token.LAND:
				return boolOf(at && bt)
			case token.OR, token.LOR:
				return boolOf(at || bt)
			}
		}
		return BoolV{T: true, F: true, Opq: opq, Der: av.Der || bv.Der}
	case StrV:
		bv, ok := b.(StrV)
		if !ok {
			break
		}
		switch x.Op {
		case token.ADD:
			r := StrV{Opq: opq}
			if av.LenKnown && bv.LenKnown {
				r.LenKnown, r.Len = true, av.Len+bv.Len
			}
			if av.HasLit && bv.HasLit {
				r.HasLit, r.Lit = true, av.Lit+bv.Lit
			}
			return r
		case token.EQL, token.NEQ:
			if av.HasLit && bv.HasLit {
				return boolOf((av.Lit == bv.Lit) == (x.Op == token.EQL))
			}
			if av.LenKnown && bv.LenKnown && av.Len != bv.Len {
				return boolOf(x.Op == token.NEQ)
			}
			return BoolV{T: true, F: true, Opq: opq}
		default:
			if av.HasLit && bv.HasLit {
				switch x.Op {
				case token.LSS:
					return boolOf(av.Lit < bv.Lit)
				case token.LEQ:
					return boolOf(av.Lit <= bv.Lit)
				case token.GTR:
					return boolOf(av.Lit > bv.Lit)
				case token.GEQ:
					return boolOf(av.Lit >= bv.Lit)
				}
			}
			return BoolV{T: true, F: true, Opq: opq}
		}
	}
	// reference comparisons
	if x.Op == token.EQL || x.Op == token.NEQ {
		an, aknown := nilness(a)
		bn, bknown := nilness(b)
		var r BoolV
		switch {
		case aknown && bknown && an && bn:
			r = boolOf(true)
		case aknown && bknown && an != bn:
			r = boolOf(false)
		default:
			// arrays / structs of known scalars
			if eq, ok := knownEqual(a, b); ok {
				r = boolOf(eq)
			} else {
				r = BoolV{T: true, F: true, Opq: opq}
				if it.GeneralPosition {
					// two points made of different free inputs are different points
					if pa, ok1 := a.(ArrV); ok1 {
						if pb, ok2 := b.(ArrV); ok2 && len(pa.Elems) == len(pb.Elems) && len(pa.Elems) > 0 {
							differ := false
							for i := range pa.Elems {
								fa, ok1 := pa.Elems[i].(FloatV)
								fb, ok2 := pb.Elems[i].(FloatV)
								if ok1 && ok2 && fa.Input && fb.Input && fa.Sym > 0 && fb.Sym > 0 && fa.Sym != fb.Sym && fa.Term == nil && fb.Term == nil {
									differ = true
								}
							}
							if differ {
								r = boolOf(false)
							}
						}
					}
				}
				if it.Terms && r.T && r.F {
					if pa, ok1 := a.(ArrV); ok1 {
						if pb, ok2 := b.(ArrV); ok2 && len(pa.Elems) == len(pb.Elems) && len(pa.Elems) > 0 {
							all := true
							for i := range pa.Elems {
								fa, ok1 := pa.Elems[i].(FloatV)
								fb, ok2 := pb.Elems[i].(FloatV)
								if !ok1 || !ok2 || it.termOf(fa) == nil || it.termOf(fb) == nil {
									all = false
								}
							}
							if all {
								r.Src = &floatFact{Op: "==", PA: identString(pa), PB: identString(pb)}
							}
						}
					}
				}
			}
		}
		if x.Op == token.NEQ {
			r = BoolV{T: r.F, F: r.T, Opq: r.Opq, Src: r.Src, Neg: !r.Neg}
		}
		return r
	}
	return topOf(x.Type(), opq)
}

// infCompare decides comparisons between a known infinity and a finite input.
func infCompare(op token.Token, a, b FloatV) (BoolV, bool) {
	flip := map[token.Token]token.Token{token.LSS: token.GTR, token.GTR: token.LSS, token.LEQ: token.GEQ, token.GEQ: token.LEQ, token.EQL: token.EQL, token.NEQ: token.NEQ}
	// the largest finite value bounds every finite unknown (only the non-strict side is decided)
	if b.Known && !a.Known && a.Finite && (b.V == math.MaxFloat64 || b.V == -math.MaxFloat64) {
		switch {
		case b.V > 0 && op == token.GTR, b.V < 0 && op == token.LSS:
			return boolOf(false), true
		case b.V > 0 && op == token.LEQ, b.V < 0 && op == token.GEQ:
			return boolOf(true), true
		}
	}
	if a.Known && !b.Known && b.Finite && (a.V == math.MaxFloat64 || a.V == -math.MaxFloat64) {
		switch {
		case a.V > 0 && op == token.LSS, a.V < 0 && op == token.GTR:
			return boolOf(false), true
		case a.V > 0 && op == token.GEQ, a.V < 0 && op == token.LEQ:
			return boolOf(true), true
		}
	}
	if b.Known && math.IsInf(b.V, 0) && a.Finite && !a.Known {
		a, b = b, a
		op = flip[op]
	}
	if !(a.Known && math.IsInf(a.V, 0) && b.Finite && !b.Known) {
		return BoolV{}, false
	}
	pos := a.V > 0
	switch op {
	case token.GTR, token.GEQ:
		return boolOf(pos), true
	case token.LSS, token.LEQ:
		return boolOf(!pos), true
	case token.EQL:
		return boolOf(false), true
	case token.NEQ:
		return boolOf(true), true
	}
	return BoolV{}, false
}

func (s *State) interval(f FloatV) (fInterval, bool) {
	if f.Known {
		return fInterval{Lo: f.V, Hi: f.V}, true
	}
	if f.Sym > 0 {
		if iv, ok := s.fsyms[f.Sym]; ok {
			return iv, true
		}
	}
	return fInterval{}, false
}

// intervalCompare decides a comparison when the intervals established so far
// for the two operands do not overlap (or touch only at an excluded end).
func (s *State) intervalCompare(op token.Token, a, b FloatV) (BoolV, bool) {
	ia, oka := s.interval(a)
	ib, okb := s.interval(b)
	if !oka || !okb {
		return BoolV{}, false
	}
	// a entirely below b?
	below := ia.Hi < ib.Lo || ia.Hi == ib.Lo && (ia.HiStrict || ib.LoStrict)
	belowEq := ia.Hi <= ib.Lo
	above := ia.Lo > ib.Hi || ia.Lo == ib.Hi && (ia.LoStrict || ib.HiStrict)
	aboveEq := ia.Lo >= ib.Hi
	switch op {
	case token.LSS:
		if below {
			return boolOf(true), true
		}
		if aboveEq {
			return boolOf(false), true
		}
	case token.LEQ:
		if belowEq {
			return boolOf(true), true
		}
		if above {
			return boolOf(false), true
		}
	case token.GTR:
		if above {
			return boolOf(true), true
		}
		if belowEq {
			return boolOf(false), true
		}
	case token.GEQ:
		if aboveEq {
			return boolOf(true), true
		}
		if below {
			return boolOf(false), true
		}
	case token.EQL:
		if below || above {
			return boolOf(false), true
		}
	case token.NEQ:
		if below || above {
			return boolOf(true), true
		}
	}
	return BoolV{}, false
}

// refineFloat records what a taken comparison with a constant says about a free float input.
func (it *Interp) refineFloat(s *State, op token.Token, a, b FloatV) {
	flip := map[token.Token]token.Token{token.LSS: token.GTR, token.GTR: token.LSS, token.LEQ: token.GEQ, token.GEQ: token.LEQ, token.EQL: token.EQL, token.NEQ: token.NEQ}
	if a.Known && b.Sym > 0 {
		a, b = b, a
		op = flip[op]
	}
	if a.Sym <= 0 || a.Known || !b.Known || math.IsNaN(b.V) {
		return
	}
	if s.fsyms == nil {
		s.fsyms = map[int]fInterval{}
	}
	iv, ok := s.fsyms[a.Sym]
	if !ok {
		iv = fInterval{Lo: math.Inf(-1), Hi: math.Inf(1)}
	}
	c := b.V
	switch op {
	case token.LSS:
		if c < iv.Hi || c == iv.Hi && !iv.HiStrict {
			iv.Hi, iv.HiStrict = c, true
		}
	case token.LEQ:
		if c < iv.Hi {
			iv.Hi, iv.HiStrict = c, false
		}
	case token.GTR:
		if c > iv.Lo || c == iv.Lo && !iv.LoStrict {
			iv.Lo, iv.LoStrict = c, true
		}
	case token.GEQ:
		if c > iv.Lo {
			iv.Lo, iv.LoStrict = c, false
		}
	case token.EQL:
		iv = fInterval{Lo: c, Hi: c}
	}
	s.fsyms[a.Sym] = iv
}

// knownEqual compares aggregates of fully known scalars.
func knownEqual(a, b AV) (bool, bool) {
	switch x := a.(type) {
	case IntV:
		y, ok := b.(IntV)
		if ok && x.Known && y.Known {
			return x.V == y.V, true
		}
		if ok && (x.Bits != nil || y.Bits != nil) {
			if xb, yb := bitsOfInt(x), bitsOfInt(y); xb != nil && yb != nil {
				if eq, dec := bitsEqual(xb, yb); dec {
					return eq, true
				}
			}
		}
		if ok && !x.Known && !y.Known && x.Sym > 0 && x.Sym == y.Sym && x.A == y.A {
			return x.B == y.B, true
		}
	case FloatV:
		y, ok := b.(FloatV)
		if ok && x.Known && y.Known {
			return x.V == y.V, true
		}
		if ok && !x.Known && !y.Known && x.Sym > 0 && x.Sym == y.Sym && x.Finite && y.Finite && !x.Opq && !y.Opq {
			return true, true // the same finite unknown
		}
	case BoolV:
		y, ok := b.(BoolV)
		if ok && x.T != x.F && y.T != y.F {
			return x.T == y.T, true
		}
	case IfaceV:
		y, ok := b.(IfaceV)
		if ok && !x.Nil && !y.Nil && !x.Top && !y.Top && !x.MayNil && !y.MayNil && !x.User && !y.User && x.Typ != nil && y.Typ != nil {
			if !types.Identical(x.Typ, y.Typ) {
				return false, true
			}
			if st, isStruct := x.Typ.Underlying().(*types.Struct); isStruct && st.NumFields() == 0 {
				return true, true
			}
			if px, ok1 := x.Val.(PtrV); ok1 {
				if py, ok2 := y.Val.(PtrV); ok2 {
					return knownEqual(px, py)
				}
			}
		}
	case PtrV:
		y, ok := b.(PtrV)
		if ok && !x.Nil && !y.Nil && !x.Top && !y.Top && !x.MayNil && !y.MayNil && x.Cell > 0 && y.Cell > 0 {
			if x.Cell != y.Cell || len(x.Path) != len(y.Path) {
				return false, true
			}
			for i := range x.Path {
				if x.Path[i] != y.Path[i] {
					return false, true
				}
			}
			return true, true
		}
	case ArrV:
		y, ok := b.(ArrV)
		if !ok || x.Elems == nil || y.Elems == nil || len(x.Elems) != len(y.Elems) {
			return false, false
		}
		all := true
		for i := range x.Elems {
			eq, k := knownEqual(x.Elems[i], y.Elems[i])
			if !k {
				return false, false
			}
			all = all && eq
		}
		return all, true
	case StructV:
		y, ok := b.(StructV)
		if !ok || len(x.Fields) != len(y.Fields) {
			return false, false
		}
		all := true
		for i := range x.Fields {
			eq, k := knownEqual(x.Fields[i], y.Fields[i])
			if !k {
				return false, false
			}
			all = all && eq
		}
		return all, true
	}
	return false, false
}

// nilness: (isNil, known)
func nilness(v AV) (bool, bool) {
	switch x := v.(type) {
	case PtrV:
		if x.Nil {
			return true, true
		}
		return false, !x.Top && !x.MayNil
	case SliceV:
		if x.Nil {
			return true, true
		}
		return false, !x.Top && !x.MayNil
	case IfaceV:
		if x.Nil {
			return true, true
		}
		return false, !x.Top && !x.MayNil
	case FuncV:
		if x.Nil {
			return true, true
		}
		return false, !x.Top
	case MapV:
		if x.Nil {
			return true, true
		}
		return false, x.Cell != 0
	}
	return false, false
}

func (it *Interp) sliceLen(v AV) (int, bool) {
	switch x := v.(type) {
	case SliceV:
		if x.Nil {
			return 0, true
		}
		if x.Top {
			return 0, false
		}
		return x.Hi - x.Lo, true
	case StrV:
		return x.Len, x.LenKnown
	}
	return 0, false
}

func (it *Interp) indexAddr(s *State, fr *Frame, x *ssa.IndexAddr) AV {
	base := it.val(fr, x.X)
	idx, _ := it.val(fr, x.Index).(IntV)
	switch b := base.(type) {
	case SliceV:
		// (a possibly-nil slice has length 0 when nil; reaching an index implies a passed length test)
		if b.Top && b.Hostile && b.Arr != 0 && idx.Known && idx.V >= 0 && idx.V < 64 {
			// elements of a slice decoded from hostile input are materialised on first use so
			// that what a check establishes about element i is remembered
			arr, _ := s.heap[b.Arr].(ArrV)
			et := x.X.Type().Underlying().(*types.Slice).Elem()
			for int64(len(arr.Elems)) <= idx.V {
				arr.Elems = append(append([]AV(nil), arr.Elems...), hostileOf(et))
			}
			arr.N = len(arr.Elems)
			s.heap[b.Arr] = arr
			return PtrV{Cell: b.Arr, Path: []int{int(idx.V)}}
		}
		if b.Top {
			return PtrV{Top: true, Opq: b.Opq, Hostile: b.Hostile}
		}
		n := 0
		if !b.Nil {
			n = b.Hi - b.Lo
		}
		if idx.Known {
			if idx.V < 0 || idx.V >= int64(n) {
				it.fault(s, "index", x, fmt.Sprintf("index %d out of range for %s of length %d", idx.V, operandText(x.X), n))
				s.done = true
				it.stop("")
			}
			return PtrV{Cell: b.Arr, Path: []int{b.Lo + int(idx.V)}}
		}
		if it.symIndexCheck(s, x, idx, n) {
			s.done = true
			it.stop("")
		}
		if n == 0 {
			// any index into an empty slice faults
			it.fault(s, "index", x, fmt.Sprintf("index into %s of length 0", operandText(x.X)))
			s.done = true
			it.stop("")
		}
		return PtrV{Cell: b.Arr, Path: []int{-1}}
	case PtrV:
		if b.Nil {
			it.fault(s, "nil-deref", x, "index through a nil array pointer")
			s.done = true
			it.stop("")
		}
		if b.Top {
			return PtrV{Top: true, Opq: b.Opq}
		}
		at, _ := x.X.Type().Underlying().(*types.Pointer).Elem().Underlying().(*types.Array)
		if idx.Known {
			if at != nil && (idx.V < 0 || idx.V >= at.Len()) {
				it.fault(s, "index", x, fmt.Sprintf("index %d out of range for array of length %d", idx.V, at.Len()))
				s.done = true
				it.stop("")
			}
			return PtrV{Cell: b.Cell, Path: append(append([]int(nil), b.Path...), int(idx.V))}
		}
		return PtrV{Cell: b.Cell, Path: append(append([]int(nil), b.Path...), -1)}
	}
	return PtrV{Top: true, Opq: true}
}

func (it *Interp) index(s *State, fr *Frame, x *ssa.Index) AV {
	base := it.val(fr, x.X)
	idx, _ := it.val(fr, x.Index).(IntV)
	switch b := base.(type) {
	case ArrV:
		if idx.Known {
			if idx.V < 0 || idx.V >= int64(b.N) {
				it.fault(s, "index", x, fmt.Sprintf("index %d out of range for array of length %d", idx.V, b.N))
				s.done = true
				it.stop("")
			}
			return readPath(b, []int{int(idx.V)})
		}
		return readPath(b, []int{-1})
	case StrV:
		if idx.Known && b.LenKnown && (idx.V < 0 || idx.V >= int64(b.Len)) {
			it.fault(s, "index", x, fmt.Sprintf("index %d out of range for string of length %d", idx.V, b.Len))
			s.done = true
			it.stop("")
		}
		if idx.Known && b.HasLit && int(idx.V) < len(b.Lit) {
			return intOf(int64(b.Lit[idx.V]))
		}
		return IntV{Opq: b.Opq}
	}
	return topOf(x.Type(), true)
}

func (it *Interp) intArg(fr *Frame, v ssa.Value, def int64) (int64, bool, IntV) {
	if v == nil {
		return def, true, IntV{}
	}
	iv, _ := it.val(fr, v).(IntV)
	return iv.V, iv.Known, iv
}

func (it *Interp) slice(s *State, fr *Frame, x *ssa.Slice) AV {
	base := it.val(fr, x.X)
	switch b := base.(type) {
	case StrV:
		lo, lok, _ := it.intArg(fr, x.Low, 0)
		hi, hok, _ := it.intArg(fr, x.High, int64(b.Len))
		if x.High == nil {
			hok = b.LenKnown
		}
		if b.LenKnown && lok && (lo < 0 || lo > int64(b.Len)) || b.LenKnown && hok && x.High != nil && (hi < 0 || hi > int64(b.Len)) || lok && hok && lo > hi {
			it.fault(s, "slice", x, fmt.Sprintf("slice bounds [%d:%d] out of range for string of length %d", lo, hi, b.Len))
			s.done = true
			it.stop("")
		}
		r := StrV{Opq: b.Opq}
		if lok && hok {
			r.LenKnown, r.Len = true, int(hi-lo)
			if b.HasLit && int(hi) <= len(b.Lit) {
				r.HasLit, r.Lit = true, b.Lit[lo:hi]
			}
		}
		return r
	case PtrV:
		// slicing an array through its pointer
		if b.Nil {
			it.fault(s, "nil-deref", x, "slice of nil array pointer")
			s.done = true
			it.stop("")
		}
		at, _ := x.X.Type().Underlying().(*types.Pointer).Elem().Underlying().(*types.Array)
		if b.Top || at == nil || len(b.Path) != 0 {
			return SliceV{Top: true, Opq: true}
		}
		n := int(at.Len())
		lo, lok, _ := it.intArg(fr, x.Low, 0)
		hi, hok, _ := it.intArg(fr, x.High, int64(n))
		if !lok || !hok {
			return SliceV{Top: true, Opq: true}
		}
		if lo < 0 || hi > int64(n) || lo > hi {
			it.fault(s, "slice", x, fmt.Sprintf("slice bounds [%d:%d] out of range for array of length %d", lo, hi, n))
			s.done = true
			it.stop("")
		}
		return SliceV{Arr: b.Cell, Lo: int(lo), Hi: int(hi), Cap: n}
	case SliceV:
		if b.Top {
			return SliceV{Top: true, Opq: b.Opq}
		}
		n, c := 0, 0
		if !b.Nil {
			n, c = b.Hi-b.Lo, b.Cap-b.Lo
		}
		if b.CapUnk {
			// bounds up to the length are exact; beyond it the capacity decides, which is unknown
			lo, lok, _ := it.intArg(fr, x.Low, 0)
			hi, hok, _ := it.intArg(fr, x.High, int64(n))
			if lok && hok && lo >= 0 && lo <= hi && hi <= int64(n) && x.Max == nil {
				return SliceV{Arr: b.Arr, Lo: b.Lo + int(lo), Hi: b.Lo + int(hi), Cap: b.Lo + int(hi), CapUnk: true}
			}
			if lok && hok && (lo < 0 || lo > hi) {
				it.fault(s, "slice", x, fmt.Sprintf("slice bounds [%d:%d] inverted or negative", lo, hi))
				s.done = true
				it.stop("")
			}
			return SliceV{Top: true, Opq: b.Opq}
		}
		lo, lok, loV := it.intArg(fr, x.Low, 0)
		hi, hok, hiV := it.intArg(fr, x.High, int64(n))
		mx, mok, _ := it.intArg(fr, x.Max, int64(c))
		if it.symSliceCheck(s, x, loV, hiV, lok, hok, lo, hi, n, c) {
			s.done = true
			it.stop("")
		}
		bad := ""
		switch {
		case lok && (lo < 0 || lo > int64(c)):
			bad = fmt.Sprintf("low bound %d out of range (capacity %d)", lo, c)
		case hok && x.High != nil && (hi < 0 || hi > int64(c)):
			bad = fmt.Sprintf("high bound %d out of range (capacity %d)", hi, c)
		case lok && hok && lo > hi:
			bad = fmt.Sprintf("low bound %d > high bound %d", lo, hi)
		case mok && x.Max != nil && (mx > int64(c) || hok && hi > mx):
			bad = fmt.Sprintf("max bound %d out of range", mx)
		}
		if bad != "" {
			it.fault(s, "slice", x, fmt.Sprintf("slice %s[%s:%s]: %s; length %d", operandText(x.X), boundText(x.Low), boundText(x.High), bad, n))
			s.done = true
			it.stop("")
		}
		if !lok || !hok || !mok {
			return SliceV{Top: true, Opq: isOpq(loV) || isOpq(hiV)}
		}
		if b.Nil {
			return SliceV{Nil: true}
		}
		return SliceV{Arr: b.Arr, Lo: b.Lo + int(lo), Hi: b.Lo + int(hi), Cap: b.Lo + int(mx)}
	}
	return topOf(x.Type(), true)
}

func boundText(v ssa.Value) string {
	if v == nil {
		return ""
	}
	return operandText(v)
}

func (it *Interp) makeSlice(s *State, fr *Frame, x *ssa.MakeSlice) AV {
	ln, _ := it.val(fr, x.Len).(IntV)
	cp, _ := it.val(fr, x.Cap).(IntV)
	et := x.Type().Underlying().(*types.Slice).Elem()
	if ln.Known && ln.V < 0 || cp.Known && cp.V < 0 {
		it.fault(s, "makeslice", x, fmt.Sprintf("make with negative length/capacity (len %d, cap %d)", ln.V, cp.V))
		s.done = true
		it.stop("")
	}
	if ln.Known && cp.Known && ln.V > cp.V {
		it.fault(s, "makeslice", x, fmt.Sprintf("make with len %d > cap %d", ln.V, cp.V))
		s.done = true
		it.stop("")
	}
	if it.allocLimit != nil {
		sz := cp
		if !sz.Known {
			sz = ln
		}
		if msg := it.allocCheck(s, x, sz, cp); msg != "" {
			it.fault(s, "alloc", x, msg)
			s.done = true
			it.stop("")
		}
	}
	if ln.Known && !cp.Known && ln.V <= 4096 {
		// length is known, capacity is not: model the visible part exactly
		n := int(ln.V)
		arr := ArrV{N: n, Def: zeroOf(et), Elems: make([]AV, n)}
		for i := range arr.Elems {
			arr.Elems[i] = arr.Def
		}
		return SliceV{Arr: it.newCell(s, arr), Lo: 0, Hi: n, Cap: n, CapUnk: true}
	}
	if !ln.Known || !cp.Known {
		return SliceV{Top: true, Opq: ln.Opq || cp.Opq}
	}
	n := int(cp.V)
	arr := ArrV{N: n, Def: zeroOf(et)}
	if n <= 4096 {
		arr.Elems = make([]AV, n)
		for i := range arr.Elems {
			arr.Elems[i] = arr.Def
		}
	}
	return SliceV{Arr: it.newCell(s, arr), Lo: 0, Hi: int(ln.V), Cap: n}
}

func (it *Interp) convert(s *State, fr *Frame, x *ssa.Convert) AV {
	a := it.val(fr, x.X)
	dst := x.Type().Underlying()
	switch v := a.(type) {
	case IntV:
		if b, ok := dst.(*types.Basic); ok {
			switch {
			case b.Info()&types.IsInteger != 0:
				if v.Bits != nil {
					nb := v.Bits
					if w := unsignedWidth(x.Type()); w > 0 {
						nb = nb.mask(w)
					} else if w := signedWidth(x.Type()); w > 0 && nb.mask(w).B[w-1].K == bZero {
						nb = nb.mask(w) // a non-negative value keeps its bits in a signed type
					} else {
						nb = nil
					}
					v2 := v
					v2.Bits = nil
					var r AV
					if rr, ok := it.symConvert(s, x, v2); ok {
						r = rr
					} else {
						r = it.wrap(v2, x.Type())
					}
					return attachBits(r, nb)
				}
				if r, ok := it.symConvert(s, x, v); ok {
					return r
				}
				return it.wrap(v, x.Type())
			case b.Info()&types.IsFloat != 0:
				if v.Known {
					if isUnsigned(x.X.Type()) {
						return FloatV{Known: true, V: float64(uint64(v.V))}
					}
					return FloatV{Known: true, V: float64(v.V)}
				}
				return FloatV{Opq: v.Opq}
			case b.Info()&types.IsString != 0:
				return StrV{Opq: v.Opq}
			}
		}
	case FloatV:
		if b, ok := dst.(*types.Basic); ok {
			switch {
			case b.Info()&types.IsFloat != 0:
				if sb, ok := x.X.Type().Underlying().(*types.Basic); ok && b.Kind() == types.Float32 && sb.Kind() != types.Float32 && !v.Known {
					// narrowing rounds: the result is no longer the value that came in
					it.nextSym++
					return FloatV{Opq: v.Opq, Finite: v.Finite, Sym: it.nextSym}
				}
				return v
			case b.Info()&types.IsInteger != 0:
				if v.Known && !math.IsNaN(v.V) && math.Abs(v.V) < 1e18 {
					return it.wrap(intOf(int64(v.V)), x.Type())
				}
				if it.Intervals && isUnsigned(x.Type()) {
					if iv, ok := s.interval(v); ok && iv.Lo > -1 && iv.Hi < 4e9 && unsignedWidth(x.Type()) >= 32 {
						lo, hi := int64(math.Max(iv.Lo, 0)), int64(iv.Hi)
						return it.freshSym(s, lo, hi, v.Opq)
					}
				}
				return IntV{Opq: v.Opq}
			}
		}
	case StrV:
		if sl, ok := dst.(*types.Slice); ok {
			// []byte(s) / []rune(s)
			if v.LenKnown {
				if eb, ok := sl.Elem().Underlying().(*types.Basic); ok && eb.Kind() == types.Uint8 {
					arr := ArrV{N: v.Len, Def: IntV{Opq: v.Opq}}
					arr.Elems = make([]AV, v.Len)
					for i := range arr.Elems {
						if v.HasLit {
							arr.Elems[i] = intOf(int64(v.Lit[i]))
						} else {
							arr.Elems[i] = arr.Def
						}
					}
					return SliceV{Arr: it.newCell(s, arr), Hi: v.Len, Cap: v.Len}
				}
			}
			return SliceV{Top: true, Opq: v.Opq}
		}
		return v
	case SliceV:
		if b, ok := dst.(*types.Basic); ok && b.Info()&types.IsString != 0 {
			// string(bytes): same length; string(runes): unknown length
			if el, ok := x.X.Type().Underlying().(*types.Slice); ok {
				if eb, ok := el.Elem().Underlying().(*types.Basic); ok && eb.Kind() == types.Uint8 {
					if n, ok := it.sliceLen(v); ok {
						return StrV{LenKnown: true, Len: n, Opq: v.Opq}
					}
				}
			}
			return StrV{Opq: v.Opq}
		}
		return v
	case PtrV:
		return v
	}
	return topOf(x.Type(), isOpq(a))
}

func (it *Interp) typeAssert(s *State, fr *Frame, x *ssa.TypeAssert) AV {
	iv, ok := it.val(fr, x.X).(IfaceV)
	if !ok {
		iv = IfaceV{Top: true, Opq: true}
	}
	mk := func(val AV, okb BoolV) AV {
		if x.CommaOk {
			return TupleV{Vals: []AV{val, okb}}
		}
		return val
	}
	if iv.Nil {
		if !x.CommaOk {
			it.fault(s, "assert", x, "type assertion on a nil interface")
			s.done = true
			it.stop("")
		}
		return mk(zeroOf(x.AssertedType), boolOf(false))
	}
	if iv.Top || iv.Typ == nil || iv.MayNil {
		return mk(topOf(x.AssertedType, iv.Opq), BoolV{T: true, F: true, Opq: iv.Opq})
	}
	if types.IsInterface(x.AssertedType) {
		if types.Implements(iv.Typ, x.AssertedType.Underlying().(*types.Interface)) {
			return mk(iv, boolOf(true))
		}
		if !x.CommaOk {
			it.fault(s, "assert", x, "interface conversion fails for "+shortType(iv.Typ))
			s.done = true
			it.stop("")
		}
		return mk(IfaceV{Nil: true}, boolOf(false))
	}
	if types.Identical(iv.Typ, x.AssertedType) {
		return mk(iv.Val, boolOf(true))
	}
	if !x.CommaOk {
		it.fault(s, "assert", x, fmt.Sprintf("type assertion to %s on a value of dynamic type %s", shortType(x.AssertedType), shortType(iv.Typ)))
		s.done = true
		it.stop("")
	}
	return mk(zeroOf(x.AssertedType), boolOf(false))
}

func (it *Interp) lookup(s *State, fr *Frame, x *ssa.Lookup) AV {
	base := it.val(fr, x.X)
	if sv, ok := base.(StrV); ok {
		idx, _ := it.val(fr, x.Index).(IntV)
		if idx.Known && sv.LenKnown && (idx.V < 0 || idx.V >= int64(sv.Len)) {
			it.fault(s, "index", x, fmt.Sprintf("index %d out of range for string of length %d", idx.V, sv.Len))
			s.done = true
			it.stop("")
		}
		if idx.Known && sv.HasLit && int(idx.V) < len(sv.Lit) {
			return intOf(int64(sv.Lit[idx.V]))
		}
		if !idx.Known && sv.LenKnown && sv.Len == 0 {
			it.fault(s, "index", x, "index into an empty string")
			s.done = true
			it.stop("")
		}
		return IntV{Opq: sv.Opq}
	}
	// map lookup: opaque
	mt, _ := x.X.Type().Underlying().(*types.Map)
	var vt types.Type
	if mt != nil {
		vt = mt.Elem()
	} else {
		vt = x.Type()
	}
	if x.CommaOk {
		if it.Precise && types.TypeString(vt, nil) == "error" {
			// a table of error sentinels: what is found is not nil (the value is only meaningful when ok)
			return TupleV{Vals: []AV{nonNilError(), BoolV{T: true, F: true, Opq: true}}}
		}
		return TupleV{Vals: []AV{topOf(vt, true), BoolV{T: true, F: true, Opq: true}}}
	}
	return topOf(vt, true)
}

// refine narrows the state along a taken branch where that is cheap and exact:
// nil-ness of the compared value, booleans.
func (it *Interp) refine(s *State, fr *Frame, cond ssa.Value, taken bool) {
	switch x := cond.(type) {
	case *ssa.UnOp:
		if x.Op == token.NOT {
			it.refine(s, fr, x.X, !taken)
			return
		}
	case *ssa.BinOp:
		if x.Op == token.EQL || x.Op == token.NEQ {
			isNil := (x.Op == token.EQL) == taken
			for _, pair := range [][2]ssa.Value{{x.X, x.Y}, {x.Y, x.X}} {
				if c, ok := pair[1].(*ssa.Const); ok && c.IsNil() {
					it.setNilness(s, fr, pair[0], isNil)
					return
				}
			}
		}
		if fa, ok := it.val(fr, x.X).(FloatV); ok {
			if fb, ok := it.val(fr, x.Y).(FloatV); ok {
				op := x.Op
				if !taken {
					op = map[token.Token]token.Token{token.LSS: token.GEQ, token.GEQ: token.LSS, token.LEQ: token.GTR, token.GTR: token.LEQ, token.EQL: token.NEQ, token.NEQ: token.EQL}[op]
				}
				it.refineFloat(s, op, fa, fb)
				return
			}
		}
		it.symRefine(s, fr, x, taken)
		return
	}
	if _, isConst := cond.(*ssa.Const); !isConst {
		fr.env[cond] = boolOf(taken)
	}
}

// setNilness rewrites the abstract value of v (and of the memory it was loaded
// from) to definitely nil / definitely non-nil.
func (it *Interp) setNilness(s *State, fr *Frame, v ssa.Value, isNil bool) {
	cur := it.val(fr, v)
	var nv AV
	switch x := cur.(type) {
	case IfaceV:
		if isNil {
			nv = IfaceV{Nil: true}
		} else {
			x.MayNil = false
			if x.Top {
				// unknown but non-nil
				x = IfaceV{Opq: x.Opq, User: x.User}
			}
			nv = x
		}
	case PtrV:
		if isNil {
			nv = PtrV{Nil: true}
		} else {
			x.MayNil = false
			nv = x
		}
	case SliceV:
		if isNil {
			nv = SliceV{Nil: true}
		} else {
			x.MayNil = false
			nv = x
		}
	case FuncV:
		if isNil {
			nv = FuncV{Nil: true}
		} else {
			nv = x
		}
	default:
		return
	}
	if _, isConst := v.(*ssa.Const); isConst {
		return
	}
	fr.env[v] = nv
	// write back to the memory it was loaded from so that a reload agrees
	if ld, ok := v.(*ssa.UnOp); ok && ld.Op == token.MUL {
		if p, ok := it.val(fr, ld.X).(PtrV); ok && !p.Nil && !p.Top {
			if cell, ok := s.heap[p.Cell]; ok {
				s.heap[p.Cell] = writePath(cell, p.Path, nv)
			}
		}
	}
}
