package main

// Small table rules added after seeded changes were missed.
//
//   T11  box intersection (clip.Bound): result.Min[a] = math.Max of the two
//        operands' Min[a], result.Max[a] = math.Min of their Max[a], for both
//        axes, each call taking one coordinate from each operand;
//   T12  area flag of the simplifier helpers: a call of runSimplify whose line
//        comes from a Ring (or a polygon's ring) passes area=true, from a
//        LineString area=false (sibling helpers agree);
//   H7   compaction index: a function that returns x[:n] after a loop that
//        conditionally keeps elements stores the kept element at x[n] (the
//        write counter), not at the read index.

import (
	"fmt"
	"go/ast"
	"go/token"
	"go/types"
	"strings"

	"golang.org/x/tools/go/packages"
)

func ruleBoxIntersection(c *Ctx) {
	p := c.P
	c.R.Rule("T11: clip.Bound builds Min[a] = math.Max(x.Min[a], y.Min[a]) and Max[a] = math.Min(x.Max[a], y.Max[a]) for a in {0,1}, with x and y the two different operands")
	pk, fd := findFuncDecl(p, orbPath+"/clip", "Bound")
	if fd == nil {
		c.R.Unknown("T11-box-intersection", "clip.Bound", "", "not found")
		return
	}
	var params []string
	for _, f := range fd.Type.Params.List {
		for _, n := range f.Names {
			params = append(params, n.Name)
		}
	}
	n := 0
	ast.Inspect(fd.Body, func(nd ast.Node) bool {
		kv, ok := nd.(*ast.KeyValueExpr)
		if !ok {
			return true
		}
		id, ok := kv.Key.(*ast.Ident)
		if !ok || (id.Name != "Min" && id.Name != "Max") {
			return true
		}
		cl, ok := kv.Value.(*ast.CompositeLit)
		if !ok {
			return true
		}
		for axis, el := range cl.Elts {
			n++
			cons := fmt.Sprintf("clip.Bound#%s[%d]", id.Name, axis)
			// a local defined once stands for its definition
			if lid, isID := ast.Unparen(el).(*ast.Ident); isID {
				if def := singleDef(pk, fd, lid); def != nil {
					el = def
				}
			}
			call, ok := ast.Unparen(el).(*ast.CallExpr)
			wantFn := map[string]string{"Min": "Max", "Max": "Min"}[id.Name]
			bad := ""
			if !ok || len(call.Args) != 2 {
				bad = "not a two-argument math call"
			} else {
				se, ok := call.Fun.(*ast.SelectorExpr)
				if !ok || se.Sel.Name != wantFn {
					bad = fmt.Sprintf("the %s corner must take math.%s of the two operands", id.Name, wantFn)
				}
				owners := map[string]bool{}
				for _, a := range call.Args {
					r, ok := roleOf(pk, a, nil)
					if !ok || r.side != id.Name || r.axis != int64(axis) {
						bad += fmt.Sprintf(" argument %s is not an operand's %s[%d];", types.ExprString(a), id.Name, axis)
					} else {
						owners[r.owner] = true
					}
				}
				if bad == "" && len(owners) != 2 {
					bad = "both arguments come from the same operand"
				}
			}
			if bad != "" {
				c.R.Bad("T11-box-intersection", cons, p.Pos(el.Pos()), strings.TrimSpace(bad)+": "+types.ExprString(el))
			} else {
				c.R.OK("T11-box-intersection", cons, p.Pos(el.Pos()), types.ExprString(el))
			}
		}
		return true
	})
	_ = params
	c.R.Floor("T11-box-intersection", n, 4)
}

func ruleAreaFlag(c *Ctx) {
	p := c.P
	c.R.Rule("T12: every call of simplify.runSimplify passes area=true when the line comes from a Ring and area=false when it comes from a LineString")
	pk := p.Pkgs[orbPath+"/simplify"]
	if pk == nil {
		c.R.Unknown("T12-area-flag", "simplify", "", "package not found")
		return
	}
	n := 0
	p.eachFuncDecl(func(pkg *packages.Package, fd *ast.FuncDecl) {
		if pkg != pk {
			return
		}
		key := ShortKey(funcDeclKey(pkg, fd))
		ord := 0
		ast.Inspect(fd.Body, func(nd ast.Node) bool {
			call, ok := nd.(*ast.CallExpr)
			if !ok || len(call.Args) != 3 {
				return true
			}
			id, ok := call.Fun.(*ast.Ident)
			if !ok || id.Name != "runSimplify" {
				return true
			}
			n++
			cons := fmt.Sprintf("%s#runSimplify#%d", key, ord)
			ord++
			// source kind of the line argument: look through a conversion
			arg := ast.Unparen(call.Args[1])
			src := pkg.TypesInfo.TypeOf(arg)
			if conv, ok := arg.(*ast.CallExpr); ok && len(conv.Args) == 1 {
				if tv, ok := pkg.TypesInfo.Types[conv.Fun]; ok && tv.IsType() {
					src = pkg.TypesInfo.TypeOf(conv.Args[0])
				}
			}
			kind := p.KindOf(src)
			flag, ok := pkg.TypesInfo.Types[call.Args[2]]
			if !ok || flag.Value == nil {
				c.R.Add("T12-area-flag", cons, OutOfScope, p.Pos(call.Pos()), "area flag is not a constant")
				return true
			}
			isArea := flag.Value.String() == "true"
			switch {
			case kind == "Ring" && !isArea:
				c.R.Bad("T12-area-flag", cons, p.Pos(call.Pos()), "a ring is simplified as an open line (area=false): its minimum vertex count and closedness are not protected")
			case kind == "LineString" && isArea:
				c.R.Bad("T12-area-flag", cons, p.Pos(call.Pos()), "a line string is simplified as a ring (area=true)")
			case kind == "Ring" || kind == "LineString":
				c.R.OK("T12-area-flag", cons, p.Pos(call.Pos()), fmt.Sprintf("%s with area=%v", kind, isArea))
			default:
				c.R.Add("T12-area-flag", cons, OutOfScope, p.Pos(call.Pos()), "source kind not recognised: "+shortType(src))
			}
			return true
		})
	})
	c.R.Floor("T12-area-flag", n, 4)
}

// ruleCompactionIndex: H7.
func ruleCompactionIndex(keep func(string) bool, floor int) ruleFunc {
	return func(c *Ctx) {
		p := c.P
		c.R.Rule("H7: where a function keeps some elements of x in place and returns x[:n], every store x[k] = ... inside the keeping loop uses k == n (the write counter), never the read index")
		n := 0
		p.eachFuncDecl(func(pkg *packages.Package, fd *ast.FuncDecl) {
			key := ShortKey(funcDeclKey(pkg, fd))
			if keep != nil && !keep(key) {
				return
			}
			// returns of the form x[:n] with x, n identifiers
			type pair struct{ x, n types.Object }
			var pairs []pair
			ast.Inspect(fd.Body, func(nd ast.Node) bool {
				rs, ok := nd.(*ast.ReturnStmt)
				if !ok {
					return true
				}
				for _, r := range rs.Results {
					se, ok := ast.Unparen(r).(*ast.SliceExpr)
					if !ok || se.Low != nil || se.High == nil {
						continue
					}
					xi, ok1 := ast.Unparen(se.X).(*ast.Ident)
					ni, ok2 := ast.Unparen(se.High).(*ast.Ident)
					if ok1 && ok2 {
						pairs = append(pairs, pair{pkg.TypesInfo.Uses[xi], pkg.TypesInfo.Uses[ni]})
					}
				}
				return true
			})
			for _, pr := range pairs {
				if pr.x == nil || pr.n == nil {
					continue
				}
				// n must be incremented inside a loop
				ast.Inspect(fd.Body, func(nd ast.Node) bool {
					var body *ast.BlockStmt
					switch l := nd.(type) {
					case *ast.ForStmt:
						body = l.Body
					case *ast.RangeStmt:
						body = l.Body
					default:
						return true
					}
					incs := false
					ast.Inspect(body, func(m ast.Node) bool {
						if inc, ok := m.(*ast.IncDecStmt); ok && inc.Tok == token.INC {
							if id, ok := inc.X.(*ast.Ident); ok && pkg.TypesInfo.Uses[id] == pr.n {
								incs = true
							}
						}
						return true
					})
					if !incs {
						return true
					}
					ord := 0
					ast.Inspect(body, func(m ast.Node) bool {
						as, ok := m.(*ast.AssignStmt)
						if !ok {
							return true
						}
						for _, l := range as.Lhs {
							ie, ok := l.(*ast.IndexExpr)
							if !ok {
								continue
							}
							xi, ok := ast.Unparen(ie.X).(*ast.Ident)
							if !ok || pkg.TypesInfo.Uses[xi] != pr.x {
								continue
							}
							n++
							cons := fmt.Sprintf("%s#keep(%s[:%s])#%d", key, pr.x.Name(), pr.n.Name(), ord)
							ord++
							ki, ok := ast.Unparen(ie.Index).(*ast.Ident)
							if ok && pkg.TypesInfo.Uses[ki] == pr.n {
								c.R.OK("H7-compaction-index", cons, p.Pos(as.Pos()), types.ExprString(l)+" is the write position")
							} else {
								c.R.Bad("H7-compaction-index", cons, p.Pos(as.Pos()), fmt.Sprintf("kept elements are stored at %s but the function returns %s[:%s]: once an element has been dropped the kept ones land beyond the returned prefix", types.ExprString(l), pr.x.Name(), pr.n.Name()))
							}
						}
						return true
					})
					return true
				})
			}
		})
		c.R.Floor("H7-compaction-index", n, floor)
	}
}

// singleDef returns the right-hand side of the only assignment to the variable
// id refers to, or nil.
func singleDef(pkg *packages.Package, fd *ast.FuncDecl, id *ast.Ident) ast.Expr {
	obj := pkg.TypesInfo.Uses[id]
	if obj == nil {
		return nil
	}
	var rhs ast.Expr
	n := 0
	ast.Inspect(fd.Body, func(nd ast.Node) bool {
		as, ok := nd.(*ast.AssignStmt)
		if !ok {
			return true
		}
		for i, l := range as.Lhs {
			if lid, ok := l.(*ast.Ident); ok && (pkg.TypesInfo.Defs[lid] == obj || pkg.TypesInfo.Uses[lid] == obj) {
				n++
				if len(as.Lhs) == len(as.Rhs) {
					rhs = as.Rhs[i]
				}
			}
		}
		return true
	})
	if n != 1 {
		return nil
	}
	return rhs
}
