package main

// Float interval arithmetic (Interp.Intervals): when both operands of + - * /
// have a known interval (a constant, or an unknown whose range the hypothesis
// or earlier comparisons with constants fixed), the result's interval is
// computed with outward rounding and recorded for the result's symbol; the
// monotone library functions used by the tile mapping (Sin on [-pi/2, pi/2],
// Log, Exp, Atan) map intervals to intervals.  A float converted to an
// unsigned integer gets the integer bounds of its interval.

import (
	"go/token"
	"math"
)

func outward(lo, hi float64) (float64, float64) {
	return math.Nextafter(lo, math.Inf(-1)), math.Nextafter(hi, math.Inf(1))
}

func (it *Interp) setInterval(s *State, f FloatV, lo, hi float64) {
	if f.Sym <= 0 || math.IsNaN(lo) || math.IsNaN(hi) {
		return
	}
	if s.fsyms == nil {
		s.fsyms = map[int]fInterval{}
	}
	s.fsyms[f.Sym] = fInterval{Lo: lo, Hi: hi}
}

// intervalArith records the interval of r = a op b when both are known.
func (it *Interp) intervalArith(s *State, op token.Token, a, b, r FloatV) {
	if !it.Intervals {
		return
	}
	ia, oka := s.interval(a)
	ib, okb := s.interval(b)
	if !oka || !okb || math.IsInf(ia.Lo, 0) || math.IsInf(ia.Hi, 0) || math.IsInf(ib.Lo, 0) || math.IsInf(ib.Hi, 0) {
		return
	}
	var lo, hi float64
	switch op {
	case token.ADD:
		lo, hi = ia.Lo+ib.Lo, ia.Hi+ib.Hi
	case token.SUB:
		lo, hi = ia.Lo-ib.Hi, ia.Hi-ib.Lo
	case token.MUL, token.QUO:
		if op == token.QUO {
			if ib.Lo <= 0 && ib.Hi >= 0 {
				return
			}
			ib = fInterval{Lo: 1 / ib.Hi, Hi: 1 / ib.Lo}
			ib.Lo, ib.Hi = outward(ib.Lo, ib.Hi)
		}
		c := []float64{ia.Lo * ib.Lo, ia.Lo * ib.Hi, ia.Hi * ib.Lo, ia.Hi * ib.Hi}
		lo, hi = c[0], c[0]
		for _, v := range c[1:] {
			lo, hi = math.Min(lo, v), math.Max(hi, v)
		}
	default:
		return
	}
	lo, hi = outward(lo, hi)
	it.setInterval(s, r, lo, hi)
}

// intervalFunc: monotone library functions.
func (it *Interp) intervalFunc(s *State, name string, arg, r FloatV) {
	if !it.Intervals {
		return
	}
	ia, ok := s.interval(arg)
	if !ok || math.IsInf(ia.Lo, 0) || math.IsInf(ia.Hi, 0) {
		return
	}
	var lo, hi float64
	switch name {
	case "math.Floor":
		// exact and monotone
		it.setInterval(s, r, math.Floor(ia.Lo), math.Floor(ia.Hi))
		return
	case "math.Sin":
		if ia.Lo < -math.Pi/2 || ia.Hi > math.Pi/2 {
			lo, hi = -1, 1
		} else {
			lo, hi = math.Sin(ia.Lo), math.Sin(ia.Hi)
		}
	case "math.Log":
		if ia.Lo <= 0 {
			return
		}
		lo, hi = math.Log(ia.Lo), math.Log(ia.Hi)
	case "math.Exp":
		lo, hi = math.Exp(ia.Lo), math.Exp(ia.Hi)
	case "math.Atan":
		lo, hi = math.Atan(ia.Lo), math.Atan(ia.Hi)
	default:
		return
	}
	// library functions are accurate to within an ulp or so: widen twice
	lo, hi = outward(lo, hi)
	lo, hi = outward(lo, hi)
	it.setInterval(s, r, lo, hi)
}
