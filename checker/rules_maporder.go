package main

// Engine F — map-order determinism.
//
// For every `range` over a map in a function reachable from the given entry
// points, the loop body may only (a) append the key/value to one accumulator,
// (b) update another map, (c) compute values without effects.  An accumulator
// must reach a sort.* call after the loop before any other read of it.
// Everything else (a call with effects, a return, a store) makes the output
// depend on Go's randomised map iteration order.

import (
	"fmt"
	"go/token"
	"go/types"
	"sort"
	"strings"

	"golang.org/x/tools/go/ssa"
)

// reachableFrom computes the set of module functions reachable from the entry
// functions through static calls, closures and (conservatively) every method
// of the module that an interface invocation could select by name.
func (p *Program) reachableFrom(entries []*ssa.Function, extraPkgs ...string) map[*ssa.Function]bool {
	seen := map[*ssa.Function]bool{}
	var work []*ssa.Function
	push := func(f *ssa.Function) {
		if f != nil && !seen[f] && len(f.Blocks) > 0 {
			seen[f] = true
			work = append(work, f)
		}
	}
	for _, e := range entries {
		push(e)
	}
	for _, path := range extraPkgs {
		for _, f := range p.FuncsIn(path) {
			push(f)
		}
	}
	methodsByName := map[string][]*ssa.Function{}
	for _, f := range p.Funcs() {
		if f.Signature.Recv() != nil {
			methodsByName[f.Name()] = append(methodsByName[f.Name()], f)
		}
	}
	for len(work) > 0 {
		f := work[len(work)-1]
		work = work[:len(work)-1]
		for _, b := range f.Blocks {
			for _, in := range b.Instrs {
				if call, ok := in.(ssa.CallInstruction); ok {
					cc := call.Common()
					if callee := cc.StaticCallee(); callee != nil {
						push(callee)
					} else if cc.IsInvoke() {
						for _, m := range methodsByName[cc.Method.Name()] {
							push(m)
						}
					}
				}
				for _, op := range in.Operands(nil) {
					if fn, ok := (*op).(*ssa.Function); ok {
						push(fn)
					}
					if mc, ok := (*op).(*ssa.MakeClosure); ok {
						if fn, ok := mc.Fn.(*ssa.Function); ok {
							push(fn)
						}
					}
				}
			}
		}
		for _, af := range f.AnonFuncs {
			push(af)
		}
	}
	return seen
}

func addrKey(v ssa.Value) string {
	switch x := v.(type) {
	case *ssa.FieldAddr:
		st := x.X.Type().Underlying().(*types.Pointer).Elem().Underlying().(*types.Struct)
		return addrKey(x.X) + "." + st.Field(x.Field).Name()
	case *ssa.Parameter:
		return x.Name()
	case *ssa.Alloc:
		return "alloc:" + x.Comment
	case *ssa.UnOp:
		if x.Op == token.MUL {
			return "*" + addrKey(x.X)
		}
	case *ssa.FreeVar:
		return "free:" + x.Name()
	}
	return fmt.Sprintf("%s@%p", v.Name(), v)
}

func isSortCall(call *ssa.Call) bool {
	callee := call.Call.StaticCallee()
	if callee == nil || callee.Pkg == nil {
		return false
	}
	pp := callee.Pkg.Pkg.Path()
	if pp != "sort" && pp != "slices" {
		return false
	}
	return strings.HasPrefix(callee.Name(), "S") // Strings, Slice, SliceStable, Sort, Stable, SortFunc...
}

func ruleMapOrder(entryKeys []string, extraPkgs []string, floor int) ruleFunc {
	return func(c *Ctx) {
		p := c.P
		c.R.Rule("F: every range over a map reachable from " + strings.Join(entryKeys, ", ") +
			" has an order-insensitive body (append key/value to one accumulator, map updates, pure computation) and the accumulator reaches sort.* before any other read")
		var entries []*ssa.Function
		for _, k := range entryKeys {
			fn := p.Func(orbPath + "/" + k)
			if fn == nil {
				c.R.Unknown("F-map-order", "entry:"+k, "", "entry point not found")
				continue
			}
			entries = append(entries, fn)
		}
		var pk []string
		for _, e := range extraPkgs {
			pk = append(pk, orbPath+"/"+e)
		}
		reach := p.reachableFrom(entries, pk...)
		var fns []*ssa.Function
		for f := range reach {
			fns = append(fns, f)
		}
		sort.Slice(fns, func(i, j int) bool { return FuncKey(fns[i]) < FuncKey(fns[j]) })
		c.R.Note("reachable-functions", fmt.Sprintf("%d functions reachable from %v", len(fns), entryKeys))
		n := 0
		for _, fn := range fns {
			ord := 0
			for _, b := range fn.Blocks {
				for _, in := range b.Instrs {
					rg, ok := in.(*ssa.Range)
					if !ok {
						continue
					}
					if _, isMap := rg.X.Type().Underlying().(*types.Map); !isMap {
						continue
					}
					n++
					cons := fmt.Sprintf("%s#maprange", ShortKey(FuncKey(fn)))
					if ord > 0 {
						cons += fmt.Sprintf("#%d", ord)
					}
					ord++
					checkMapRange(c, fn, rg, cons)
				}
			}
		}
		c.R.Floor("F-map-order", n, floor)
		// message types must not contain map fields (their encoders would iterate them)
		for _, path := range pk {
			sc := p.Pkgs[path].Types.Scope()
			for _, name := range sc.Names() {
				tn, ok := sc.Lookup(name).(*types.TypeName)
				if !ok {
					continue
				}
				st, ok := tn.Type().Underlying().(*types.Struct)
				if !ok {
					continue
				}
				for i := 0; i < st.NumFields(); i++ {
					if _, isMap := st.Field(i).Type().Underlying().(*types.Map); isMap {
						c.R.Bad("F-map-field", ShortKey(path+"."+name+"."+st.Field(i).Name()), p.Pos(st.Field(i).Pos()),
							"message type has a map field; its serialisation order is not fixed by this code")
					}
				}
				c.R.OK("F-map-field", ShortKey(path+"."+name), p.Pos(tn.Pos()), "no map-typed field")
			}
		}
		c.R.Assume("encoding/json.Marshal sorts map keys (library contract) where property values are encoded through it")
	}
}

func checkMapRange(c *Ctx, fn *ssa.Function, rg *ssa.Range, cons string) {
	p := c.P
	pos := p.InstrPos(rg)
	// header: block with the Next on this iterator
	var head *ssa.BasicBlock
	var next *ssa.Next
	for _, r := range *rg.Referrers() {
		if nx, ok := r.(*ssa.Next); ok {
			head, next = nx.Block(), nx
		}
	}
	if head == nil || len(head.Succs) != 2 {
		c.R.Unknown("F-map-order", cons, pos, "cannot find the loop head of this map range")
		return
	}
	_ = next
	body, done := head.Succs[0], head.Succs[1]
	inBody := func(b *ssa.BasicBlock) bool { return body.Dominates(b) }
	accs := map[string]bool{}
	var problems []string
	for _, b := range fn.Blocks {
		if !inBody(b) {
			continue
		}
		for _, in := range b.Instrs {
			switch x := in.(type) {
			case *ssa.Extract, *ssa.FieldAddr, *ssa.IndexAddr, *ssa.UnOp, *ssa.Alloc, *ssa.Slice, *ssa.Phi,
				*ssa.Jump, *ssa.If, *ssa.BinOp, *ssa.MakeInterface, *ssa.Convert, *ssa.ChangeType, *ssa.Lookup,
				*ssa.MapUpdate, *ssa.Index, *ssa.Field, *ssa.ChangeInterface, *ssa.DebugRef, *ssa.TypeAssert, *ssa.MakeSlice, *ssa.MakeMap:
				// no order-visible effect
			case *ssa.Store:
				switch a := x.Addr.(type) {
				case *ssa.IndexAddr:
					if _, ok := a.X.(*ssa.Alloc); !ok {
						problems = append(problems, fmt.Sprintf("store to an element at %s", p.InstrPos(x)))
					}
				case *ssa.FieldAddr, *ssa.Alloc:
					// accumulator update: value must be append(load(addr), ...)
					if call, ok := x.Val.(*ssa.Call); ok && isBuiltin(call, "append") {
						accs[addrKey(x.Addr)] = true
					} else if _, isAlloc := a.(*ssa.Alloc); isAlloc {
						// plain local variable assignment (e.g. max tracking) — order-insensitive only if commutative; not judged, flag
						problems = append(problems, fmt.Sprintf("assignment to a variable that outlives the iteration at %s", p.InstrPos(x)))
					} else {
						problems = append(problems, fmt.Sprintf("store to a field at %s", p.InstrPos(x)))
					}
				default:
					problems = append(problems, fmt.Sprintf("store through a pointer at %s", p.InstrPos(x)))
				}
			case *ssa.Call:
				if isBuiltin(x, "append") || isBuiltin(x, "len") || isBuiltin(x, "cap") || isBuiltin(x, "delete") {
					continue
				}
				problems = append(problems, fmt.Sprintf("call to %s in map order at %s", calleeName(x), p.InstrPos(x)))
			case *ssa.Return:
				problems = append(problems, fmt.Sprintf("return from inside the iteration at %s", p.InstrPos(x)))
			default:
				problems = append(problems, fmt.Sprintf("%T at %s", in, p.InstrPos(in)))
			}
		}
	}
	// local (phi) accumulators: a phi in the head fed by an append in the body
	for _, in := range head.Instrs {
		phi, ok := in.(*ssa.Phi)
		if !ok {
			break
		}
		for _, e := range phi.Edges {
			if call, ok := e.(*ssa.Call); ok && isBuiltin(call, "append") && inBody(call.Block()) {
				accs["phi:"+phi.Name()] = true
				// uses of the phi after the loop
				var sortAt, firstRead ssa.Instruction
				for _, r := range *phi.Referrers() {
					if inBody(r.Block()) || r.Block() == head {
						continue
					}
					if call, ok := r.(*ssa.Call); ok && isSortCall(call) {
						if sortAt == nil {
							sortAt = r
						}
						continue
					}
					if firstRead == nil {
						firstRead = r
					}
				}
				if sortAt == nil {
					problems = append(problems, "accumulator "+phi.Comment+" built in map order is never sorted")
				} else if firstRead != nil && !instrDominates(sortAt, firstRead) {
					problems = append(problems, "accumulator "+phi.Comment+" is read at "+p.InstrPos(firstRead)+" before it is sorted")
				}
			}
		}
	}
	// address-based accumulators
	for acc := range accs {
		if strings.HasPrefix(acc, "phi:") {
			continue
		}
		var sorts []ssa.Instruction
		var reads []ssa.Instruction
		for _, b := range fn.Blocks {
			if inBody(b) || !(done.Dominates(b)) {
				continue
			}
			for _, in := range b.Instrs {
				ld, ok := in.(*ssa.UnOp)
				if !ok || ld.Op != token.MUL || addrKey(ld.X) != acc {
					continue
				}
				for _, r := range *ld.Referrers() {
					// sort.Slice(x, less) takes x as interface{}: look through the boxing
					if mi, ok := r.(*ssa.MakeInterface); ok {
						boxedSort := false
						for _, r2 := range *mi.Referrers() {
							if call, ok := r2.(*ssa.Call); ok && isSortCall(call) {
								sorts = append(sorts, r2)
								boxedSort = true
							}
						}
						if boxedSort {
							continue
						}
					}
					if call, ok := r.(*ssa.Call); ok && isSortCall(call) {
						sorts = append(sorts, r)
					} else {
						reads = append(reads, r)
					}
				}
			}
		}
		if len(sorts) == 0 {
			problems = append(problems, "accumulator "+acc+" built in map order is never passed to sort.* after the loop")
			continue
		}
		for _, r := range reads {
			ok := false
			for _, s := range sorts {
				if instrDominates(s, r) {
					ok = true
				}
			}
			if !ok {
				problems = append(problems, "accumulator "+acc+" is read at "+p.InstrPos(r)+" before it is sorted")
			}
		}
	}
	if len(problems) > 0 {
		c.R.Bad("F-map-order", cons, pos, "output may depend on map iteration order: "+strings.Join(problems, "; "))
		return
	}
	var an []string
	for a := range accs {
		an = append(an, a)
	}
	sort.Strings(an)
	c.R.OK("F-map-order", cons, pos, fmt.Sprintf("body is order-insensitive; accumulators %v are sorted before use", an))
}

func isBuiltin(call *ssa.Call, name string) bool {
	b, ok := call.Call.Value.(*ssa.Builtin)
	return ok && b.Name() == name
}

func calleeName(call ssa.CallInstruction) string {
	cc := call.Common()
	if f := cc.StaticCallee(); f != nil {
		return ShortKey(FuncKey(f))
	}
	if cc.IsInvoke() {
		return "(interface)." + cc.Method.Name()
	}
	return cc.Value.Name()
}

// instrDominates: a executes before b on every path to b.
func instrDominates(a, b ssa.Instruction) bool {
	if a.Block() == b.Block() {
		for _, in := range a.Block().Instrs {
			if in == a {
				return true
			}
			if in == b {
				return false
			}
		}
	}
	return a.Block().Dominates(b.Block())
}
