package main

import (
	"fmt"
	"go/types"

	"golang.org/x/tools/go/ssa"
)

// mvt.Marshal: one vector-tile layer per input layer, in order, carrying that layer's name, version and extent,
// and every feature of the layer handed to addFeature once, in order, with that layer's message.
// addFeature and proto.Marshal are uninterpreted; what is judged is the message given to proto.Marshal.

type mvtCtx struct {
	names    []string
	versions []int64
	extents  []int64
	features [][]string // identities of the feature pointers per layer
}

func mvtMarshalSpecs(thorough bool) []composeSpec {
	shapes := [][]int{{}, {1}, {0}, {2, 0, 1}, {0, 2}, {1, 1}}
	if thorough {
		shapes = append(shapes, []int{0, 0}, []int{3, 1, 0, 2})
	}
	var cases []composeCase
	for _, sh := range shapes {
		sh := sh
		cases = append(cases, composeCase{fmt.Sprintf("layers with %v features", sh), func(it *Interp, s *State) ([]AV, interface{}) {
			fn := it.p.funcByShortKey("encoding/mvt.Marshal")
			layersT := fn.Params[0].Type().Underlying().(*types.Slice)
			layerPtrT := layersT.Elem().(*types.Pointer)
			layerT := layerPtrT.Elem().Underlying().(*types.Struct)
			var featT types.Type
			for i := 0; i < layerT.NumFields(); i++ {
				if layerT.Field(i).Name() == "Features" {
					featT = layerT.Field(i).Type().Underlying().(*types.Slice).Elem()
				}
			}
			ctx := &mvtCtx{}
			var lps []AV
			for i, m := range sh {
				var fs []AV
				var ids []string
				for j := 0; j < m; j++ {
					f := it.freeValue(s, featT, 2)
					fs = append(fs, f)
					ids = append(ids, identString(f))
				}
				feats := AV(SliceV{Nil: true})
				if m > 0 {
					feats = SliceV{Arr: it.newCell(s, ArrV{N: m, Elems: fs, Def: PtrV{Nil: true}}), Hi: m, Cap: m}
				}
				name := fmt.Sprintf("layer-%d", i)
				ver, ext := int64(10+i), int64(1000+i)
				fields := make([]AV, layerT.NumFields())
				for k := 0; k < layerT.NumFields(); k++ {
					switch layerT.Field(k).Name() {
					case "Name":
						fields[k] = StrV{LenKnown: true, Len: len(name), HasLit: true, Lit: name}
					case "Version":
						fields[k] = IntV{Known: true, V: ver}
					case "Extent":
						fields[k] = IntV{Known: true, V: ext}
					case "Features":
						fields[k] = feats
					default:
						fields[k] = it.freeValue(s, layerT.Field(k).Type(), 2)
					}
				}
				lps = append(lps, PtrV{Cell: it.newCell(s, StructV{Fields: fields})})
				ctx.names, ctx.versions, ctx.extents = append(ctx.names, name), append(ctx.versions, ver), append(ctx.extents, ext)
				ctx.features = append(ctx.features, ids)
			}
			layers := AV(SliceV{Nil: true})
			if len(lps) > 0 {
				layers = SliceV{Arr: it.newCell(s, ArrV{N: len(lps), Elems: lps, Def: PtrV{Nil: true}}), Hi: len(lps), Cap: len(lps)}
			}
			return []AV{layers}, ctx
		}})
	}
	nilErr := func(fn *ssa.Function) oracleFunc {
		return func(*Interp, *State, []AV) [][]AV { return [][]AV{{IfaceV{Nil: true}}} }
	}
	bytesNil := func(fn *ssa.Function) oracleFunc {
		return func(it *Interp, s *State, _ []AV) [][]AV {
			return [][]AV{{topOf(fn.Signature.Results().At(0).Type(), false), IfaceV{Nil: true}}}
		}
	}
	return []composeSpec{{
		entry: "encoding/mvt.Marshal", cases: cases,
		oracles: map[string]func(*ssa.Function) oracleFunc{
			"encoding/mvt.addFeature":                nilErr,
			"github.com/gogo/protobuf/proto.Marshal": bytesNil,
		},
		desc: "the message handed to proto.Marshal has one layer per input layer, in order, with that layer's name, version and extent; every feature of a layer was handed to addFeature once, in order, together with that layer's message",
		judge: func(it *Interp, cx interface{}, st *State) string {
			ctx := cx.(*mvtCtx)
			evs := eventsOf(st, "github.com/gogo/protobuf/proto.Marshal")
			if len(evs) != 1 || len(evs[0].Args) != 1 {
				return fmt.Sprintf("proto.Marshal is called %d times", len(evs))
			}
			deref := func(v AV) AV {
				p, ok := v.(PtrV)
				if !ok || p.Nil || p.Top {
					return nil
				}
				return readPath(st.heap[p.Cell], p.Path)
			}
			tile, ok := deref(evs[0].Args[0]).(StructV)
			if !ok {
				// the message may be passed as an interface
				if iv, isI := evs[0].Args[0].(IfaceV); isI {
					tile, ok = deref(iv.Val).(StructV)
				}
				if !ok {
					return "the message handed to proto.Marshal is not followed"
				}
			}
			var layersV SliceV
			found := false
			for _, f := range tile.Fields {
				if sl, isS := f.(SliceV); isS && !found {
					layersV, found = sl, true
				}
			}
			if !found {
				return "the message has no layer list"
			}
			var out []AV
			if !layersV.Nil {
				out = membersOf(st, layersV)
			}
			if len(out) != len(ctx.names) {
				return fmt.Sprintf("%d layers go in, the message has %d", len(ctx.names), len(out))
			}
			var layerIDs []string
			for i, lp := range out {
				layerIDs = append(layerIDs, identString(lp))
				lv, ok := deref(lp).(StructV)
				if !ok {
					return fmt.Sprintf("layer %d of the message is not followed", i)
				}
				var gotName string
				var ints []int64
				for _, f := range lv.Fields {
					switch x := deref(f).(type) {
					case StrV:
						if x.HasLit {
							gotName = x.Lit
						}
					case IntV:
						if x.Known {
							ints = append(ints, int64(uint32(x.V)))
						}
					}
				}
				if gotName != ctx.names[i] {
					return fmt.Sprintf("layer %d of the message is named %q, want %q (the input's layer %d)", i, gotName, ctx.names[i], i)
				}
				hasV, hasE := false, false
				for _, v := range ints {
					if v == ctx.versions[i] {
						hasV = true
					}
					if v == ctx.extents[i] {
						hasE = true
					}
				}
				if !hasV || !hasE {
					return fmt.Sprintf("layer %d of the message does not carry the version and extent of input layer %d", i, i)
				}
			}
			// features
			var want, got []string
			for i, fs := range ctx.features {
				for _, f := range fs {
					want = append(want, layerIDs[i]+"<-"+f)
				}
			}
			for _, ev := range eventsOf(st, "encoding/mvt.addFeature") {
				if len(ev.Args) == 3 {
					got = append(got, identString(ev.Args[0])+"<-"+identString(ev.Args[2]))
				}
			}
			if fmt.Sprint(got) != fmt.Sprint(want) {
				return fmt.Sprintf("addFeature was given %d (layer, feature) pairs, want the %d features of the input each once, in order, with their own layer's message", len(got), len(want))
			}
			return ""
		},
	}}
}
