package main

// Float terms: when Interp.Terms is set, an unknown float that is computed
// from identified unknowns (free inputs, answers of oracle calls) by + - * /
// and math.Abs carries the rational function it denotes, read over the reals.
// The composition rules compare such a term with the stated formula.  Nothing
// here models rounding: "equal" means equal as rational functions of the
// unknowns, which is the claim a formula-level clause makes.

import (
	"fmt"
	"math"
	"math/big"
	"sort"
	"strconv"
	"strings"
)

// poly: monomial key -> coefficient.  A monomial key is "id^e,id^e" with ids
// ascending; "" is the constant monomial.
type poly map[string]*big.Rat

type fterm struct {
	N, D poly
}

const maxTermSize = 3000

func polyConst(r *big.Rat) poly {
	if r.Sign() == 0 {
		return poly{}
	}
	return poly{"": new(big.Rat).Set(r)}
}

func polyAtom(id int) poly {
	return poly{fmt.Sprintf("%d^1", id): big.NewRat(1, 1)}
}

func (p poly) add(q poly, sign int64) poly {
	r := make(poly, len(p)+len(q))
	for k, v := range p {
		r[k] = new(big.Rat).Set(v)
	}
	s := big.NewRat(sign, 1)
	for k, v := range q {
		t := new(big.Rat).Mul(v, s)
		if old, ok := r[k]; ok {
			t.Add(t, old)
		}
		if t.Sign() == 0 {
			delete(r, k)
		} else {
			r[k] = t
		}
	}
	return r
}

func parseMono(k string) map[int]int {
	m := map[int]int{}
	if k == "" {
		return m
	}
	for _, part := range strings.Split(k, ",") {
		i := strings.IndexByte(part, '^')
		id, _ := strconv.Atoi(part[:i])
		e, _ := strconv.Atoi(part[i+1:])
		m[id] = e
	}
	return m
}

func monoKey(m map[int]int) string {
	ids := make([]int, 0, len(m))
	for id, e := range m {
		if e != 0 {
			ids = append(ids, id)
		}
	}
	sort.Ints(ids)
	parts := make([]string, len(ids))
	for i, id := range ids {
		parts[i] = fmt.Sprintf("%d^%d", id, m[id])
	}
	return strings.Join(parts, ",")
}

func mulMono(a, b string) string {
	if a == "" {
		return b
	}
	if b == "" {
		return a
	}
	m := parseMono(a)
	for id, e := range parseMono(b) {
		m[id] += e
	}
	return monoKey(m)
}

func (p poly) mul(q poly) poly {
	r := poly{}
	for ka, va := range p {
		for kb, vb := range q {
			k := mulMono(ka, kb)
			t := new(big.Rat).Mul(va, vb)
			if old, ok := r[k]; ok {
				t.Add(t, old)
			}
			if t.Sign() == 0 {
				delete(r, k)
			} else {
				r[k] = t
			}
		}
	}
	return r
}

func (p poly) equal(q poly) bool {
	if len(p) != len(q) {
		return false
	}
	for k, v := range p {
		w, ok := q[k]
		if !ok || v.Cmp(w) != 0 {
			return false
		}
	}
	return true
}

func (p poly) String() string {
	keys := make([]string, 0, len(p))
	for k := range p {
		keys = append(keys, k)
	}
	sort.Strings(keys)
	var parts []string
	for _, k := range keys {
		c := p[k].RatString()
		if k == "" {
			parts = append(parts, c)
		} else {
			parts = append(parts, c+"*"+k)
		}
	}
	if len(parts) == 0 {
		return "0"
	}
	return strings.Join(parts, " + ")
}

func (t *fterm) String() string {
	if t == nil {
		return "?"
	}
	if len(t.D) == 1 {
		if c, ok := t.D[""]; ok && c.Cmp(big.NewRat(1, 1)) == 0 {
			return t.N.String()
		}
	}
	return "(" + t.N.String() + ") / (" + t.D.String() + ")"
}

func termConstRat(r *big.Rat) *fterm { return &fterm{N: polyConst(r), D: polyConst(big.NewRat(1, 1))} }

func termConst(v float64) *fterm {
	if math.IsNaN(v) || math.IsInf(v, 0) {
		return nil
	}
	r := new(big.Rat)
	if r.SetFloat64(v) == nil {
		return nil
	}
	return termConstRat(r)
}

func termAtom(id int) *fterm { return &fterm{N: polyAtom(id), D: polyConst(big.NewRat(1, 1))} }

func (t *fterm) ok() *fterm {
	if t == nil || len(t.N)+len(t.D) > maxTermSize {
		return nil
	}
	return t
}

func termAdd(a, b *fterm, sign int64) *fterm {
	if a == nil || b == nil {
		return nil
	}
	if a.D.equal(b.D) {
		return (&fterm{N: a.N.add(b.N, sign), D: a.D}).ok()
	}
	return (&fterm{N: a.N.mul(b.D).add(b.N.mul(a.D), sign), D: a.D.mul(b.D)}).ok()
}

func termMul(a, b *fterm) *fterm {
	if a == nil || b == nil {
		return nil
	}
	return (&fterm{N: a.N.mul(b.N), D: a.D.mul(b.D)}).ok()
}

func termDiv(a, b *fterm) *fterm {
	if a == nil || b == nil || len(b.N) == 0 {
		return nil
	}
	return (&fterm{N: a.N.mul(b.D), D: a.D.mul(b.N)}).ok()
}

// termEqual: equality of the two rational functions (cross-multiplied).
func termEqual(a, b *fterm) bool {
	if a == nil || b == nil {
		return false
	}
	return a.N.mul(b.D).equal(b.N.mul(a.D))
}

func (t *fterm) isZero() bool { return t != nil && len(t.N) == 0 }

// termOf: the term a float value denotes, if any.
func (it *Interp) termOf(f FloatV) *fterm {
	if !it.Terms {
		return nil
	}
	switch {
	case f.Term != nil:
		return f.Term
	case f.Known:
		return termConst(f.V)
	case f.Sym > 0 && !f.Opq:
		return termAtom(f.Sym)
	}
	return nil
}

// absTerm: |t| as a term.  A constant folds; otherwise |t| is an atom of its
// own, the same atom for the same t.
func (it *Interp) absTerm(t *fterm) *fterm {
	if t == nil {
		return nil
	}
	if len(t.N) == 0 {
		return t
	}
	if len(t.N) == 1 && len(t.D) == 1 {
		if c, ok := t.N[""]; ok {
			if d, ok := t.D[""]; ok {
				q := new(big.Rat).Quo(c, d)
				return termConstRat(q.Abs(q))
			}
		}
	}
	return it.fnTerm("abs", t)
}

// fnTerm: an uninterpreted function of a term, as an atom of its own (the same
// atom for the same function and argument).
func (it *Interp) fnTerm(fn string, t *fterm) *fterm {
	if t == nil {
		return nil
	}
	if it.absAtoms == nil {
		it.absAtoms = map[string]int{}
		it.absOf = map[int]*fterm{}
		it.atomFn = map[int]string{}
	}
	// even (abs, cos) and odd (sin) functions: f(-t) is written through f(t), so that both name one atom
	flip := false
	if fn == "abs" || fn == "cos" || fn == "sin" {
		if neg, ok := leadingNegative(t); ok && neg {
			t = termAdd(termConst(0), t, -1)
			flip = fn == "sin"
		}
	}
	key := fn + ":" + t.N.String() + "/" + t.D.String()
	id, ok := it.absAtoms[key]
	if !ok {
		it.nextSym++
		id = it.nextSym
		it.absAtoms[key] = id
		it.absOf[id] = t
		it.atomFn[id] = fn
	}
	if flip {
		return termAdd(termConst(0), termAtom(id), -1)
	}
	return termAtom(id)
}

// leadingNegative: for a polynomial over a positive constant, whether the coefficient of its first monomial (in
// the fixed order of the keys) is negative.  Used to pick one of t / -t as the representative.
func leadingNegative(t *fterm) (bool, bool) {
	if t == nil || len(t.N) == 0 || len(t.D) != 1 {
		return false, false
	}
	d, ok := t.D[""]
	if !ok || d.Sign() <= 0 {
		return false, false
	}
	first := ""
	started := false
	for k := range t.N {
		if !started || k < first {
			first, started = k, true
		}
	}
	return t.N[first].Sign() < 0, true
}

// fnTermPair: an uninterpreted function of two terms in order (atan2), as an atom of its own.
func (it *Interp) fnTermPair(fn string, a, b *fterm) *fterm {
	if a == nil || b == nil {
		return nil
	}
	if it.absAtoms == nil {
		it.absAtoms = map[string]int{}
		it.absOf = map[int]*fterm{}
		it.atomFn = map[int]string{}
	}
	key := fn + "::" + a.N.String() + "/" + a.D.String() + "|" + b.N.String() + "/" + b.D.String()
	id, ok := it.absAtoms[key]
	if !ok {
		it.nextSym++
		id = it.nextSym
		it.absAtoms[key] = id
		it.absOf[id] = a
		it.atomFn[id] = fn
	}
	return termAtom(id)
}

// fnTerm2: a commutative uninterpreted function (Min, Max) of two atoms, as an
// atom of its own; atomArgs gives its arguments back.
func (it *Interp) fnTerm2(fn string, a, b int) *fterm {
	if a > b {
		a, b = b, a
	}
	if it.absAtoms == nil {
		it.absAtoms = map[string]int{}
		it.absOf = map[int]*fterm{}
		it.atomFn = map[int]string{}
	}
	if it.atomArgs == nil {
		it.atomArgs = map[int][2]int{}
	}
	key := fmt.Sprintf("%s2:%d,%d", fn, a, b)
	id, ok := it.absAtoms[key]
	if !ok {
		it.nextSym++
		id = it.nextSym
		it.absAtoms[key] = id
		it.atomFn[id] = fn
		it.atomArgs[id] = [2]int{a, b}
	}
	return termAtom(id)
}

// atomOf: the atom id if the term is a single atom.
func atomOf(t *fterm) (int, bool) {
	if t == nil || len(t.N) != 1 || len(t.D) != 1 {
		return 0, false
	}
	if d, ok := t.D[""]; !ok || d.Cmp(big.NewRat(1, 1)) != 0 {
		return 0, false
	}
	for k, c := range t.N {
		if c.Cmp(big.NewRat(1, 1)) != 0 {
			return 0, false
		}
		m := parseMono(k)
		if len(m) != 1 {
			return 0, false
		}
		for id, e := range m {
			if e == 1 {
				return id, true
			}
		}
	}
	return 0, false
}

// nameTerm renders a term with the given names for atoms (function atoms are
// rendered through their argument).
func (it *Interp) nameTerm(t *fterm, names map[int]string) string {
	if t == nil {
		return "?"
	}
	var atom func(id int) string
	atom = func(id int) string {
		if n, ok := names[id]; ok {
			return n
		}
		if args, ok := it.atomArgs[id]; ok {
			return it.atomFn[id] + "(" + atom(args[0]) + ", " + atom(args[1]) + ")"
		}
		if fn, ok := it.atomFn[id]; ok {
			inner := it.nameTerm(it.absOf[id], names)
			if fn == "abs" {
				return "|" + inner + "|"
			}
			return fn + "(" + inner + ")"
		}
		return fmt.Sprintf("v%d", id)
	}
	pstr := func(p poly) string {
		keys := make([]string, 0, len(p))
		for k := range p {
			keys = append(keys, k)
		}
		sort.Strings(keys)
		var parts []string
		for _, k := range keys {
			c := p[k]
			var fs []string
			m := parseMono(k)
			ids := make([]int, 0, len(m))
			for id := range m {
				ids = append(ids, id)
			}
			sort.Ints(ids)
			for _, id := range ids {
				f := atom(id)
				if m[id] != 1 {
					f += fmt.Sprintf("^%d", m[id])
				}
				fs = append(fs, f)
			}
			mono := strings.Join(fs, "*")
			cs := c.RatString()
			switch {
			case mono == "":
				parts = append(parts, cs)
			case cs == "1":
				parts = append(parts, mono)
			case cs == "-1":
				parts = append(parts, "-"+mono)
			default:
				parts = append(parts, cs+"*"+mono)
			}
		}
		if len(parts) == 0 {
			return "0"
		}
		return strings.Join(parts, " + ")
	}
	if len(t.D) == 1 {
		if c, ok := t.D[""]; ok && c.Cmp(big.NewRat(1, 1)) == 0 {
			return pstr(t.N)
		}
	}
	return "(" + pstr(t.N) + ") / (" + pstr(t.D) + ")"
}

// floatFact: an undecided comparison between floats taken on this path.
type floatFact struct {
	Op     string
	A, B   *fterm
	Taken  bool
	PA, PB string // for equality of two points: their identities
}

// termNonNeg: the term is a square (one monomial with even exponents and a
// positive coefficient over a positive constant), hence >= 0 for real values.
func termNonNeg(t *fterm) bool {
	if t == nil || len(t.D) != 1 || len(t.N) != 1 {
		return false
	}
	d, ok := t.D[""]
	if !ok || d.Sign() <= 0 {
		return false
	}
	for k, c := range t.N {
		if c.Sign() <= 0 {
			return false
		}
		for _, e := range parseMono(k) {
			if e%2 != 0 {
				return false
			}
		}
	}
	return true
}

// polySign: the sign of a polynomial as far as the signs of its coefficients
// show it: 0 identically zero; +1/-1 every coefficient >= 0 / <= 0 over atoms
// that are known non-negative (or appear with even exponents); +2/-2 the same
// and some monomial is a product of atoms known to be positive (so the value is
// strictly positive/negative); 9 unknown.
func (it *Interp) polySign(p poly) int {
	if len(p) == 0 {
		return 0
	}
	if len(it.Infinitesimal) > 0 {
		return it.polySignEps(p)
	}
	return it.polySignFlat(p)
}

// polySignEps: with infinitesimal atoms the monomials are grouped by their total degree in those atoms; the
// group of lowest degree decides when its sign is strict, a weak sign (>= 0, may vanish) needs the following
// groups to point the same way.
func (it *Interp) polySignEps(p poly) int {
	groups := map[int]poly{}
	maxDeg := 0
	for k, c := range p {
		d := 0
		for id, e := range parseMono(k) {
			if it.Infinitesimal[id] {
				d += e
			}
		}
		if groups[d] == nil {
			groups[d] = poly{}
		}
		groups[d][k] = c
		if d > maxDeg {
			maxDeg = d
		}
	}
	acc := 0
	seen := false
	for d := 0; d <= maxDeg; d++ {
		g, ok := groups[d]
		if !ok {
			continue
		}
		sg := it.polySignFlat(g)
		if sg == 9 {
			return 9
		}
		if !seen {
			seen = true
			if sg == 2 || sg == -2 {
				return sg
			}
			acc = sg
			continue
		}
		// acc is weak (1 / -1 / 0)
		switch {
		case acc == 0:
			if sg == 2 || sg == -2 {
				return sg
			}
			acc = sg
		case acc > 0 && sg > 0:
			if sg == 2 {
				return 2
			}
		case acc < 0 && sg < 0:
			if sg == -2 {
				return -2
			}
		case sg == 0:
		default:
			return 9
		}
	}
	return acc
}

func (it *Interp) polySignFlat(p poly) int {
	if len(p) == 0 {
		return 0
	}
	pos, neg, strict := true, true, false
	for k, c := range p {
		allPos := true
		for id, e := range parseMono(k) {
			if e%2 != 0 && !it.NonNeg[id] {
				return 9
			}
			if !it.Positive[id] {
				allPos = false
			}
		}
		if allPos {
			strict = true
		}
		if c.Sign() < 0 {
			pos = false
		}
		if c.Sign() > 0 {
			neg = false
		}
	}
	switch {
	case pos && strict:
		return 2
	case pos:
		return 1
	case neg && strict:
		return -2
	case neg:
		return -1
	}
	return 9
}

// termCompare decides a comparison between two terms when the sign of their
// difference follows from the signs of its coefficients.  Divisors must be
// strictly positive or strictly negative by the same reading.
func (it *Interp) termCompare(op string, a, b *fterm) (bool, bool) {
	d := termAdd(b, a, -1) // b - a
	if d == nil {
		return false, false
	}
	ds := it.polySign(d.D)
	if ds != 2 && ds != -2 {
		return false, false
	}
	ns := it.polySign(d.N)
	if ns == 9 {
		return false, false
	}
	if ds < 0 {
		ns = -ns
	}
	// ns: sign of b - a
	switch ns {
	case 0:
		switch op {
		case "==", "<=", ">=":
			return true, true
		default:
			return false, true
		}
	case 2: // a < b
		switch op {
		case "<", "<=", "!=":
			return true, true
		default:
			return false, true
		}
	case -2: // a > b
		switch op {
		case ">", ">=", "!=":
			return true, true
		default:
			return false, true
		}
	case 1: // a <= b
		switch op {
		case "<=":
			return true, true
		case ">":
			return false, true
		}
	case -1: // a >= b
		switch op {
		case ">=":
			return true, true
		case "<":
			return false, true
		}
	}
	return false, false
}

// relation memory: what the path already assumed about a pair of terms.
const (
	relLT uint8 = 1
	relEQ uint8 = 2
	relGT uint8 = 4
)

func relKey(a, b *fterm) (string, bool) {
	ka := a.N.String() + "/" + a.D.String()
	kb := b.N.String() + "/" + b.D.String()
	if ka <= kb {
		return ka + "~" + kb, false
	}
	return kb + "~" + ka, true
}

func opMask(op string) uint8 {
	switch op {
	case "<":
		return relLT
	case "<=":
		return relLT | relEQ
	case ">":
		return relGT
	case ">=":
		return relGT | relEQ
	case "==":
		return relEQ
	case "!=":
		return relLT | relGT
	}
	return relLT | relEQ | relGT
}

func flipMask(m uint8) uint8 {
	r := m & relEQ
	if m&relLT != 0 {
		r |= relGT
	}
	if m&relGT != 0 {
		r |= relLT
	}
	return r
}

// recordRel narrows the relation between the two terms of a fact.
func (it *Interp) recordRel(s *State, f *floatFact) {
	if f == nil || f.A == nil || f.B == nil {
		return
	}
	m := opMask(f.Op)
	if !f.Taken {
		m = (relLT | relEQ | relGT) &^ m
	}
	key, swapped := relKey(f.A, f.B)
	if swapped {
		m = flipMask(m)
	}
	if s.rel == nil {
		s.rel = map[string]uint8{}
	}
	old, ok := s.rel[key]
	if !ok {
		old = relLT | relEQ | relGT
	}
	s.rel[key] = old & m
}

// relDecide: is "a op b" decided by what the path already assumed?
func relDecide(s *State, op string, a, b *fterm) (bool, bool) {
	key, swapped := relKey(a, b)
	have, ok := s.rel[key]
	if !ok {
		return false, false
	}
	if swapped {
		have = flipMask(have)
	}
	want := opMask(op)
	switch {
	case have&^want == 0 && have != 0:
		return true, true
	case have&want == 0:
		return false, true
	}
	return false, false
}
