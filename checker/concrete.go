package main

// orbcheck concrete <cases.jsonl> [repo]: differential self-test of the abstract
// interpreter.  Every line names a library function, concrete arguments and the
// result the real library returned (tools/interpdiff).  The interpreter runs the
// same call with known values: exactly one path must finish and its result must
// be the recorded one (a value the interpreter leaves unknown is reported as
// "unknown", not as a mismatch).  This tests the checker, not the library.

import (
	"bufio"
	"encoding/json"
	"fmt"
	"math"
	"os"
	"strings"
)

type concCase struct {
	Fn   string            `json:"fn"`
	Args []json.RawMessage `json:"args"`
	Res  []json.RawMessage `json:"res"`
}

func kf(v float64) AV { return FloatV{Known: true, V: v} }

func concPoint(c []float64) AV { return ArrV{N: 2, Elems: []AV{kf(c[0]), kf(c[1])}} }

// concBuild builds the abstract value of a JSON-described argument.
func concBuild(it *Interp, s *State, raw json.RawMessage) (AV, error) {
	var m map[string]json.RawMessage
	if err := json.Unmarshal(raw, &m); err != nil {
		return nil, err
	}
	var kind string
	json.Unmarshal(m["kind"], &kind)
	line := func(raw json.RawMessage, isNil bool) AV {
		var c [][]float64
		json.Unmarshal(raw, &c)
		if isNil {
			return SliceV{Nil: true}
		}
		arr := ArrV{N: len(c), Elems: make([]AV, len(c)), Def: concPoint([]float64{0, 0})}
		for i, p := range c {
			arr.Elems[i] = concPoint(p)
		}
		return SliceV{Arr: it.newCell(s, arr), Hi: len(c), Cap: len(c)}
	}
	var isNil bool
	json.Unmarshal(m["nil"], &isNil)
	switch kind {
	case "Point":
		var c []float64
		json.Unmarshal(m["c"], &c)
		return concPoint(c), nil
	case "Bound":
		var c [][]float64
		json.Unmarshal(m["c"], &c)
		return StructV{Fields: []AV{concPoint(c[0]), concPoint(c[1])}}, nil
	case "MultiPoint", "LineString", "Ring":
		return line(m["c"], isNil), nil
	case "MultiLineString", "Polygon", "MultiPolygon":
		if isNil {
			return SliceV{Nil: true}, nil
		}
		var ms []json.RawMessage
		json.Unmarshal(m["m"], &ms)
		arr := ArrV{N: len(ms), Elems: make([]AV, len(ms)), Def: SliceV{Nil: true}}
		for i, r := range ms {
			v, err := concBuild(it, s, r)
			if err != nil {
				return nil, err
			}
			arr.Elems[i] = v
		}
		return SliceV{Arr: it.newCell(s, arr), Hi: len(ms), Cap: len(ms)}, nil
	case "nilslice":
		return SliceV{Nil: true}, nil
	case "dp":
		var thr float64
		json.Unmarshal(m["thr"], &thr)
		return PtrV{Cell: it.newCell(s, StructV{Fields: []AV{kf(thr)}})}, nil
	case "func":
		var name string
		json.Unmarshal(m["name"], &name)
		return FuncV{Fn: it.p.funcByShortKey(name)}, nil
	case "int":
		var v int64
		json.Unmarshal(m["v"], &v)
		return intOf(v), nil
	case "vis":
		var thr float64
		var keep int64
		json.Unmarshal(m["thr"], &thr)
		json.Unmarshal(m["keep"], &keep)
		return PtrV{Cell: it.newCell(s, StructV{Fields: []AV{kf(thr), intOf(keep)}})}, nil
	case "radial":
		var thr float64
		json.Unmarshal(m["thr"], &thr)
		return PtrV{Cell: it.newCell(s, StructV{Fields: []AV{FuncV{Fn: it.p.funcByShortKey("planar.Distance")}, kf(thr)}})}, nil
	case "tile":
		var x, y, z int64
		json.Unmarshal(m["x"], &x)
		json.Unmarshal(m["y"], &y)
		json.Unmarshal(m["z"], &z)
		return StructV{Fields: []AV{intOf(x), intOf(y), intOf(z)}}, nil
	}
	return nil, fmt.Errorf("unknown argument kind %q", kind)
}

// concRender renders an abstract result in the shape of the recorded one.
func concRender(st *State, v AV, raw json.RawMessage) (string, string) {
	var want interface{}
	json.Unmarshal(raw, &want)
	wantS := fmt.Sprint(normJSON(want))
	return concString(st, v, want), wantS
}

func fmtNum(v float64) string {
	if v == math.Trunc(v) && math.Abs(v) < 1e15 {
		return fmt.Sprintf("%d", int64(v))
	}
	return fmt.Sprint(v)
}

func normJSON(v interface{}) interface{} {
	switch x := v.(type) {
	case float64:
		return fmtNum(x)
	case map[string]interface{}:
		switch x["kind"] {
		case "Point":
			return x["c"]
		case "Bound":
			return x["c"]
		case "tile":
			return []interface{}{x["x"], x["y"], x["z"]}
		case "nil":
			return "nil"
		}
		if n, _ := x["nil"].(bool); n {
			return "nil"
		}
		if c, ok := x["c"]; ok {
			return normJSON(c)
		}
		if m, ok := x["m"]; ok {
			return normJSON(m)
		}
		return x
	case []interface{}:
		out := make([]interface{}, len(x))
		for i, e := range x {
			out[i] = normJSON(e)
		}
		return out
	}
	return v
}

func concString(st *State, v AV, want interface{}) string {
	switch x := v.(type) {
	case FloatV:
		if !x.Known {
			return "unknown"
		}
		return fmtNum(x.V)
	case IntV:
		if !x.Known {
			return "unknown"
		}
		if w, ok := want.(float64); ok && w < 0 {
			return fmt.Sprint(x.V) // a signed result: the bits read as two's complement
		}
		return fmt.Sprint(uint64(x.V))
	case BoolV:
		if x.T == x.F {
			return "unknown"
		}
		return fmt.Sprint(x.T)
	case ArrV:
		var parts []string
		for _, e := range x.Elems {
			parts = append(parts, concString(st, e, nil))
		}
		return "[" + strings.Join(parts, " ") + "]"
	case StructV:
		var parts []string
		for _, e := range x.Fields {
			parts = append(parts, concString(st, e, nil))
		}
		return "[" + strings.Join(parts, " ") + "]"
	case SliceV:
		if x.Nil {
			return "nil"
		}
		if x.Top {
			return "unknown"
		}
		var parts []string
		for _, e := range membersOf(st, x) {
			parts = append(parts, concString(st, e, nil))
		}
		return "[" + strings.Join(parts, " ") + "]"
	case IfaceV:
		if x.Nil {
			return "nil"
		}
		return concString(st, x.Val, nil)
	}
	return fmt.Sprintf("?%T", v)
}

func concreteMain(args []string) int {
	if len(args) < 1 {
		fmt.Fprintln(os.Stderr, "usage: orbcheck concrete <cases.jsonl> [repo]")
		return 2
	}
	repo := "/repo"
	if len(args) > 1 {
		repo = args[1]
	}
	p, err := Load(repo, 10)
	if err != nil {
		fmt.Fprintln(os.Stderr, err)
		return 2
	}
	f, err := os.Open(args[0])
	if err != nil {
		fmt.Fprintln(os.Stderr, err)
		return 2
	}
	defer f.Close()
	it := NewInterp(p, Limits{MaxStates: 2000, MaxSteps: 400000, MaxVisits: 64, MaxDepth: 60})
	it.KeepFinished = true
	sc := bufio.NewScanner(f)
	sc.Buffer(make([]byte, 1<<20), 1<<24)
	n, bad, unknown := 0, 0, 0
	for sc.Scan() {
		var c concCase
		if err := json.Unmarshal(sc.Bytes(), &c); err != nil {
			continue
		}
		n++
		it.Faults, it.Finished = nil, nil
		it.Paths, it.Truncated = 0, 0
		it.TruncWhy = map[string]int{}
		s := &State{heap: make(map[int]AV, len(it.baseHeap)+16)}
		for k, v := range it.baseHeap {
			s.heap[k] = v
		}
		var got []string
		var want []string
		fail := ""
		if strings.HasPrefix(c.Fn, "quadtree:") {
			got, want, fail = concQuadtree(p, it, s, c)
		} else {
			fn := p.funcByShortKey(c.Fn)
			if fn == nil {
				fmt.Printf("MISSING %s\n", c.Fn)
				bad++
				continue
			}
			var av []AV
			for i, a := range c.Args {
				v, err := concBuild(it, s, a)
				if err != nil {
					fail = err.Error()
					break
				}
				// a parameter of the geometry interface type takes the value boxed with its kind
				if i < len(fn.Params) && p.IsGeometry(fn.Params[i].Type()) {
					var m map[string]json.RawMessage
					json.Unmarshal(a, &m)
					var kind string
					json.Unmarshal(m["kind"], &kind)
					v = IfaceV{Typ: p.Kind(kind), Val: v}
				}
				av = append(av, v)
			}
			if fail == "" {
				it.pushFrame(s, fn, av, nil, nil)
				it.Run(s)
				switch {
				case len(it.Faults) > 0:
					fail = "fault: " + it.Faults[0].Kind + " " + it.Faults[0].Detail
				case len(it.Finished) != 1:
					fail = fmt.Sprintf("%d paths finished (truncated %d %v)", len(it.Finished), it.Truncated, it.TruncWhy)
				default:
					st := it.Finished[0]
					for i, r := range c.Res {
						if i >= len(st.result) {
							fail = "fewer results than recorded"
							break
						}
						g, w := concRender(st, st.result[i], r)
						got, want = append(got, g), append(want, w)
					}
				}
			}
		}
		gs, ws := strings.Join(got, " ; "), strings.Join(want, " ; ")
		switch {
		case fail != "":
			bad++
			fmt.Printf("FAIL %s: %s\n", c.Fn, fail)
		case strings.Contains(gs, "unknown"):
			unknown++
		case gs != ws:
			bad++
			fmt.Printf("MISMATCH %s\n   interpreter: %s\n   library:     %s\n   args: %s\n", c.Fn, gs, ws, strings.Join(rawStrings(c.Args), " "))
		}
	}
	fmt.Printf("concrete: %d cases, %d mismatches, %d left unknown by the interpreter\n", n, bad, unknown)
	if bad > 0 {
		return 1
	}
	return 0
}

func rawStrings(rs []json.RawMessage) []string {
	var out []string
	for _, r := range rs {
		out = append(out, string(r))
	}
	return out
}

func concQuadtree(p *Program, it *Interp, s *State, c concCase) (got, want []string, fail string) {
	var ps []json.RawMessage
	json.Unmarshal(c.Args[0], &ps)
	bound := StructV{Fields: []AV{concPoint([]float64{-20, -20}), concPoint([]float64{30, 30})}}
	run := func(fn string, args []AV) (*State, string) {
		f := p.funcByShortKey(fn)
		it.Finished = nil
		s.done, s.result = false, nil
		it.pushFrame(s, f, args, nil, nil)
		it.Run(s)
		if len(it.Faults) > 0 {
			return nil, "fault: " + it.Faults[0].Detail
		}
		if len(it.Finished) != 1 {
			return nil, fmt.Sprintf("%s: %d paths finished", fn, len(it.Finished))
		}
		return it.Finished[0], ""
	}
	st, why := run("quadtree.New", []AV{bound})
	if why != "" {
		return nil, nil, why
	}
	tree := st.result[0]
	s = st
	pt := p.Kind("Point")
	for _, raw := range ps {
		v, _ := concBuild(it, s, raw)
		st, why = run("quadtree.(*Quadtree).Add", []AV{tree, IfaceV{Typ: pt, Val: v}})
		if why != "" {
			return nil, nil, why
		}
		s = st
	}
	if c.Fn == "quadtree:add*,remove,KNearest" || c.Fn == "quadtree:add*,remove,Find" {
		// args: points, index of the point removed after the adds (-1: none), query point, k
		var rm, k int
		json.Unmarshal(c.Args[1], &rm)
		if rm >= 0 && rm < len(ps) {
			v, _ := concBuild(it, s, ps[rm])
			st, why = run("quadtree.(*Quadtree).Remove", []AV{tree, IfaceV{Typ: pt, Val: v}, FuncV{Nil: true}})
			if why != "" {
				return nil, nil, why
			}
			s = st
		}
		q, _ := concBuild(it, s, c.Args[2])
		if c.Fn == "quadtree:add*,remove,Find" {
			st, why = run("quadtree.(*Quadtree).Find", []AV{tree, q})
			if why != "" {
				return nil, nil, why
			}
			iv, _ := st.result[0].(IfaceV)
			if iv.Nil {
				return []string{"nil"}, []string{strings.Replace(string(c.Res[0]), "null", "nil", 1)}, ""
			}
			g, w := concRender(st, iv.Val, c.Res[0])
			return []string{g}, []string{w}, ""
		}
		json.Unmarshal(c.Args[3], &k)
		st, why = run("quadtree.(*Quadtree).KNearest", []AV{tree, SliceV{Nil: true}, q, IntV{Known: true, V: int64(k)}, SliceV{Nil: true}})
		if why != "" {
			return nil, nil, why
		}
		// render the pointers as their points
		res, _ := st.result[0].(SliceV)
		var elems []AV
		if !res.Nil {
			for _, e := range membersOf(st, res) {
				if iv, ok := e.(IfaceV); ok {
					elems = append(elems, iv.Val)
				}
			}
		}
		var gs []string
		var wants []json.RawMessage
		json.Unmarshal(c.Res[0], &wants)
		if len(wants) != len(elems) {
			return []string{fmt.Sprintf("%d results", len(elems))}, []string{fmt.Sprintf("%d results", len(wants))}, ""
		}
		var ws []string
		for i, e := range elems {
			g, w := concRender(st, e, wants[i])
			gs, ws = append(gs, g), append(ws, w)
		}
		return []string{strings.Join(gs, " ")}, []string{strings.Join(ws, " ")}, ""
	}
	b, _ := concBuild(it, s, c.Args[1])
	st, why = run("quadtree.(*Quadtree).InBound", []AV{tree, SliceV{Nil: true}, b})
	if why != "" {
		return nil, nil, why
	}
	g, w := concRender(st, st.result[0], c.Res[0])
	if w == "<nil>" {
		w = "nil"
	}
	return []string{g}, []string{w}, ""
}
