package main

// A-comp specs for the simplifiers (C12): with the distance / area measures
// uninterpreted, every path through a simplifier returns a subsequence of the
// input that keeps the first and the last vertex; the radial simplifier keeps
// a vertex only when it was measured farther than the threshold from the
// previously kept one; Visvalingam respects the minimum counts.

import (
	"fmt"
	"math"
	"strings"

	"golang.org/x/tools/go/ssa"
)

type simplifyCtx struct {
	ids    []string // input vertices in order
	closed bool
	kind   string // LineString | Ring
	thr    int    // atom of the threshold, 0 if none
	toKeep int    // Visvalingam ToKeep (0 = default)
	exact  bool   // keep-N: exactly N vertices come back when the input is longer
	slice  SliceV
}

type simplifierDef struct {
	typ    string // RadialSimplifier ...
	build  func(it *Interp, s *State, ctx *simplifyCtx, variant int) AV
	vars   int
	labels []string
}

func simplifySpecs(thorough bool) []composeSpec {
	maxN := 5
	if thorough {
		maxN = 6
	}
	defs := []simplifierDef{
		{typ: "RadialSimplifier", vars: 1, labels: []string{""},
			build: func(it *Interp, s *State, ctx *simplifyCtx, _ int) AV {
				thr := it.freeFloat()
				ctx.thr, _ = atomOf(it.termOf(thr.(FloatV)))
				return PtrV{Cell: it.newCell(s, StructV{Fields: []AV{FuncV{Fn: it.p.funcByShortKey("planar.Distance")}, thr}})}
			}},
		{typ: "DouglasPeuckerSimplifier", vars: 1, labels: []string{""},
			build: func(it *Interp, s *State, ctx *simplifyCtx, _ int) AV {
				thr := it.freeFloat()
				ctx.thr, _ = atomOf(it.termOf(thr.(FloatV)))
				// the property's domain: thresholds >= 0
				if it.NonNeg == nil {
					it.NonNeg, it.Positive = map[int]bool{}, map[int]bool{}
				}
				it.NonNeg[ctx.thr] = true
				return PtrV{Cell: it.newCell(s, StructV{Fields: []AV{thr}})}
			}},
		{typ: "VisvalingamSimplifier", vars: 6, labels: []string{"default minimum", "keep 2", "keep 3", "keep 5", "VisvalingamKeep(2)", "VisvalingamKeep(3)"},
			build: func(it *Interp, s *State, ctx *simplifyCtx, v int) AV {
				ctx.toKeep = []int{0, 2, 3, 5, 2, 3}[v]
				thr := it.freeFloat()
				if v >= 4 {
					// VisvalingamKeep: the threshold is the largest float, only the count stops the removal
					thr = FloatV{Known: true, V: math.MaxFloat64}
					ctx.exact = true
				}
				return PtrV{Cell: it.newCell(s, StructV{Fields: []AV{thr, intOf(int64(ctx.toKeep))}})}
			}},
	}
	oracles := map[string]func(*ssa.Function) oracleFunc{
		"planar.Distance":                   oracleFresh,
		"planar.DistanceFromSegmentSquared": oracleFresh,
		"simplify.doubleTriangleArea":       oracleFresh,
	}
	judge := func(it *Interp, cx interface{}, st *State) string {
		ctx := cx.(*simplifyCtx)
		res, ok := st.result[0].(SliceV)
		if !ok {
			return "the result is not a line"
		}
		var out []string
		if !res.Nil {
			arr, _ := st.heap[res.Arr].(ArrV)
			if arr.Elems == nil || res.Hi > len(arr.Elems) {
				return "the result is not a materialised line"
			}
			for _, e := range arr.Elems[res.Lo:res.Hi] {
				out = append(out, identString(e))
			}
		}
		n := len(ctx.ids)
		if n <= 2 {
			if strings.Join(out, " ") != strings.Join(ctx.ids, " ") {
				return fmt.Sprintf("a line of %d vertices must come back unchanged; got %d vertices", n, len(out))
			}
			return ""
		}
		if len(out) < 2 {
			return fmt.Sprintf("%d vertices in, %d out: the first and the last vertex must both be kept", n, len(out))
		}
		if out[0] != ctx.ids[0] {
			return "the first vertex of the result is not the first input vertex"
		}
		if out[len(out)-1] != ctx.ids[n-1] {
			return "the last vertex of the result is not the last input vertex"
		}
		// subsequence by position: the last output is matched to the last input position
		j := 0
		for k, o := range out {
			if k == len(out)-1 {
				if j > n-1 {
					return "the result is not a subsequence of the input"
				}
				break
			}
			for j < n-1 && ctx.ids[j] != o {
				j++
			}
			if j >= n-1 {
				return fmt.Sprintf("output vertex %d is not an input vertex in order (the result is not a subsequence of the input)", k)
			}
			j++
		}
		return ""
	}
	var specs []composeSpec
	for _, d := range defs {
		for _, kind := range []string{"LineString", "Ring"} {
			d, kind := d, kind
			var cases []composeCase
			for n := 0; n <= maxN; n++ {
				for _, closed := range []bool{false, true} {
					if closed && n < 3 {
						continue
					}
					for v := 0; v < d.vars; v++ {
						n, closed, v := n, closed, v
						lab := fmt.Sprintf("%d vertices", n)
						if closed {
							lab += ", last = first"
						}
						if d.labels[v] != "" {
							lab += ", " + d.labels[v]
						}
						cases = append(cases, composeCase{lab, func(it *Interp, s *State) ([]AV, interface{}) {
							ctx := &simplifyCtx{closed: closed, kind: kind}
							recv := d.build(it, s, ctx, v)
							ln := it.buildGeom(s, pts(kind, n)).(SliceV)
							arr := s.heap[ln.Arr].(ArrV)
							if closed {
								arr.Elems[n-1] = arr.Elems[0]
								s.heap[ln.Arr] = arr
							}
							for _, e := range arr.Elems {
								ctx.ids = append(ctx.ids, identString(e))
							}
							ctx.slice = ln
							return []AV{recv, ln}, ctx
						}})
					}
				}
			}
			j := judge
			if d.typ == "VisvalingamSimplifier" {
				j = func(it *Interp, cx interface{}, st *State) string {
					if why := judge(it, cx, st); why != "" {
						return why
					}
					ctx := cx.(*simplifyCtx)
					res := st.result[0].(SliceV)
					got := res.Hi - res.Lo
					n := len(ctx.ids)
					min := ctx.toKeep
					if min == 0 {
						min = 2
						if kind == "Ring" {
							min = 3
							if ctx.closed {
								min = 4
							}
						}
					}
					if n < min {
						min = n
					}
					if got < min {
						return fmt.Sprintf("%d vertices are returned, fewer than the minimum of %d for this input", got, min)
					}
					if ctx.exact && got != min {
						return fmt.Sprintf("keep-%d returns %d vertices for an input of %d", ctx.toKeep, got, n)
					}
					return ""
				}
			}
			if d.typ == "DouglasPeuckerSimplifier" {
				// the error bound: every vertex dropped between two neighbours of the result was measured against
				// the segment joining them, and the path's comparisons put that (squared) distance at or below
				// the squared threshold; every interior vertex kept was measured above it against some segment
				j = func(it *Interp, cx interface{}, st *State) string {
					if why := judge(it, cx, st); why != "" {
						return why
					}
					ctx := cx.(*simplifyCtx)
					n := len(ctx.ids)
					if n <= 2 || ctx.thr == 0 {
						return ""
					}
					res := st.result[0].(SliceV)
					arr := st.heap[res.Arr].(ArrV)
					// positions kept (same matching as the subsequence test)
					var kept []int
					pos := 0
					outs := arr.Elems[res.Lo:res.Hi]
					for k, o := range outs {
						if k == len(outs)-1 {
							kept = append(kept, n-1)
							break
						}
						for pos < n-1 && ctx.ids[pos] != identString(o) {
							pos++
						}
						kept = append(kept, pos)
						pos++
					}
					thr2 := termMul(termAtom(ctx.thr), termAtom(ctx.thr))
					g := pathOrderTerms(it, st)
					measured := func(a, b, k int) []*fterm {
						var out []*fterm
						for _, ev := range eventsOf(st, "planar.DistanceFromSegmentSquared") {
							if len(ev.Args) == 3 && identString(ev.Args[0]) == ctx.ids[a] && identString(ev.Args[1]) == ctx.ids[b] && identString(ev.Args[2]) == ctx.ids[k] {
								if t := floatTerm(it, ev.Out[0]); t != nil {
									out = append(out, t)
								}
							}
						}
						return out
					}
					for x := 0; x+1 < len(kept); x++ {
						a, b := kept[x], kept[x+1]
						for k := a + 1; k < b; k++ {
							ds := measured(a, b, k)
							if len(ds) == 0 {
								return fmt.Sprintf("vertex %d is dropped between the kept vertices %d and %d, but its distance from the segment joining them was never measured", k, a, b)
							}
							within := false
							for _, d := range ds {
								if g.leq(d, thr2) {
									within = true
								}
							}
							if !within {
								return fmt.Sprintf("vertex %d is dropped between the kept vertices %d and %d, but nothing on this path puts its squared distance from that segment at or below the squared threshold", k, a, b)
							}
						}
					}
					for _, k := range kept[1 : len(kept)-1] {
						beyond := false
						for _, ev := range eventsOf(st, "planar.DistanceFromSegmentSquared") {
							if len(ev.Args) == 3 && identString(ev.Args[2]) == ctx.ids[k] {
								if t := floatTerm(it, ev.Out[0]); t != nil && g.less(thr2, t) {
									beyond = true
								}
							}
						}
						if !beyond {
							return fmt.Sprintf("vertex %d is kept, but nothing on this path puts it farther than the threshold from a segment it was measured against", k)
						}
					}
					return ""
				}
			}
			if d.typ == "RadialSimplifier" {
				j = func(it *Interp, cx interface{}, st *State) string {
					if why := judge(it, cx, st); why != "" {
						return why
					}
					ctx := cx.(*simplifyCtx)
					if len(ctx.ids) <= 2 {
						return ""
					}
					res := st.result[0].(SliceV)
					arr := st.heap[res.Arr].(ArrV)
					g := pathOrder(it, st, nil)
					far := map[string]bool{} // pairs measured farther than the threshold on this path
					for _, ev := range eventsOf(st, "planar.Distance") {
						id, ok := atomOf(floatTerm(it, ev.Out[0]))
						if !ok {
							continue
						}
						for _, sf := range g.strict {
							if sf[0] == ctx.thr && sf[1] == id {
								far[identString(ev.Args[0])+"|"+identString(ev.Args[1])] = true
								far[identString(ev.Args[1])+"|"+identString(ev.Args[0])] = true
							}
						}
					}
					out := arr.Elems[res.Lo:res.Hi]
					for k := 1; k+1 < len(out); k++ {
						if !far[identString(out[k-1])+"|"+identString(out[k])] {
							return fmt.Sprintf("output vertices %d and %d are kept next to each other although their distance was not measured above the threshold", k-1, k)
						}
					}
					return ""
				}
			}
			specs = append(specs, composeSpec{
				entry:   "simplify.(*" + d.typ + ")." + kind,
				desc:    "the result is a subsequence of the input in order that keeps the first and the last vertex (at least two vertices, so a closed ring stays closed); Douglas-Peucker: every dropped vertex was measured against the segment joining its kept neighbours and found within the threshold, every kept interior vertex was measured beyond it; radial: neighbours other than the last were measured farther apart than the threshold; Visvalingam: never fewer than the minimum count",
				terms:   true,
				oracles: oracles,
				cases:   cases,
				judge:   j,
			})
		}
	}
	return specs
}

// doubleTriangleArea: |(b-a) x (c-a)| of the three indexed vertices, as an identity.
func triangleAreaSpecs(thorough bool) []composeSpec {
	type triCtx struct{ pts [][2]*fterm }
	var cases []composeCase
	for _, idx := range [][3]int{{0, 1, 2}, {1, 2, 3}, {0, 2, 3}} {
		idx := idx
		cases = append(cases, composeCase{fmt.Sprintf("vertices %d, %d, %d of a line of 4", idx[0], idx[1], idx[2]), func(it *Interp, s *State) ([]AV, interface{}) {
			ln := it.buildGeom(s, pts("LineString", 4)).(SliceV)
			ctx := &triCtx{}
			for _, i := range idx {
				ctx.pts = append(ctx.pts, pointTerms(it, membersOf(s, ln)[i]))
			}
			return []AV{ln, intOf(int64(idx[0])), intOf(int64(idx[1])), intOf(int64(idx[2]))}, ctx
		}})
	}
	return []composeSpec{{
		entry: "simplify.doubleTriangleArea", terms: true, cases: cases,
		desc: "twice the area of the triangle of the three indexed vertices: the absolute value of (b-a) x (c-a)",
		judge: func(it *Interp, cx interface{}, st *State) string {
			ctx := cx.(*triCtx)
			a, b, c := ctx.pts[0], ctx.pts[1], ctx.pts[2]
			cross := termAdd(termMul(termAdd(b[0], a[0], -1), termAdd(c[1], a[1], -1)), termMul(termAdd(b[1], a[1], -1), termAdd(c[0], a[0], -1)), -1)
			id, ok := atomOf(floatTerm(it, st.result[0]))
			if !ok || it.atomFn[id] != "abs" {
				return "the result is not an absolute value"
			}
			inner := it.absOf[id]
			if !termEqual(inner, cross) && !termEqual(termAdd(termConst(0), inner, -1), cross) {
				return "the result is not |(b-a) x (c-a)| of the three indexed vertices"
			}
			return ""
		},
	}}
}
