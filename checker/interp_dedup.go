package main

// Engine A — state deduplication.  Floating-point branches usually lead to the
// same abstract state on both sides (coordinates are unknown either way); a
// state that has already been explored from the same program point is dropped.
// The fingerprint covers the call stack, the live SSA values of every frame and
// the part of the heap they reach, with heap cells renamed in traversal order.

import (
	"fmt"
	"hash/fnv"
	"sort"
	"strings"

	"golang.org/x/tools/go/ssa"
)

type liveInfo struct {
	in     map[*ssa.BasicBlock]map[ssa.Value]bool
	phiUse map[*ssa.BasicBlock]map[*ssa.BasicBlock]map[ssa.Value]bool // block -> predecessor -> values its phis read on that edge
}

var liveCache = map[*ssa.Function]*liveInfo{}

func isTracked(v ssa.Value) bool {
	switch v.(type) {
	case *ssa.Const, *ssa.Global, *ssa.Function, *ssa.Builtin:
		return false
	}
	return v != nil
}

// liveness computes live-in sets of SSA values per block.
func liveness(fn *ssa.Function) *liveInfo {
	li := &liveInfo{in: map[*ssa.BasicBlock]map[ssa.Value]bool{}}
	use := map[*ssa.BasicBlock]map[ssa.Value]bool{}
	def := map[*ssa.BasicBlock]map[ssa.Value]bool{}
	phiUse := map[*ssa.BasicBlock]map[*ssa.BasicBlock]map[ssa.Value]bool{} // block -> pred -> values
	var ops []*ssa.Value
	for _, b := range fn.Blocks {
		use[b], def[b] = map[ssa.Value]bool{}, map[ssa.Value]bool{}
		li.in[b] = map[ssa.Value]bool{}
		for _, in := range b.Instrs {
			if phi, ok := in.(*ssa.Phi); ok {
				for i, e := range phi.Edges {
					if isTracked(e) {
						if phiUse[b] == nil {
							phiUse[b] = map[*ssa.BasicBlock]map[ssa.Value]bool{}
						}
						pb := b.Preds[i]
						if phiUse[b][pb] == nil {
							phiUse[b][pb] = map[ssa.Value]bool{}
						}
						phiUse[b][pb][e] = true
					}
				}
				def[b][phi] = true
				continue
			}
			ops = in.Operands(ops[:0])
			for _, op := range ops {
				if *op != nil && isTracked(*op) && !def[b][*op] {
					use[b][*op] = true
				}
			}
			if v, ok := in.(ssa.Value); ok {
				def[b][v] = true
			}
		}
	}
	li.phiUse = phiUse
	changed := true
	for changed {
		changed = false
		for i := len(fn.Blocks) - 1; i >= 0; i-- {
			b := fn.Blocks[i]
			in := li.in[b]
			add := func(v ssa.Value) {
				if !in[v] {
					in[v] = true
					changed = true
				}
			}
			for v := range use[b] {
				add(v)
			}
			for _, s := range b.Succs {
				for v := range li.in[s] {
					if !def[b][v] {
						add(v)
					}
				}
				for v := range phiUse[s][b] {
					if !def[b][v] {
						add(v)
					}
				}
			}
		}
	}
	return li
}

func (it *Interp) live(fn *ssa.Function) *liveInfo {
	if li, ok := it.liveCache[fn]; ok {
		return li
	}
	li := liveness(fn)
	it.liveCache[fn] = li
	return li
}

type fpCtx struct {
	s     *State
	sb    *strings.Builder
	names map[int]int
	terms bool // identities of unknown floats matter (Interp.Terms)
}

func (c *fpCtx) cell(id int) {
	if n, ok := c.names[id]; ok {
		fmt.Fprintf(c.sb, "c%d", n)
		return
	}
	n := len(c.names)
	c.names[id] = n
	fmt.Fprintf(c.sb, "c%d=", n)
	c.val(c.s.heap[id])
}

func (c *fpCtx) val(v AV) {
	sb := c.sb
	switch x := v.(type) {
	case nil:
		sb.WriteString("_")
	case BoolV:
		fmt.Fprintf(sb, "b%v%v%v", x.T, x.F, x.Opq)
	case IntV:
		if x.Bits != nil {
			sb.WriteString("B" + x.Bits.String())
		}
		if x.Known {
			fmt.Fprintf(sb, "i%d", x.V)
		} else if x.Sym > 0 {
			si := c.s.syms[x.Sym]
			if si != nil {
				fmt.Fprintf(sb, "y%d*%d+%d[%d,%d]", x.Sym, x.A, x.B, si.Lo, si.Hi)
			} else {
				fmt.Fprintf(sb, "y%d*%d+%d", x.Sym, x.A, x.B)
			}
		} else {
			fmt.Fprintf(sb, "i?%v", x.Opq)
		}
	case FloatV:
		if x.Known {
			fmt.Fprintf(sb, "f%v", x.V)
		} else {
			fmt.Fprintf(sb, "f?%v%v", x.Opq, x.Finite)
			if x.Term != nil {
				sb.WriteString("{" + x.Term.String() + "}")
			} else if c.terms && x.Sym > 0 {
				fmt.Fprintf(sb, "#%d", x.Sym)
			}
			if iv, ok := c.s.fsyms[x.Sym]; ok && x.Sym > 0 {
				fmt.Fprintf(sb, "[%v%v,%v%v]", iv.Lo, iv.LoStrict, iv.Hi, iv.HiStrict)
			}
		}
	case StrV:
		fmt.Fprintf(sb, "s%v,%d,%v,%q,%v", x.LenKnown, x.Len, x.HasLit, x.Lit, x.Opq)
	case PtrV:
		if x.Nil {
			sb.WriteString("pnil")
		} else if x.Top {
			fmt.Fprintf(sb, "p?%v", x.Opq)
		} else {
			fmt.Fprintf(sb, "p%v%v(", x.MayNil, x.Path)
			c.cell(x.Cell)
			sb.WriteString(")")
		}
	case SliceV:
		if x.Nil {
			sb.WriteString("snil")
		} else if x.Top {
			fmt.Fprintf(sb, "s?%v%v", x.Opq, x.MayNil)
		} else {
			fmt.Fprintf(sb, "s[%d:%d:%d]%v%v(", x.Lo, x.Hi, x.Cap, x.MayNil, x.CapUnk)
			c.cell(x.Arr)
			sb.WriteString(")")
		}
	case ArrV:
		fmt.Fprintf(sb, "a%d[", x.N)
		for _, e := range x.Elems {
			c.val(e)
			sb.WriteString(",")
		}
		sb.WriteString("|")
		c.val(x.Def)
		sb.WriteString("]")
	case StructV:
		sb.WriteString("{")
		for _, e := range x.Fields {
			c.val(e)
			sb.WriteString(",")
		}
		sb.WriteString("}")
	case IfaceV:
		if x.Nil {
			sb.WriteString("inil")
		} else {
			fmt.Fprintf(sb, "I%v%v%v%v", x.Top, x.Opq, x.User, x.MayNil)
			if x.Typ != nil {
				sb.WriteString(x.Typ.String())
			}
			sb.WriteString("(")
			c.val(x.Val)
			sb.WriteString(")")
		}
	case FuncV:
		fmt.Fprintf(sb, "F%v%v%v%v%p(", x.Nil, x.Top, x.User, x.Opq, x.Fn)
		for _, b := range x.Bindings {
			c.val(b)
			sb.WriteString(",")
		}
		sb.WriteString(")")
	case MapV:
		fmt.Fprintf(sb, "M%v%v", x.Nil, x.Opq)
	case TupleV:
		sb.WriteString("(")
		for _, e := range x.Vals {
			c.val(e)
			sb.WriteString(",")
		}
		sb.WriteString(")")
	case TopV:
		fmt.Fprintf(sb, "T%v", x.Opq)
	default:
		fmt.Fprintf(sb, "?%T", v)
	}
}

// fingerprint of the state at the entry of block `to` of the top frame.
func (it *Interp) fingerprint(s *State, to *ssa.BasicBlock) uint64 {
	var sb strings.Builder
	c := &fpCtx{s: s, sb: &sb, names: map[int]int{}, terms: it.Terms}
	hasOpq := false
	for _, t := range s.trail {
		if t.Opq || t.Der {
			hasOpq = true
		}
	}
	fmt.Fprintf(&sb, "opq%v|", hasOpq)
	// the relations assumed between terms decide later comparisons (relation
	// memory) and are what the judges read: states with different relations are
	// different states
	if it.Terms && len(s.rel) > 0 {
		keys := make([]string, 0, len(s.rel))
		for k := range s.rel {
			keys = append(keys, k)
		}
		sort.Strings(keys)
		for _, k := range keys {
			fmt.Fprintf(&sb, "R%s=%d;", k, s.rel[k])
		}
	}
	// paths with different oracle histories are never merged: the composition
	// rules judge the result against the whole history
	for _, ev := range s.events {
		fmt.Fprintf(&sb, "E%p@%s:", ev.Fn, ev.Pos)
		for _, a := range ev.Args {
			sb.WriteString(identString(a))
			sb.WriteString(",")
		}
		sb.WriteString("->")
		for _, o := range ev.Out {
			c.val(o)
			sb.WriteString(",")
		}
		sb.WriteString("|")
	}
	for fi, fr := range s.frames {
		var live map[ssa.Value]bool
		li := it.live(fr.fn)
		top := fi == len(s.frames)-1
		if top {
			live = map[ssa.Value]bool{}
			for v := range li.in[to] {
				live[v] = true
			}
			// the phis of the target read their operands on this edge
			for v := range li.phiUse[to][fr.block] {
				live[v] = true
			}
			fmt.Fprintf(&sb, "F%p:%d<-%d|", fr.fn, to.Index, fr.block.Index)
		} else {
			// values that may still be used in this frame: live-in of every successor
			// plus operands of the rest of the current block
			live = map[ssa.Value]bool{}
			for _, su := range fr.block.Succs {
				for v := range li.in[su] {
					live[v] = true
				}
			}
			var ops []*ssa.Value
			for _, in := range fr.block.Instrs[fr.pc:] {
				ops = in.Operands(ops[:0])
				for _, op := range ops {
					if *op != nil && isTracked(*op) {
						live[*op] = true
					}
				}
			}
			fmt.Fprintf(&sb, "F%p:%d.%d|", fr.fn, fr.block.Index, fr.pc)
		}
		// loop counters matter for the visit bound: include visit count of the target
		var vals []ssa.Value
		for v := range live {
			if _, ok := fr.env[v]; ok {
				vals = append(vals, v)
			}
		}
		sort.Slice(vals, func(i, j int) bool { return vals[i].Name() < vals[j].Name() })
		for _, v := range vals {
			sb.WriteString(v.Name())
			sb.WriteString("=")
			c.val(fr.env[v])
			sb.WriteString(";")
		}
	}
	h := fnv.New64a()
	h.Write([]byte(sb.String()))
	return h.Sum64()
}

// identString names a value by the identities it carries (symbols of free
// floats, heap cells of slices and pointers), not by its abstract content.
func identString(v AV) string {
	switch x := v.(type) {
	case FloatV:
		if x.Known {
			return fmt.Sprintf("f%v", x.V)
		}
		return fmt.Sprintf("f#%d", x.Sym)
	case IntV:
		if x.Known {
			return fmt.Sprintf("i%d", x.V)
		}
		return fmt.Sprintf("i#%d*%d+%d", x.Sym, x.A, x.B)
	case BoolV:
		return fmt.Sprintf("b%v%v", x.T, x.F)
	case ArrV:
		var parts []string
		for _, e := range x.Elems {
			parts = append(parts, identString(e))
		}
		return "[" + strings.Join(parts, " ") + "]"
	case StructV:
		var parts []string
		for _, e := range x.Fields {
			parts = append(parts, identString(e))
		}
		return "{" + strings.Join(parts, " ") + "}"
	case SliceV:
		if x.Nil {
			return "snil"
		}
		return fmt.Sprintf("s@%d[%d:%d]", x.Arr, x.Lo, x.Hi)
	case PtrV:
		if x.Nil {
			return "pnil"
		}
		return fmt.Sprintf("p@%d%v", x.Cell, x.Path)
	case IfaceV:
		if x.Nil {
			return "inil"
		}
		return "I(" + identString(x.Val) + ")"
	case TupleV:
		var parts []string
		for _, e := range x.Vals {
			parts = append(parts, identString(e))
		}
		return "(" + strings.Join(parts, " ") + ")"
	}
	return fmt.Sprintf("%T", v)
}
