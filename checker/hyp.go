package main

// Engine A — hypotheses: the abstract inputs.  Kinds are enumerated from
// go/types (the implementers of orb.Geometry); shapes are generated from the
// type structure of each kind: "level j is degenerate, shallower levels are
// non-empty".  Coordinates are always unknown (free).

import (
	"fmt"
	"go/constant"
	"go/types"
	"sort"
	"strings"

	"golang.org/x/tools/go/ssa"
)

// GeomHyp describes one abstract geometry value.
type GeomHyp struct {
	Kind  string // "" = nil interface
	Nil   bool   // typed nil slice
	N     int    // number of points (depth-1 kinds)
	Elems []*GeomHyp
}

func (h *GeomHyp) String() string {
	if h == nil || h.Kind == "" {
		return "nil"
	}
	return h.Kind + h.shape()
}

func (h *GeomHyp) shape() string {
	switch h.Kind {
	case "Point", "Bound":
		return ""
	}
	if h.Nil {
		return "(nil)"
	}
	switch h.Kind {
	case "MultiPoint", "LineString", "Ring":
		if h.N == 0 {
			return "[]"
		}
		return fmt.Sprintf("[%dpt]", h.N)
	}
	var parts []string
	for _, e := range h.Elems {
		if h.Kind == "Collection" {
			parts = append(parts, e.String())
		} else {
			parts = append(parts, strings.TrimPrefix(e.shape(), ""))
		}
	}
	return "[" + strings.Join(parts, ",") + "]"
}

var elemKind = map[string]string{"MultiLineString": "LineString", "Polygon": "Ring", "MultiPolygon": "Polygon"}

func pts(kind string, n int) *GeomHyp { return &GeomHyp{Kind: kind, N: n} }
func nilOf(kind string) *GeomHyp      { return &GeomHyp{Kind: kind, Nil: true} }
func of(kind string, elems ...*GeomHyp) *GeomHyp {
	return &GeomHyp{Kind: kind, Elems: elems}
}

// shapesOf enumerates the degenerate and representative shapes of one kind.
func shapesOf(kind string, thorough bool) []*GeomHyp {
	switch kind {
	case "Point", "Bound":
		return []*GeomHyp{{Kind: kind}}
	case "MultiPoint", "LineString", "Ring":
		out := []*GeomHyp{nilOf(kind), pts(kind, 0), pts(kind, 1), pts(kind, 2), pts(kind, 3), pts(kind, 4)}
		if thorough {
			out = append(out, pts(kind, 5), pts(kind, 6))
		}
		return out
	case "MultiLineString", "Polygon":
		ek := elemKind[kind]
		out := []*GeomHyp{nilOf(kind), of(kind), of(kind, nilOf(ek)), of(kind, pts(ek, 0)), of(kind, pts(ek, 1)),
			of(kind, pts(ek, 2)), of(kind, pts(ek, 4)), of(kind, pts(ek, 4), pts(ek, 0)), of(kind, pts(ek, 0), pts(ek, 4))}
		if thorough {
			out = append(out, of(kind, pts(ek, 3)), of(kind, pts(ek, 4), pts(ek, 4)), of(kind, pts(ek, 4), pts(ek, 1)),
				of(kind, pts(ek, 4), nilOf(ek)), of(kind, pts(ek, 5), pts(ek, 4), pts(ek, 0)))
		}
		return out
	case "MultiPolygon":
		out := []*GeomHyp{nilOf(kind), of(kind), of(kind, nilOf("Polygon")), of(kind, of("Polygon")),
			of(kind, of("Polygon", pts("Ring", 0))), of(kind, of("Polygon", pts("Ring", 1))),
			of(kind, of("Polygon", pts("Ring", 4))),
			of(kind, of("Polygon", pts("Ring", 4)), of("Polygon")),
			of(kind, of("Polygon", pts("Ring", 4), pts("Ring", 0)))}
		if thorough {
			out = append(out, of(kind, of("Polygon"), of("Polygon", pts("Ring", 4))),
				of(kind, of("Polygon", pts("Ring", 4)), of("Polygon", pts("Ring", 0))),
				of(kind, of("Polygon", pts("Ring", 4), pts("Ring", 4))),
				of(kind, of("Polygon", pts("Ring", 4)), of("Polygon", pts("Ring", 4))),
				of(kind, of("Polygon", pts("Ring", 2))), of(kind, of("Polygon", pts("Ring", 3))))
		}
		return out
	}
	return nil
}

// allHyps: nil, every kind x shape, and collections {X} / {{X}} of them.
func allHyps(kinds []string, thorough bool) []*GeomHyp {
	out := []*GeomHyp{nil}
	var flat []*GeomHyp
	for _, k := range kinds {
		if k == "Collection" {
			continue
		}
		flat = append(flat, shapesOf(k, thorough)...)
	}
	out = append(out, flat...)
	out = append(out, nilOf("Collection"), of("Collection"))
	for _, x := range flat {
		out = append(out, of("Collection", x))
	}
	out = append(out, of("Collection", nilOf("Collection")), of("Collection", of("Collection")))
	for i, x := range flat {
		if thorough || i%3 == 0 {
			out = append(out, of("Collection", of("Collection", x)))
		}
	}
	// mixes: a good member next to a degenerate one
	good := map[string]*GeomHyp{"Point": {Kind: "Point"}, "LineString": pts("LineString", 3), "Polygon": of("Polygon", pts("Ring", 4))}
	var gk []string
	for k := range good {
		gk = append(gk, k)
	}
	sort.Strings(gk)
	for _, k := range gk {
		for i, x := range flat {
			if thorough || i%4 == 1 {
				out = append(out, of("Collection", good[k], x), of("Collection", x, good[k]))
			}
		}
	}
	return out
}

func hypsOfKind(kind string, thorough bool) []*GeomHyp {
	if kind == "Collection" {
		var out []*GeomHyp
		for _, h := range allHyps([]string{"Point", "MultiPoint", "LineString", "MultiLineString", "Ring", "Polygon", "MultiPolygon", "Bound"}, thorough) {
			if h != nil && h.Kind == "Collection" {
				out = append(out, h)
			}
		}
		return out
	}
	return shapesOf(kind, thorough)
}

// freeFloat: a finite unknown input with its own identity.
func (it *Interp) freeFloat() AV {
	it.nextSym++
	return FloatV{Finite: true, Sym: it.nextSym, Input: true}
}

// build materialises a hypothesis in the state's heap and returns the value of
// the concrete kind type (not wrapped in an interface).
func (it *Interp) buildGeom(s *State, h *GeomHyp) AV {
	freePoint := func() AV {
		return ArrV{N: 2, Elems: []AV{it.freeFloat(), it.freeFloat()}, Def: FloatV{Finite: true}}
	}
	switch h.Kind {
	case "Point":
		return freePoint()
	case "Bound":
		return StructV{Fields: []AV{freePoint(), freePoint()}}
	}
	if h.Nil {
		return SliceV{Nil: true}
	}
	switch h.Kind {
	case "MultiPoint", "LineString", "Ring":
		arr := ArrV{N: h.N, Elems: make([]AV, h.N), Def: freePoint()}
		for i := range arr.Elems {
			arr.Elems[i] = freePoint()
		}
		return SliceV{Arr: it.newCell(s, arr), Hi: h.N, Cap: h.N}
	}
	n := len(h.Elems)
	arr := ArrV{N: n, Elems: make([]AV, n)}
	for i, e := range h.Elems {
		if h.Kind == "Collection" {
			arr.Elems[i] = it.buildIface(s, e)
		} else {
			arr.Elems[i] = it.buildGeom(s, e)
		}
	}
	if h.Kind == "Collection" {
		arr.Def = IfaceV{Nil: true}
	} else {
		arr.Def = SliceV{Nil: true}
	}
	return SliceV{Arr: it.newCell(s, arr), Hi: n, Cap: n}
}

func (it *Interp) buildIface(s *State, h *GeomHyp) AV {
	if h == nil || h.Kind == "" {
		return IfaceV{Nil: true}
	}
	return IfaceV{Typ: it.p.Kind(h.Kind), Val: it.buildGeom(s, h)}
}

// ---------------------------------------------------------------------------
// other parameters

// enumConsts: declared constants of a named integer type of the module.
func (p *Program) enumConsts(t types.Type) []int64 {
	nt, ok := t.(*types.Named)
	if !ok || nt.Obj().Pkg() == nil || !strings.HasPrefix(nt.Obj().Pkg().Path(), orbPath) {
		return nil
	}
	b, ok := nt.Underlying().(*types.Basic)
	if !ok || b.Info()&types.IsInteger == 0 {
		return nil
	}
	var out []int64
	sc := nt.Obj().Pkg().Scope()
	for _, n := range sc.Names() {
		c, ok := sc.Lookup(n).(*types.Const)
		if !ok || !types.Identical(c.Type(), nt) {
			continue
		}
		if v, ok := constant.Int64Val(c.Val()); ok {
			out = append(out, v)
		}
	}
	sort.Slice(out, func(i, j int) bool { return out[i] < out[j] })
	return out
}

// argChoice is one alternative value for a parameter, with a label.
type argChoice struct {
	label string
	build func(it *Interp, s *State) AV
}

// freeValue builds an unconstrained (free) value of type t; reference types
// are non-nil with free contents; function and interface values are
// caller-supplied (pure, returning free values).
func (it *Interp) freeValue(s *State, t types.Type, depth int) AV {
	if it.p.IsGeometry(t) {
		return IfaceV{Top: true}
	}
	switch u := t.Underlying().(type) {
	case *types.Basic:
		if u.Info()&types.IsFloat != 0 {
			return it.freeFloat()
		}
		return topOf(t, false)
	case *types.Pointer:
		if depth > 3 {
			return PtrV{Top: true}
		}
		return PtrV{Cell: it.newCell(s, it.freeValue(s, u.Elem(), depth+1))}
	case *types.Struct:
		sv := StructV{Fields: make([]AV, u.NumFields())}
		for i := range sv.Fields {
			sv.Fields[i] = it.freeValue(s, u.Field(i).Type(), depth+1)
		}
		return sv
	case *types.Array:
		n := int(u.Len())
		a := ArrV{N: n, Def: it.freeValue(s, u.Elem(), depth+1)}
		if n <= 64 {
			a.Elems = make([]AV, n)
			for i := range a.Elems {
				a.Elems[i] = it.freeValue(s, u.Elem(), depth+1)
			}
		}
		return a
	case *types.Slice:
		return SliceV{Nil: true}
	case *types.Signature:
		return FuncV{User: true}
	case *types.Interface:
		return IfaceV{User: true}
	case *types.Map:
		return MapV{Cell: it.newCell(s, TopV{})}
	}
	return topOf(t, false)
}

type paramOverride func(p *Program, fn *ssa.Function, par *ssa.Parameter) []argChoice

// choicesFor enumerates the alternatives for one (non-geometry) parameter.
func (p *Program) choicesFor(fn *ssa.Function, par *ssa.Parameter, ov paramOverride) []argChoice {
	if ov != nil {
		if c := ov(p, fn, par); c != nil {
			return c
		}
	}
	t := par.Type()
	if vals := p.enumConsts(t); len(vals) > 0 && len(vals) <= 8 {
		var out []argChoice
		for _, v := range vals {
			v := v
			out = append(out, argChoice{fmt.Sprintf("%s=%d", par.Name(), v), func(*Interp, *State) AV { return intOf(v) }})
		}
		return out
	}
	if b, ok := t.Underlying().(*types.Basic); ok && b.Info()&types.IsBoolean != 0 {
		return []argChoice{
			{par.Name() + "=false", func(*Interp, *State) AV { return boolOf(false) }},
			{par.Name() + "=true", func(*Interp, *State) AV { return boolOf(true) }},
		}
	}
	return []argChoice{{"", func(it *Interp, s *State) AV { return it.freeValue(s, t, 0) }}}
}

func intChoices(name string, vals ...int64) []argChoice {
	var out []argChoice
	for _, v := range vals {
		v := v
		out = append(out, argChoice{fmt.Sprintf("%s=%d", name, v), func(*Interp, *State) AV { return intOf(v) }})
	}
	out = append(out, argChoice{name + "=free", func(*Interp, *State) AV { return IntV{} }})
	return out
}
