package main

import (
	"fmt"
	"go/ast"
	"go/token"
	"go/types"
	"os"
	"sort"
	"strings"

	"golang.org/x/tools/go/packages"
	"golang.org/x/tools/go/ssa"
	"golang.org/x/tools/go/ssa/ssautil"
)

const orbPath = "github.com/paulmach/orb"

// Program is the resolved view of one source tree: type-checked packages and
// their SSA form.  It is rebuilt from the working tree on every invocation.
type Program struct {
	Dir   string
	Fset  *token.FileSet
	Pkgs  map[string]*packages.Package // by import path
	SSA   map[string]*ssa.Package
	Prog  *ssa.Program
	Order []string // sorted import paths of the module's own packages

	Geometry    *types.Named // orb.Geometry
	GeometryI   *types.Interface
	Kinds       []*types.Named // the implementers of orb.Geometry, sorted by name
	allFuncs    []*ssa.Function
	funcsByName map[string]*ssa.Function
}

func loadEnv() []string {
	env := []string{}
	for _, e := range os.Environ() {
		if strings.HasPrefix(e, "GOWORK=") || strings.HasPrefix(e, "GOFLAGS=") ||
			strings.HasPrefix(e, "GOPROXY=") || strings.HasPrefix(e, "GOSUMDB=") ||
			strings.HasPrefix(e, "GOTOOLCHAIN=") {
			continue
		}
		env = append(env, e)
	}
	return append(env, "GOFLAGS=-mod=mod", "GOPROXY=off", "GOSUMDB=off", "GOTOOLCHAIN=local", "GOWORK=off")
}

// Load type-checks every package of the module rooted at dir and builds SSA
// with function bodies for them (dependencies are type information only).
func Load(dir string, minPkgs int) (*Program, error) {
	fset := token.NewFileSet()
	cfg := &packages.Config{
		Mode: packages.NeedName | packages.NeedFiles | packages.NeedCompiledGoFiles |
			packages.NeedImports | packages.NeedDeps | packages.NeedTypes |
			packages.NeedSyntax | packages.NeedTypesInfo | packages.NeedTypesSizes | packages.NeedModule,
		Dir:   dir,
		Fset:  fset,
		Env:   loadEnv(),
		Tests: false,
	}
	initial, err := packages.Load(cfg, "./...")
	if err != nil {
		return nil, fmt.Errorf("load %s: %v", dir, err)
	}
	var errs []string
	packages.Visit(initial, nil, func(p *packages.Package) {
		for _, e := range p.Errors {
			errs = append(errs, e.Error())
		}
	})
	if len(errs) > 0 {
		return nil, fmt.Errorf("type/load errors in %s: %s", dir, strings.Join(errs, "; "))
	}
	if len(initial) < minPkgs {
		return nil, fmt.Errorf("loaded %d packages from %s, need at least %d", len(initial), dir, minPkgs)
	}
	prog, spkgs := ssautil.Packages(initial, ssa.InstantiateGenerics)
	p := &Program{Dir: dir, Fset: fset, Prog: prog,
		Pkgs: map[string]*packages.Package{}, SSA: map[string]*ssa.Package{},
		funcsByName: map[string]*ssa.Function{}}
	for i, ip := range initial {
		if spkgs[i] == nil {
			return nil, fmt.Errorf("no SSA for %s", ip.PkgPath)
		}
		p.Pkgs[ip.PkgPath] = ip
		p.SSA[ip.PkgPath] = spkgs[i]
		p.Order = append(p.Order, ip.PkgPath)
	}
	sort.Strings(p.Order)
	prog.Build()

	root := p.Pkgs[orbPath]
	if root == nil {
		return nil, fmt.Errorf("package %s not found under %s", orbPath, dir)
	}
	obj := root.Types.Scope().Lookup("Geometry")
	if obj == nil {
		return nil, fmt.Errorf("orb.Geometry not found")
	}
	named, ok := obj.Type().(*types.Named)
	if !ok {
		return nil, fmt.Errorf("orb.Geometry is not a named type")
	}
	iface, ok := named.Underlying().(*types.Interface)
	if !ok {
		return nil, fmt.Errorf("orb.Geometry is not an interface")
	}
	p.Geometry, p.GeometryI = named, iface
	for _, path := range p.Order {
		sc := p.Pkgs[path].Types.Scope()
		for _, n := range sc.Names() {
			tn, ok := sc.Lookup(n).(*types.TypeName)
			if !ok || tn.IsAlias() {
				continue
			}
			nt, ok := tn.Type().(*types.Named)
			if !ok || types.IsInterface(nt) {
				continue
			}
			if types.Implements(nt, iface) {
				p.Kinds = append(p.Kinds, nt)
			}
		}
	}
	sort.Slice(p.Kinds, func(i, j int) bool { return p.Kinds[i].Obj().Name() < p.Kinds[j].Obj().Name() })

	for fn := range ssautil.AllFunctions(prog) {
		if fn.Pkg == nil || p.SSA[fn.Pkg.Pkg.Path()] == nil {
			continue
		}
		if fn.Synthetic != "" && fn.Parent() == nil {
			continue // wrappers, bound-method thunks
		}
		p.allFuncs = append(p.allFuncs, fn)
	}
	sort.Slice(p.allFuncs, func(i, j int) bool { return FuncKey(p.allFuncs[i]) < FuncKey(p.allFuncs[j]) })
	for _, fn := range p.allFuncs {
		p.funcsByName[FuncKey(fn)] = fn
	}
	return p, nil
}

// FuncKey is the stable, position-free name of a function:
// "pkg/path.Func", "pkg/path.(Recv).Method" or "pkg/path.Func$1" for closures.
func FuncKey(fn *ssa.Function) string {
	if fn == nil {
		return "<nil>"
	}
	if fn.Parent() != nil {
		return FuncKey(fn.Parent()) + "$" + strings.TrimPrefix(fn.Name(), fn.Parent().Name()+"$")
	}
	pkg := ""
	if fn.Pkg != nil {
		pkg = fn.Pkg.Pkg.Path()
	} else if fn.Object() != nil && fn.Object().Pkg() != nil {
		pkg = fn.Object().Pkg().Path()
	}
	if recv := fn.Signature.Recv(); recv != nil {
		t := recv.Type()
		ptr := ""
		if pt, ok := t.(*types.Pointer); ok {
			t = pt.Elem()
			ptr = "*"
		}
		name := t.String()
		if nt, ok := t.(*types.Named); ok {
			name = nt.Obj().Name()
		}
		return fmt.Sprintf("%s.(%s%s).%s", pkg, ptr, name, fn.Name())
	}
	return pkg + "." + fn.Name()
}

// ShortKey strips the module prefix for display.
func ShortKey(k string) string {
	if strings.HasPrefix(k, orbPath+"/") {
		return strings.TrimPrefix(k, orbPath+"/")
	}
	if strings.HasPrefix(k, orbPath+".") {
		return "orb." + strings.TrimPrefix(k, orbPath+".")
	}
	return k
}

// Funcs returns every source function (incl. closures) of the module's own packages.
func (p *Program) Funcs() []*ssa.Function { return p.allFuncs }

// Func looks a function up by FuncKey; nil if absent.
func (p *Program) Func(key string) *ssa.Function { return p.funcsByName[key] }

// FuncsIn returns the functions of one package (by import path).
func (p *Program) FuncsIn(path string) []*ssa.Function {
	var out []*ssa.Function
	for _, fn := range p.allFuncs {
		if fn.Pkg != nil && fn.Pkg.Pkg.Path() == path {
			out = append(out, fn)
		}
	}
	return out
}

func (p *Program) Pos(pos token.Pos) string {
	if !pos.IsValid() {
		return "-"
	}
	ps := p.Fset.Position(pos)
	f := strings.TrimPrefix(ps.Filename, p.Dir+"/")
	return fmt.Sprintf("%s:%d:%d", f, ps.Line, ps.Column)
}

// InstrPos finds the best available source position for an instruction.
func (p *Program) InstrPos(in ssa.Instruction) string {
	if in == nil {
		return "-"
	}
	if pos := in.Pos(); pos.IsValid() {
		return p.Pos(pos)
	}
	if v, ok := in.(ssa.Value); ok {
		for _, r := range *v.Referrers() {
			if r.Pos().IsValid() {
				return p.Pos(r.Pos())
			}
		}
	}
	// fall back to any positioned instruction in the same block
	if b := in.Block(); b != nil {
		for _, o := range b.Instrs {
			if o.Pos().IsValid() {
				return p.Pos(o.Pos()) + "(block)"
			}
		}
	}
	if fn := in.Parent(); fn != nil {
		return p.Pos(fn.Pos()) + "(func)"
	}
	return "-"
}

// IsGeometry reports whether t is exactly orb.Geometry.
func (p *Program) IsGeometry(t types.Type) bool {
	return types.Identical(t, p.Geometry)
}

// KindOf returns the name of the orb geometry kind t is (Point, Ring, ...), or "".
func (p *Program) KindOf(t types.Type) string {
	for _, k := range p.Kinds {
		if types.Identical(t, k) {
			return k.Obj().Name()
		}
	}
	return ""
}

func (p *Program) Kind(name string) *types.Named {
	for _, k := range p.Kinds {
		if k.Obj().Name() == name {
			return k
		}
	}
	return nil
}

// FileOf returns the *ast.File containing pos in the module's packages.
func (p *Program) FileOf(pos token.Pos) (*packages.Package, *ast.File) {
	for _, path := range p.Order {
		pk := p.Pkgs[path]
		for _, f := range pk.Syntax {
			if f.Pos() <= pos && pos <= f.End() {
				return pk, f
			}
		}
	}
	return nil, nil
}

// ExportedGeometryFuncs enumerates exported package-level functions and
// exported methods on exported types that have a parameter of type orb.Geometry.
func (p *Program) ExportedGeometryFuncs() []*ssa.Function {
	var out []*ssa.Function
	for _, fn := range p.allFuncs {
		if fn.Parent() != nil || fn.Object() == nil || !fn.Object().Exported() {
			continue
		}
		if strings.Contains(fn.Pkg.Pkg.Path(), "/internal/") && false {
			continue
		}
		if recv := fn.Signature.Recv(); recv != nil {
			t := recv.Type()
			if pt, ok := t.(*types.Pointer); ok {
				t = pt.Elem()
			}
			if nt, ok := t.(*types.Named); ok && !nt.Obj().Exported() {
				continue
			}
		}
		sig := fn.Signature
		has := false
		for i := 0; i < sig.Params().Len(); i++ {
			if p.IsGeometry(sig.Params().At(i).Type()) {
				has = true
			}
		}
		if has {
			out = append(out, fn)
		}
	}
	return out
}
