package main

import (
	"fmt"
	"go/ast"
	"go/token"
	"go/types"
	"sort"
	"strings"

	"golang.org/x/tools/go/packages"
)

// T5c: the JSON and the BSON value marshaller of geojson.Geometry decide "this is the null geometry" under
// the same condition.  The two methods are siblings (the BSON one exists "to match behavior with the JSON
// marshalling"); a geometry that is null in one encoding and a document in the other does not round-trip
// alike through both.
//
// The guard is read from the syntax tree: the if statement whose body returns the null marker ([]byte("null"),
// bsontype.Null); its condition must be a conjunction of tests "F == nil" / "len(F) == 0" on fields of the
// receiver.  The two sets of (field, test) pairs must be equal.  A guard in another form is not compared
// (unconfirmed), never reported.
func ruleNullGuardSiblings(c *Ctx) {
	p := c.P
	c.R.Rule("T5c: geojson.(*Geometry).MarshalJSON and MarshalBSONValue return their null marker under the same condition on the receiver's fields (sibling agreement)")
	pk := p.Pkgs[orbPath+"/geojson"]
	if pk == nil {
		c.R.Unknown("T5c-null-guard", "geojson", "", "package not found")
		return
	}
	type guard struct {
		atoms []string
		pos   string
		ok    bool
		found bool
	}
	guards := map[string]*guard{}
	isNullMarker := func(pkg *packages.Package, e ast.Expr) bool {
		switch x := ast.Unparen(e).(type) {
		case *ast.CallExpr: // []byte("null") / []byte(`null`)
			if len(x.Args) == 1 {
				if tv, ok := pkg.TypesInfo.Types[x.Args[0]]; ok && tv.Value != nil && strings.Trim(tv.Value.ExactString(), "\"`") == "null" {
					return true
				}
			}
		case *ast.SelectorExpr:
			if x.Sel.Name == "Null" {
				if obj, ok := pkg.TypesInfo.Uses[x.Sel].(*types.Const); ok && obj.Pkg() != nil && strings.HasSuffix(obj.Pkg().Path(), "bsontype") {
					return true
				}
			}
		}
		return false
	}
	var flatten func(e ast.Expr, out *[]ast.Expr)
	flatten = func(e ast.Expr, out *[]ast.Expr) {
		if b, ok := ast.Unparen(e).(*ast.BinaryExpr); ok && b.Op == token.LAND {
			flatten(b.X, out)
			flatten(b.Y, out)
			return
		}
		*out = append(*out, ast.Unparen(e))
	}
	atomOfExpr := func(pkg *packages.Package, recv string, e ast.Expr) (string, bool) {
		b, ok := e.(*ast.BinaryExpr)
		if !ok {
			return "", false
		}
		x, y, op := ast.Unparen(b.X), ast.Unparen(b.Y), b.Op
		isNil := func(e ast.Expr) bool { id, ok := e.(*ast.Ident); return ok && id.Name == "nil" }
		isInt := func(e ast.Expr, v string) bool {
			tv, ok := pkg.TypesInfo.Types[e]
			return ok && tv.Value != nil && tv.Value.ExactString() == v
		}
		field := func(e ast.Expr) (string, bool) {
			sel, ok := e.(*ast.SelectorExpr)
			if !ok {
				return "", false
			}
			id, ok := sel.X.(*ast.Ident)
			if !ok || id.Name != recv {
				return "", false
			}
			return sel.Sel.Name, true
		}
		lenOf := func(e ast.Expr) (string, bool) {
			call, ok := e.(*ast.CallExpr)
			if !ok || len(call.Args) != 1 {
				return "", false
			}
			if id, ok := call.Fun.(*ast.Ident); !ok || id.Name != "len" {
				return "", false
			}
			return field(ast.Unparen(call.Args[0]))
		}
		if isNil(x) || isInt(x, "0") || isInt(x, "1") {
			x, y = y, x
			op = map[token.Token]token.Token{token.EQL: token.EQL, token.LSS: token.GTR, token.GTR: token.LSS, token.LEQ: token.GEQ, token.GEQ: token.LEQ, token.NEQ: token.NEQ}[op]
		}
		if f, ok := field(x); ok && isNil(y) && op == token.EQL {
			return f + " is nil", true
		}
		if f, ok := lenOf(x); ok && (op == token.EQL && isInt(y, "0") || op == token.LSS && isInt(y, "1") || op == token.LEQ && isInt(y, "0")) {
			return f + " is empty", true
		}
		return "", false
	}
	p.eachFuncDecl(func(pkg *packages.Package, fd *ast.FuncDecl) {
		if pkg != pk || fd.Recv == nil || fd.Body == nil || (fd.Name.Name != "MarshalJSON" && fd.Name.Name != "MarshalBSONValue") {
			return
		}
		if len(fd.Recv.List) != 1 || types.ExprString(fd.Recv.List[0].Type) != "*Geometry" || len(fd.Recv.List[0].Names) != 1 {
			return
		}
		recv := fd.Recv.List[0].Names[0].Name
		g := &guard{}
		guards[fd.Name.Name] = g
		ast.Inspect(fd.Body, func(n ast.Node) bool {
			ifs, ok := n.(*ast.IfStmt)
			if !ok || g.found {
				return true
			}
			returnsNull := false
			for _, st := range ifs.Body.List {
				if rs, ok := st.(*ast.ReturnStmt); ok && len(rs.Results) > 0 && isNullMarker(pkg, rs.Results[0]) {
					returnsNull = true
				}
			}
			if !returnsNull {
				return true
			}
			g.found, g.ok, g.pos = true, true, p.Pos(ifs.Pos())
			var parts []ast.Expr
			flatten(ifs.Cond, &parts)
			for _, e := range parts {
				a, ok := atomOfExpr(pkg, recv, e)
				if !ok {
					g.ok = false
					return false
				}
				g.atoms = append(g.atoms, a)
			}
			sort.Strings(g.atoms)
			return false
		})
	})
	j, b := guards["MarshalJSON"], guards["MarshalBSONValue"]
	cons := "geojson.(*Geometry).MarshalJSON~MarshalBSONValue"
	switch {
	case j == nil || b == nil:
		c.R.Unknown("T5c-null-guard", cons, "", "one of the two marshallers is not found")
	case !j.found && !b.found:
		c.R.Add("T5c-null-guard", cons, Unconfirmed, "", "neither marshaller returns a null marker under an if statement: nothing to compare")
	case j.found != b.found:
		which, pos := "MarshalJSON", j.pos
		if b.found {
			which, pos = "MarshalBSONValue", b.pos
		}
		c.R.Bad("T5c-null-guard", cons, pos, "only "+which+" turns a geometry into the null value: the other encoding writes a document for the same geometry")
	case !j.ok || !b.ok:
		c.R.Add("T5c-null-guard", cons, Unconfirmed, j.pos, "a null guard is not a conjunction of nil / empty tests on the receiver's fields: not compared")
	case strings.Join(j.atoms, ", ") != strings.Join(b.atoms, ", "):
		c.R.Bad("T5c-null-guard", cons, b.pos, fmt.Sprintf("MarshalJSON writes null when {%s}, MarshalBSONValue when {%s}: a geometry in the difference is null in one encoding and a document in the other", strings.Join(j.atoms, ", "), strings.Join(b.atoms, ", ")))
	default:
		c.R.OK("T5c-null-guard", cons, j.pos, "both write the null value exactly when {"+strings.Join(j.atoms, ", ")+"}")
	}
}

// T14: tilecover.MergeUp is MergeUpPartial with count = 4 (a parent replaces its children when all four / at
// least count of them are in the set).  The tests either makes on the size of the working set must be the
// same with 4 read as count: an early exit that fires at a different size in one of them makes the two
// disagree for count = 4.  Read from the syntax tree; a size test in a form not recognised is not compared.
func ruleMergeSiblings(c *Ctx) {
	p := c.P
	c.R.Rule("T14: tilecover.MergeUp and MergeUpPartial test len(set) against 4 / count with the same operators (sibling agreement)")
	pk := p.Pkgs[orbPath+"/maptile/tilecover"]
	if pk == nil {
		c.R.Unknown("T14-merge-siblings", "tilecover", "", "package not found")
		return
	}
	type sizeTests struct {
		tests []string
		pos   string
		odd   bool
	}
	found := map[string]*sizeTests{}
	p.eachFuncDecl(func(pkg *packages.Package, fd *ast.FuncDecl) {
		if pkg != pk || fd.Recv != nil || fd.Body == nil || (fd.Name.Name != "MergeUp" && fd.Name.Name != "MergeUpPartial") {
			return
		}
		st := &sizeTests{pos: p.Pos(fd.Pos())}
		found[fd.Name.Name] = st
		countParam := ""
		if fd.Name.Name == "MergeUpPartial" {
			for _, f := range fd.Type.Params.List {
				if b, ok := pkg.TypesInfo.TypeOf(f.Type).Underlying().(*types.Basic); ok && b.Kind() == types.Int {
					for _, n := range f.Names {
						countParam = n.Name
					}
				}
			}
		}
		isLen := func(e ast.Expr) bool {
			call, ok := ast.Unparen(e).(*ast.CallExpr)
			if !ok || len(call.Args) != 1 {
				return false
			}
			id, ok := call.Fun.(*ast.Ident)
			if !ok || id.Name != "len" {
				return false
			}
			_, isMap := pkg.TypesInfo.TypeOf(call.Args[0]).Underlying().(*types.Map)
			return isMap
		}
		ast.Inspect(fd.Body, func(n ast.Node) bool {
			b, ok := n.(*ast.BinaryExpr)
			if !ok {
				return true
			}
			x, y, op := ast.Unparen(b.X), ast.Unparen(b.Y), b.Op
			flip := map[token.Token]token.Token{token.EQL: token.EQL, token.NEQ: token.NEQ, token.LSS: token.GTR, token.GTR: token.LSS, token.LEQ: token.GEQ, token.GEQ: token.LEQ}
			if _, cmp := flip[op]; !cmp {
				return true
			}
			if isLen(y) && !isLen(x) {
				x, y, op = y, x, flip[op]
			}
			if !isLen(x) {
				return true
			}
			// the other side: the constant 4 (or 3 / 5 with the operator adjusted) or the count parameter
			k := int64(-1)
			if tv, ok := pkg.TypesInfo.Types[y]; ok && tv.Value != nil {
				if v, ok := constInt(pkg, y); ok {
					k = v
				}
			}
			switch {
			case k >= 0 && fd.Name.Name == "MergeUp":
				// len < 4 == len <= 3; len >= 4 == len > 3
				switch {
				case op == token.LEQ:
					op, k = token.LSS, k+1
				case op == token.GTR:
					op, k = token.GEQ, k+1
				}
				if k == 4 {
					st.tests = append(st.tests, "len(set) "+op.String()+" K")
				} else {
					st.tests = append(st.tests, fmt.Sprintf("len(set) %s K%+d", op, k-4))
				}
			case countParam != "" && types.ExprString(y) == countParam:
				st.tests = append(st.tests, "len(set) "+op.String()+" K")
			default:
				st.odd = true
			}
			return true
		})
		sort.Strings(st.tests)
	})
	a, b := found["MergeUp"], found["MergeUpPartial"]
	cons := "maptile/tilecover.MergeUp~MergeUpPartial"
	switch {
	case a == nil || b == nil:
		c.R.Unknown("T14-merge-siblings", cons, "", "one of the two functions is not found")
	case a.odd || b.odd || len(a.tests) == 0 && len(b.tests) == 0:
		c.R.Add("T14-merge-siblings", cons, Unconfirmed, a.pos, "the size tests are not in a recognised form (len(set) against 4 / against the count parameter): not compared")
	case strings.Join(a.tests, "; ") != strings.Join(b.tests, "; "):
		c.R.Bad("T14-merge-siblings", cons, a.pos, fmt.Sprintf("with K = 4 / count: MergeUp tests {%s}, MergeUpPartial tests {%s}: the two disagree for count = 4", strings.Join(a.tests, "; "), strings.Join(b.tests, "; ")))
	default:
		c.R.OK("T14-merge-siblings", cons, a.pos, "both test {"+strings.Join(a.tests, "; ")+"} with K = 4 / count")
	}
}
