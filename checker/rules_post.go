package main

// A-post — shape-decided postconditions.  Where a property states what a
// degenerate call returns and the path is decided by the hypothesis (plus free
// inputs), the abstract result of every finished path is compared with the
// stated one.  An undecided (opaque) path is not judged.

import (
	"fmt"
	"strings"
)

func trailFree(s *State) bool {
	for _, t := range s.trail {
		if t.Opq || t.Der {
			return false
		}
	}
	return true
}

func trailNoOpaque(s *State) bool {
	for _, t := range s.trail {
		if t.Opq {
			return false
		}
	}
	return true
}

func isNilResult(v AV) (bool, bool) {
	return nilness(v)
}

type postExpect struct {
	when         func(entry, label string) bool
	desc         string
	ok           func(res []AV) (bool, bool)         // (holds, decided)
	whenHyp      func(entry string, h *GeomHyp) bool // alternative selector on the geometry hypothesis
	allowDerived bool                                // judge paths that branch on computed floats too (the expectation is about shape, not about values)
}

func rulePost(name string, exps []postExpect) func(c *Ctx, run *shapeRun, hyps []*GeomHyp, labels []string) {
	return func(c *Ctx, run *shapeRun, hyps []*GeomHyp, labels []string) {
		ekey := ShortKey(FuncKey(run.entry))
		for _, ex := range exps {
			if ex.whenHyp != nil {
				var h *GeomHyp
				if len(hyps) > 0 {
					h = hyps[0]
				}
				if !ex.whenHyp(ekey, h) {
					continue
				}
			} else if !ex.when(ekey, run.label) {
				continue
			}
			cons := fmt.Sprintf("%s(%s)", ekey, run.label)
			if len(run.finished) == 0 {
				if len(run.faults) == 0 {
					c.R.Add("A-post", cons, Unconfirmed, "", "no path finished within the budget; postcondition not judged: "+ex.desc)
				}
				continue
			}
			bad := ""
			judged := 0
			for _, st := range run.finished {
				if !trailFree(st) && !(ex.allowDerived && trailNoOpaque(st)) {
					continue
				}
				holds, decided := ex.ok(st.result)
				if !decided {
					continue
				}
				judged++
				if !holds {
					var rs []string
					for _, r := range st.result {
						rs = append(rs, avString(r))
					}
					bad = "returns " + strings.Join(rs, ", ")
					if len(st.trail) > 0 {
						bad += " on the path where " + st.trail[len(st.trail)-1].Desc
					}
				}
			}
			switch {
			case bad != "":
				c.R.Bad("A-post", cons, c.P.Pos(run.entry.Pos()), "expected: "+ex.desc+"; "+bad)
			case judged > 0:
				c.R.OK("A-post", cons, c.P.Pos(run.entry.Pos()), fmt.Sprintf("%s (%d paths judged)", ex.desc, judged))
			default:
				c.R.Add("A-post", cons, Unconfirmed, "", "result not decided by the abstract state: "+ex.desc)
			}
		}
	}
}

func resultNil(i int) func(res []AV) (bool, bool) {
	return func(res []AV) (bool, bool) {
		if i >= len(res) {
			return false, false
		}
		return isNilResult(res[i])
	}
}

func resultBool(i int, want bool) func(res []AV) (bool, bool) {
	return func(res []AV) (bool, bool) {
		if i >= len(res) {
			return false, false
		}
		b, ok := res[i].(BoolV)
		if !ok || b.T == b.F {
			return false, false
		}
		return b.T == want, true
	}
}

func pe(when func(e, l string) bool, desc string, ok func(res []AV) (bool, bool)) postExpect {
	return postExpect{when: when, desc: desc, ok: ok}
}

func sliceLenAtMost(n int) func(res []AV) (bool, bool) {
	return func(res []AV) (bool, bool) {
		if len(res) == 0 {
			return false, false
		}
		ln, ok := (&Interp{}).sliceLen(res[0])
		return ok && ln <= n, ok
	}
}

var quadtreePost = []postExpect{
	pe(func(e, l string) bool {
		return strings.Contains(l, "tree=never-populated") && (strings.HasSuffix(e, ".Find") || strings.HasSuffix(e, ".Matching") ||
			strings.Contains(e, ".KNearest") || strings.Contains(e, ".InBound"))
	}, "a query on a tree that never had a point returns nil", resultNil(0)),
	pe(func(e, l string) bool {
		return strings.Contains(l, "tree=never-populated") && strings.HasSuffix(e, ".Remove")
	},
		"Remove on a tree that never had a point reports false", resultBool(0, false)),
	pe(func(e, l string) bool { return strings.Contains(l, "k=0") && strings.Contains(e, ".KNearest") },
		"k-nearest with k = 0 returns no pointers", sliceLenAtMost(0)),
}

var resamplePost = []postExpect{
	pe(func(e, l string) bool {
		return strings.HasSuffix(e, "resample.ToInterval") && (strings.Contains(l, "dist=-1") || strings.Contains(l, "dist=0"))
	}, "a non-positive interval returns nothing (nil)", resultNil(0)),
	pe(func(e, l string) bool {
		return strings.HasSuffix(e, "resample.Resample") && (strings.Contains(l, "totalPoints=-1") || strings.Contains(l, "totalPoints=0,") || strings.HasSuffix(l, "totalPoints=0"))
	}, "a non-positive point count returns nothing (nil)", resultNil(0)),
	pe(func(e, l string) bool {
		return strings.HasSuffix(e, "resample.Resample") && (strings.Contains(l, "totalPoints=1") || strings.Contains(l, "totalPoints=2") || strings.Contains(l, "totalPoints=3")) &&
			(strings.Contains(l, "LineString(nil)") || strings.Contains(l, "LineString[]") || strings.Contains(l, "LineString[1pt]"))
	}, "a line with fewer than two vertices is returned as it is", sliceLenAtMost(1)),
}

// typedNilPost (H4): a generic function whose callers test the result against
// nil must never return a non-nil interface that holds a nil slice.
func typedNilPost(entrySuffixes ...string) []postExpect {
	return []postExpect{{
		when: func(e, l string) bool {
			for _, s := range entrySuffixes {
				if strings.HasSuffix(e, s) {
					return true
				}
			}
			return false
		},
		allowDerived: true,
		desc:         "the result is a nil interface or holds a non-nil value (never a typed nil inside a non-nil interface)",
		ok: func(res []AV) (bool, bool) {
			if len(res) == 0 {
				return false, false
			}
			iv, ok := res[0].(IfaceV)
			if !ok || iv.Top {
				return false, false
			}
			if iv.Nil {
				return true, true
			}
			if sl, ok := iv.Val.(SliceV); ok && sl.Nil {
				return false, true
			}
			return true, true
		},
	}}
}

// emptyInNilOut: an empty or nil geometry yields a nil interface.
func emptyInNilOut(entrySuffix string) postExpect {
	return postExpect{
		whenHyp: func(e string, h *GeomHyp) bool {
			return strings.HasSuffix(e, entrySuffix) && hypEmpty(h)
		},
		desc: "nothing in, nil out: a nil or empty geometry yields a nil interface",
		ok:   resultNil(0),
	}
}

// hypEmpty: the hypothesis has no vertex at all (nil interface, typed nil,
// empty slices at every level).
func hypEmpty(h *GeomHyp) bool {
	if h == nil || h.Kind == "" {
		return true
	}
	switch h.Kind {
	case "Point", "Bound":
		return false
	case "MultiPoint", "LineString", "Ring":
		return h.Nil || h.N == 0
	}
	if h.Nil {
		return true
	}
	for _, e := range h.Elems {
		if !hypEmpty(e) {
			return false
		}
	}
	return true
}

// decodedNonNil: a WKB decoder that reports success never returns a typed-nil
// slice geometry (the encoder writes nothing for a typed nil, so a nil result
// would not survive re-encoding: "re-encode and decode again is stable").
var decodedNonNil = []postExpect{{
	when: func(e, l string) bool {
		return strings.Contains(e, "wkbcommon.read") || strings.Contains(e, "wkbcommon.unmarshal")
	},
	desc: "a successful decode returns a non-nil (possibly empty) geometry, never a typed nil",
	ok: func(res []AV) (bool, bool) {
		if len(res) < 2 {
			return false, false
		}
		errv, ok := res[len(res)-1].(IfaceV)
		if !ok || !errv.Nil {
			return true, false // error (or unknown) path: not judged
		}
		if sl, ok := res[0].(SliceV); ok {
			return !sl.Nil, !sl.MayNil
		}
		return true, false
	},
}}
