package main

// G2 — stale decoder state.  A scanner object is reused across rows: every
// exported result field of the scanner must be definitely assigned (on every
// path from the entry of Scan) by the time the row's validity is published
// (the store of the non-constant Valid flag).  A field assigned only under a
// condition keeps the previous row's value.
//
// T1g — GeomLength is a capacity hint: its result may only size an allocation;
// if it gates output the kinds it does not name (Ring, Bound) change behaviour.

import (
	"fmt"
	"go/types"
	"sort"
	"strings"

	"golang.org/x/tools/go/ssa"
)

func ruleScannerState(c *Ctx) {
	p := c.P
	c.R.Rule("G2: in every GeometryScanner.Scan, each exported field of the scanner is definitely assigned on every path from entry to the store that publishes the row's validity (must-assign dataflow over the SSA CFG)")
	n := 0
	for _, key := range []string{"encoding/wkb.(*GeometryScanner).Scan", "encoding/ewkb.(*GeometryScanner).Scan"} {
		fn := p.funcByShortKey(key)
		if fn == nil {
			c.R.Unknown("G2-scanner-state", key, "", "Scan method not found")
			continue
		}
		recv := fn.Params[0]
		st, ok := recv.Type().Underlying().(*types.Pointer).Elem().Underlying().(*types.Struct)
		if !ok {
			continue
		}
		var fields []string
		for i := 0; i < st.NumFields(); i++ {
			if st.Field(i).Exported() {
				fields = append(fields, st.Field(i).Name())
			}
		}
		fieldOf := func(in ssa.Instruction) (string, ssa.Value) {
			s, ok := in.(*ssa.Store)
			if !ok {
				return "", nil
			}
			fa, ok := s.Addr.(*ssa.FieldAddr)
			if !ok || fa.X != recv {
				return "", nil
			}
			return st.Field(fa.Field).Name(), s.Val
		}
		// must-assign: forward, intersection
		all := map[string]bool{}
		for _, f := range fields {
			all[f] = true
		}
		in := make([]map[string]bool, len(fn.Blocks))
		out := make([]map[string]bool, len(fn.Blocks))
		copyset := func(m map[string]bool) map[string]bool {
			n := map[string]bool{}
			for k := range m {
				n[k] = true
			}
			return n
		}
		for i := range fn.Blocks {
			in[i], out[i] = copyset(all), copyset(all)
		}
		in[0] = map[string]bool{}
		for changed := true; changed; {
			changed = false
			for _, b := range fn.Blocks {
				cur := copyset(all)
				if b.Index == 0 {
					cur = map[string]bool{}
				}
				for _, pb := range b.Preds {
					for k := range cur {
						if !out[pb.Index][k] {
							delete(cur, k)
						}
					}
				}
				in[b.Index] = cur
				o := copyset(cur)
				for _, ins := range b.Instrs {
					if f, _ := fieldOf(ins); f != "" {
						o[f] = true
					}
				}
				if len(o) != len(out[b.Index]) {
					changed = true
				}
				out[b.Index] = o
			}
		}
		// publication point: the store of the non-constant Valid flag; every return that follows it
		// (dominated by it) must find every exported field definitely assigned
		var pub ssa.Instruction
		for _, b := range fn.Blocks {
			for _, ins := range b.Instrs {
				if f, val := fieldOf(ins); f == "Valid" {
					if _, isConst := val.(*ssa.Const); !isConst {
						pub = ins
					}
				}
			}
		}
		found := pub != nil
		if found {
			n++
			bad := ""
			nret := 0
			for _, b := range fn.Blocks {
				ret, ok := b.Instrs[len(b.Instrs)-1].(*ssa.Return)
				if !ok || !(pub.Block().Dominates(b)) {
					continue
				}
				nret++
				assigned := copyset(out[b.Index])
				var missing []string
				for _, fld := range fields {
					if !assigned[fld] {
						missing = append(missing, fld)
					}
				}
				sort.Strings(missing)
				if len(missing) > 0 {
					bad = fmt.Sprintf("on the return at %s, reached after the row is published as valid, %s is not assigned on every path: a reused scanner reports the previous row's value", p.InstrPos(ret), strings.Join(missing, ", "))
				}
			}
			if bad != "" {
				c.R.Bad("G2-scanner-state", key, p.InstrPos(pub), bad)
			} else if nret == 0 {
				c.R.Unknown("G2-scanner-state", key, p.InstrPos(pub), "no return follows the publication of Valid")
			} else {
				c.R.OK("G2-scanner-state", key, p.InstrPos(pub), "every exported field ("+strings.Join(fields, ", ")+") is assigned on all paths to the "+fmt.Sprint(nret)+" return(s) after the row is published")
			}
		}
		if !found {
			c.R.Unknown("G2-scanner-state", key, p.Pos(fn.Pos()), "the store publishing Valid was not found")
		}
	}
	c.R.Floor("G2-scanner-state", n, 2)

	// T1g
	c.R.Rule("T1g: the result of wkbcommon.GeomLength only sizes allocations (it names no Ring/Bound and returns 0 for them, which is harmless only as a capacity hint)")
	gl := p.funcByShortKey("encoding/internal/wkbcommon.GeomLength")
	if gl == nil {
		c.R.Unknown("T1g-geomlength-use", "wkbcommon.GeomLength", "", "not found")
		return
	}
	// kinds GeomLength has an arm for: for those the result is the exact size
	armKinds := map[string]bool{}
	for _, b := range gl.Blocks {
		for _, in := range b.Instrs {
			if ta, ok := in.(*ssa.TypeAssert); ok {
				if k := p.KindOf(ta.AssertedType); k != "" {
					armKinds[k] = true
				}
			}
		}
	}
	uses := 0
	for _, fn := range p.Funcs() {
		if fn == gl {
			continue
		}
		ord := 0
		for _, b := range fn.Blocks {
			for _, in := range b.Instrs {
				call, ok := in.(*ssa.Call)
				if !ok || call.Call.StaticCallee() != gl {
					continue
				}
				uses++
				cons := fmt.Sprintf("%s#GeomLength#%d", ShortKey(FuncKey(fn)), ord)
				ord++
				if mi, ok := call.Call.Args[0].(*ssa.MakeInterface); ok {
					if k := p.KindOf(mi.X.Type()); k != "" && armKinds[k] {
						c.R.OK("T1g-geomlength-use", cons, p.InstrPos(call), "argument is statically a "+k+", which GeomLength sizes exactly")
						continue
					}
				}
				bad := ""
				seen := map[ssa.Value]bool{}
				var walk func(v ssa.Value)
				walk = func(v ssa.Value) {
					if seen[v] {
						return
					}
					seen[v] = true
					for _, r := range *v.Referrers() {
						switch x := r.(type) {
						case *ssa.MakeSlice:
							// sizing an allocation: fine
						case *ssa.BinOp:
							switch x.Op.String() {
							case "+", "-", "*":
								walk(x)
							default:
								bad = fmt.Sprintf("compared at %s", p.InstrPos(x))
							}
						case *ssa.Convert:
							walk(x)
						case *ssa.Phi:
							walk(x)
						case *ssa.Call:
							// passed on (bytes.Buffer.Grow, make wrapper): only allocation helpers expected
							name := calleeName(x)
							if !strings.Contains(name, "Grow") && !strings.Contains(name, "GeomLength") {
								bad = fmt.Sprintf("passed to %s at %s", name, p.InstrPos(x))
							}
						case *ssa.Return:
							if fn != gl {
								bad = fmt.Sprintf("returned at %s", p.InstrPos(x))
							}
						case *ssa.If:
							bad = fmt.Sprintf("branched on at %s", p.InstrPos(x))
						case *ssa.DebugRef:
						default:
							bad = fmt.Sprintf("used by %T at %s", r, p.InstrPos(r))
						}
					}
				}
				walk(call)
				if bad != "" {
					c.R.Bad("T1g-geomlength-use", cons, p.InstrPos(call), "the length estimate decides behaviour ("+bad+"); it is 0 for Ring and Bound, which must still be written as polygons")
				} else {
					c.R.OK("T1g-geomlength-use", cons, p.InstrPos(call), "used only to size an allocation")
				}
			}
		}
	}
	c.R.Floor("T1g-geomlength-use", uses, 3)
}
