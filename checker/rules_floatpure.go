package main

// H1 — float purity: on a lossless codec path coordinates are moved, never
// computed on.  No floating-point arithmetic, comparison or numeric conversion
// may appear; the only float operations allowed are the bit casts
// math.Float64bits / math.Float64frombits and plain loads/stores.  This is the
// structural reason every float64 bit pattern (NaN payloads, -0, subnormals)
// survives.

import (
	"fmt"
	"go/token"
	"go/types"
	"strings"

	"golang.org/x/tools/go/ssa"
)

func isFloat(t types.Type) bool {
	b, ok := t.Underlying().(*types.Basic)
	return ok && b.Info()&types.IsFloat != 0
}

// floatImpure lists the float-computing instructions of fn.
func floatImpure(p *Program, fn *ssa.Function) []string {
	var out []string
	for _, b := range fn.Blocks {
		for _, in := range b.Instrs {
			switch x := in.(type) {
			case *ssa.BinOp:
				if isFloat(x.X.Type()) || isFloat(x.Y.Type()) {
					out = append(out, fmt.Sprintf("float %s at %s", x.Op, p.InstrPos(x)))
				}
			case *ssa.UnOp:
				if x.Op == token.SUB && isFloat(x.X.Type()) {
					out = append(out, fmt.Sprintf("float negation at %s", p.InstrPos(x)))
				}
			case *ssa.Convert:
				if isFloat(x.Type()) != isFloat(x.X.Type()) || (isFloat(x.Type()) && !types.Identical(x.Type().Underlying(), x.X.Type().Underlying())) {
					out = append(out, fmt.Sprintf("numeric conversion %s -> %s at %s", x.X.Type(), x.Type(), p.InstrPos(x)))
				}
			case *ssa.Call:
				callee := x.Call.StaticCallee()
				if callee != nil && callee.Pkg != nil && callee.Pkg.Pkg.Path() == "math" {
					if n := callee.Name(); n != "Float64bits" && n != "Float64frombits" && n != "Float32bits" && n != "Float32frombits" {
						out = append(out, fmt.Sprintf("call math.%s at %s", n, p.InstrPos(x)))
					}
				}
			}
		}
	}
	return out
}

// ruleFloatPure checks the functions selected by keep; exceptions name
// functions that legitimately compute (with a reason).
func ruleFloatPure(keep func(key string) bool, exceptions map[string]string, floor int) ruleFunc {
	return func(c *Ctx) {
		c.R.Rule("H1: functions on the lossless path contain no float arithmetic, comparison or numeric conversion (only Float64bits/Float64frombits bit casts and moves)")
		n, casts := 0, 0
		for _, fn := range c.P.Funcs() {
			key := ShortKey(FuncKey(fn))
			if !keep(key) || len(fn.Blocks) == 0 {
				continue
			}
			n++
			for _, b := range fn.Blocks {
				for _, in := range b.Instrs {
					if call, ok := in.(*ssa.Call); ok {
						if cal := call.Call.StaticCallee(); cal != nil && cal.Pkg != nil && cal.Pkg.Pkg.Path() == "math" && strings.HasPrefix(cal.Name(), "Float64") {
							casts++
						}
					}
				}
			}
			imp := floatImpure(c.P, fn)
			if len(imp) == 0 {
				c.R.OK("H1-float-pure", key, c.P.Pos(fn.Pos()), "no float computation")
				continue
			}
			if why, ok := exceptions[key]; ok {
				c.R.OK("H1-float-pure", key, c.P.Pos(fn.Pos()), "reviewed exception: "+why)
				c.R.Suppressed = append(c.R.Suppressed, "H1 "+key+": "+why)
				continue
			}
			c.R.Bad("H1-float-pure", key, c.P.Pos(fn.Pos()), "coordinates are computed on, not just moved: "+strings.Join(imp, "; "))
		}
		c.R.Floor("H1-float-pure", n, floor)
		c.R.Note("float-bitcasts", fmt.Sprintf("%d Float64bits/Float64frombits call sites in %d functions", casts, n))
	}
}
