package main

// T9 — quadtree cell tables.  Which half-cell a point is filed under (add), which
// child a search starts with (childIndex) and which sub-cell each child index is
// searched with (visit.Visit) are three tables over the same 2-bit child index.
// They are read from the syntax tree and must agree: bit 2 <=> lower half
// (point[1] <= cy), bit 1 <=> right half (point[0] >= cx), with identical
// comparators in add and childIndex, and the sub-cell passed for child k being
// exactly the half-cells its bits name.

import (
	"fmt"
	"go/ast"
	"go/token"
	"go/types"
	"strings"

	"golang.org/x/tools/go/packages"
)

type halfRow struct {
	axis int64
	rel  string // point REL mid
	bit  int64  // bit of the child index set when the relation holds
	sets string // in add: the edge variable replaced by the midline when the relation holds
	els  string // ... and when it does not
}

// midAxis: is the identifier a midline, and of which axis?  Either a parameter
// compared with point[a] (childIndex) or a variable defined as (lo+hi)/2.
func extractHalfRows(pkg *packages.Package, fd *ast.FuncDecl) []halfRow {
	var rows []halfRow
	ast.Inspect(fd.Body, func(n ast.Node) bool {
		ifs, ok := n.(*ast.IfStmt)
		if !ok {
			return true
		}
		be, ok := ast.Unparen(ifs.Cond).(*ast.BinaryExpr)
		if !ok {
			return true
		}
		if _, isCmp := flipRel[be.Op]; !isCmp {
			return true
		}
		var pointSide, midSide ast.Expr
		op := be.Op
		if ie, ok := ast.Unparen(be.X).(*ast.IndexExpr); ok && strings.HasSuffix(fmt.Sprint(pkg.TypesInfo.TypeOf(ie.X)), "orb.Point") {
			pointSide, midSide = be.X, be.Y
		} else if ie, ok := ast.Unparen(be.Y).(*ast.IndexExpr); ok && strings.HasSuffix(fmt.Sprint(pkg.TypesInfo.TypeOf(ie.X)), "orb.Point") {
			pointSide, midSide = be.Y, be.X
			op = flipRel[op]
		} else {
			return true
		}
		if _, ok := ast.Unparen(midSide).(*ast.Ident); !ok {
			return true
		}
		ax, ok := constInt(pkg, ast.Unparen(pointSide).(*ast.IndexExpr).Index)
		if !ok {
			return true
		}
		row := halfRow{axis: ax, rel: op.String()}
		mid := ast.Unparen(midSide).(*ast.Ident).Name
		scan := func(stmts []ast.Stmt, isThen bool) {
			for _, st := range stmts {
				switch s := st.(type) {
				case *ast.AssignStmt:
					if len(s.Lhs) != 1 || len(s.Rhs) != 1 {
						continue
					}
					lhs, ok := s.Lhs[0].(*ast.Ident)
					if !ok {
						continue
					}
					if rid, ok := s.Rhs[0].(*ast.Ident); ok && rid.Name == mid {
						if isThen {
							row.sets = lhs.Name
						} else {
							row.els = lhs.Name
						}
						continue
					}
					if v, ok := constInt(pkg, s.Rhs[0]); ok && isThen {
						switch s.Tok {
						case token.ASSIGN, token.ADD_ASSIGN, token.OR_ASSIGN:
							row.bit = v
						}
					}
				case *ast.IncDecStmt:
					if s.Tok == token.INC && isThen {
						row.bit = 1
					}
				}
			}
		}
		scan(ifs.Body.List, true)
		if eb, ok := ifs.Else.(*ast.BlockStmt); ok {
			scan(eb.List, false)
		}
		if row.bit != 0 {
			rows = append(rows, row)
		}
		return true
	})
	return rows
}

func ruleQuadtreeTables(c *Ctx) {
	p := c.P
	c.R.Rule("T9: child-index tables of the quadtree read from the syntax tree: add and childIndex use the same comparator per axis and the same bit; add narrows the cell to the half the comparator names; visit.Visit searches child k in exactly the half-cells named by k's bits")
	pkgPath := orbPath + "/quadtree"
	pk, addFd := findMethodDecl(p, pkgPath, "Quadtree", "add")
	_, ciFd := findMethodDecl(p, pkgPath, "", "childIndex")
	_, visFd := findMethodDecl(p, pkgPath, "visit", "Visit")
	if addFd == nil || ciFd == nil || visFd == nil {
		c.R.Unknown("T9-quadtree-cells", "quadtree", "", "add / childIndex / visit.Visit not found")
		return
	}
	addRows, ciRows := extractHalfRows(pk, addFd), extractHalfRows(pk, ciFd)
	if len(addRows) != 2 || len(ciRows) != 2 {
		c.R.Unknown("T9-quadtree-cells", "quadtree.add~childIndex", p.Pos(addFd.Pos()), fmt.Sprintf("expected two half-cell rows in each, extracted %d and %d", len(addRows), len(ciRows)))
		return
	}
	bitOf := map[int64]halfRow{} // axis -> row of add
	for _, r := range addRows {
		bitOf[r.axis] = r
	}
	bad := ""
	for _, r := range ciRows {
		a, ok := bitOf[r.axis]
		if !ok {
			bad += fmt.Sprintf(" childIndex tests axis %d, add does not;", r.axis)
			continue
		}
		if a.rel != r.rel {
			bad += fmt.Sprintf(" axis %d: add files a point under point[%d] %s mid, the search starts under point[%d] %s mid (points on the midline are looked for in the wrong child first);", r.axis, r.axis, a.rel, r.axis, r.rel)
		}
		if a.bit != r.bit {
			bad += fmt.Sprintf(" axis %d: add sets bit %d, childIndex bit %d;", r.axis, a.bit, r.bit)
		}
	}
	if bitOf[0].bit == bitOf[1].bit {
		bad += " both axes use the same bit;"
	}
	if bad != "" {
		c.R.Bad("T9-quadtree-cells", "quadtree.add~childIndex", p.Pos(addFd.Pos()), strings.TrimSpace(bad))
	} else {
		c.R.OK("T9-quadtree-cells", "quadtree.add~childIndex", p.Pos(addFd.Pos()),
			fmt.Sprintf("bit %d <=> point[0] %s cx, bit %d <=> point[1] %s cy in both", bitOf[0].bit, bitOf[0].rel, bitOf[1].bit, bitOf[1].rel))
	}
	// roles of add's and Visit's edge parameters: (side, axis) from how the midlines are computed
	edgeRole := func(fd *ast.FuncDecl) (map[string]boxRole, map[string]int64) {
		roles := map[string]boxRole{}
		mids := map[string]int64{}
		// parameters in order ..., left, right, bottom, top (float64 x4 at the end)
		var fl []string
		for _, f := range fd.Type.Params.List {
			if types.ExprString(f.Type) == "float64" {
				for _, n := range f.Names {
					fl = append(fl, n.Name)
				}
			}
		}
		if len(fl) == 4 {
			roles[fl[0]] = boxRole{side: "Min", axis: 0}
			roles[fl[1]] = boxRole{side: "Max", axis: 0}
			roles[fl[2]] = boxRole{side: "Min", axis: 1}
			roles[fl[3]] = boxRole{side: "Max", axis: 1}
		}
		ast.Inspect(fd.Body, func(n ast.Node) bool {
			as, ok := n.(*ast.AssignStmt)
			if !ok || as.Tok != token.DEFINE || len(as.Lhs) != 1 || len(as.Rhs) != 1 {
				return true
			}
			id, ok := as.Lhs[0].(*ast.Ident)
			if !ok {
				return true
			}
			txt := types.ExprString(as.Rhs[0])
			for ax := int64(0); ax < 2; ax++ {
				lo, hi := "", ""
				for n, r := range roles {
					if r.axis == ax && r.side == "Min" {
						lo = n
					}
					if r.axis == ax && r.side == "Max" {
						hi = n
					}
				}
				if lo != "" && strings.Contains(txt, lo) && strings.Contains(txt, hi) && strings.Contains(txt, "/") {
					mids[id.Name] = ax
				}
			}
			return true
		})
		return roles, mids
	}
	// the call-site order left,right,bottom,top is itself checked by T10 (roles derived from Matching's call)
	addRoles, _ := edgeRole(addFd)
	for _, r := range addRows {
		cons := fmt.Sprintf("quadtree.add#axis%d", r.axis)
		// the relation names a half: "<=" / "<" mid => lower/left half => the Max edge becomes the midline
		lowerHalf := strings.HasPrefix(r.rel, "<")
		wantSet, wantEls := "Min", "Max"
		if lowerHalf {
			wantSet, wantEls = "Max", "Min"
		}
		rs, re := addRoles[r.sets], addRoles[r.els]
		if rs.side != wantSet || rs.axis != r.axis || re.side != wantEls || re.axis != r.axis {
			c.R.Bad("T9-quadtree-cells", cons, p.Pos(addFd.Pos()), fmt.Sprintf("when point[%d] %s mid the cell must shrink to that half (replace its %s edge), but %q is replaced, and %q otherwise", r.axis, r.rel, wantSet, r.sets, r.els))
		} else {
			c.R.OK("T9-quadtree-cells", cons, p.Pos(addFd.Pos()), fmt.Sprintf("point[%d] %s mid: %s := mid, else %s := mid", r.axis, r.rel, r.sets, r.els))
		}
	}
	// visit: sub-cell per child
	visRoles, visMids := edgeRole(visFd)
	nChild := 0
	ast.Inspect(visFd.Body, func(n ast.Node) bool {
		call, ok := n.(*ast.CallExpr)
		if !ok || len(call.Args) != 5 {
			return true
		}
		se, ok := call.Fun.(*ast.SelectorExpr)
		if !ok || se.Sel.Name != "Visit" {
			return true
		}
		ie, ok := ast.Unparen(call.Args[0]).(*ast.IndexExpr)
		if !ok {
			return true
		}
		k, ok := constInt(pk, ie.Index)
		if !ok {
			return true
		}
		nChild++
		cons := fmt.Sprintf("quadtree.(visit).Visit#child%d", k)
		problem := ""
		for ax := int64(0); ax < 2; ax++ {
			row := bitOf[ax]
			set := k&row.bit != 0
			lowerHalf := strings.HasPrefix(row.rel, "<") == set // the half the child covers on this axis
			loArg, hiArg := types.ExprString(call.Args[1+2*ax]), types.ExprString(call.Args[2+2*ax])
			_, loIsMid := visMids[loArg]
			_, hiIsMid := visMids[hiArg]
			if loIsMid && visMids[loArg] != ax || hiIsMid && visMids[hiArg] != ax {
				problem += fmt.Sprintf(" axis %d is given the other axis' midline;", ax)
				continue
			}
			if lowerHalf {
				// [Min edge, mid]
				if visRoles[loArg].side != "Min" || visRoles[loArg].axis != ax || !hiIsMid {
					problem += fmt.Sprintf(" axis %d: child %d holds the points with point[%d] %s mid (lower half) but is searched with [%s, %s];", ax, k, ax, row.rel, loArg, hiArg)
				}
			} else {
				if !loIsMid || visRoles[hiArg].side != "Max" || visRoles[hiArg].axis != ax {
					problem += fmt.Sprintf(" axis %d: child %d holds the points of the upper half but is searched with [%s, %s];", ax, k, loArg, hiArg)
				}
			}
		}
		if problem != "" {
			c.R.Bad("T9-quadtree-cells", cons, p.Pos(call.Pos()), strings.TrimSpace(problem))
		} else {
			c.R.OK("T9-quadtree-cells", cons, p.Pos(call.Pos()), "searched in the half-cells its index bits name: "+types.ExprString(call))
		}
		return true
	})
	c.R.Floor("T9-quadtree-children", nChild, 4)
}
