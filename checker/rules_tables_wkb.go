package main

// T1/T2 — WKB tables.
//
// T1: the writer's kind -> type-word table (the constant each write* method
// puts in the header), the byte-slice reader's and the stream reader's
// type-word -> kind tables (constant case -> result type of the decoder called
// in that arm) are extracted from SSA and must satisfy reader(writer(K)) = K
// for the seven WKB kinds, with both readers identical; members of multi
// geometries and collections are encoded with the constant SRID 0.
// T2: every function that branches on the byte-order flag calls only
// binary.LittleEndian methods on the little arm and only binary.BigEndian
// methods on the other; the writer's order byte is 1 exactly on the little arm.

import (
	"fmt"
	"go/ast"
	"go/constant"
	"go/token"
	"go/types"
	"sort"
	"strings"

	"golang.org/x/tools/go/packages"
	"golang.org/x/tools/go/ssa"
)

const wkbPkg = orbPath + "/encoding/internal/wkbcommon"

func constUint(v ssa.Value) (uint64, bool) {
	c, ok := v.(*ssa.Const)
	if !ok || c.Value == nil || c.Value.Kind() != constant.Int {
		return 0, false
	}
	return constant.Uint64Val(c.Value)
}

// firstModuleCall finds the first call to a module function in the blocks
// dominated by b (in block order).
func firstModuleCall(p *Program, b *ssa.BasicBlock) *ssa.Call {
	for _, bb := range b.Parent().Blocks {
		if !b.Dominates(bb) {
			continue
		}
		for _, in := range bb.Instrs {
			if call, ok := in.(*ssa.Call); ok {
				if cal := call.Call.StaticCallee(); cal != nil && cal.Pkg != nil && p.SSA[cal.Pkg.Pkg.Path()] != nil {
					return call
				}
			}
		}
	}
	return nil
}

// readerTable: type word -> kind produced, from a `switch typ {case C: g, err = decodeX(...)}`.
func readerTable(p *Program, fn *ssa.Function) (map[uint64]string, map[uint64]string) {
	table := map[uint64]string{}
	callee := map[uint64]string{}
	for _, b := range fn.Blocks {
		ifi, ok := b.Instrs[len(b.Instrs)-1].(*ssa.If)
		if !ok {
			continue
		}
		bo, ok := ifi.Cond.(*ssa.BinOp)
		if !ok || bo.Op != token.EQL {
			continue
		}
		cv, ok := constUint(bo.Y)
		if !ok {
			continue
		}
		if bt, ok := bo.X.Type().Underlying().(*types.Basic); !ok || bt.Kind() != types.Uint32 {
			continue
		}
		call := firstModuleCall(p, b.Succs[0])
		if call == nil {
			continue
		}
		cal := call.Call.StaticCallee()
		res := cal.Signature.Results()
		kind := ""
		if res.Len() > 0 {
			kind = p.KindOf(res.At(0).Type())
			if kind == "" && p.IsGeometry(res.At(0).Type()) {
				kind = "(generic)"
			}
		}
		if kind == "" && strings.HasSuffix(cal.Name(), "NewDecoder") {
			kind = "(generic)"
		}
		table[cv] = kind
		callee[cv] = ShortKey(FuncKey(cal))
	}
	return table, callee
}

func ruleWKBTables(c *Ctx) {
	p := c.P
	c.R.Rule("T1: writer kind->type-word constants, byte-slice reader and stream reader type-word->kind tables extracted from SSA; reader(writer(K)) = K for the seven WKB kinds, both readers identical, Ring/Bound rewritten to Polygon before the writer's dispatch, members encoded with SRID 0. " +
		"T2: on every branch on the byte-order flag the little arm uses only binary.LittleEndian, the other arm only binary.BigEndian; the writer's order byte is 1 exactly on the little arm")
	enc := p.Func(wkbPkg + ".(*Encoder).Encode")
	if enc == nil {
		c.R.Unknown("T1-kind-codes", "wkbcommon.(*Encoder).Encode", "", "encoder not found")
		return
	}
	// writer: type switch arm K -> write function -> type word
	writer := map[string]uint64{}
	writerFn := map[string]*ssa.Function{}
	for _, b := range enc.Blocks {
		for _, in := range b.Instrs {
			ta, ok := in.(*ssa.TypeAssert)
			if !ok || !ta.CommaOk || !p.IsGeometry(ta.X.Type()) {
				continue
			}
			kind := p.KindOf(ta.AssertedType)
			ifi, ok := b.Instrs[len(b.Instrs)-1].(*ssa.If)
			if !ok || kind == "" {
				continue
			}
			call := firstModuleCall(p, ifi.Block().Succs[0])
			if call == nil {
				continue
			}
			cal := call.Call.StaticCallee()
			if !strings.HasPrefix(cal.Name(), "write") {
				continue
			}
			words := map[uint64]bool{}
			for _, cb := range cal.Blocks {
				for _, cin := range cb.Instrs {
					cc, ok := cin.(*ssa.Call)
					if !ok {
						continue
					}
					var arg ssa.Value
					if sc := cc.Call.StaticCallee(); sc != nil && sc.Name() == "writeTypePrefix" && len(cc.Call.Args) >= 2 {
						arg = cc.Call.Args[1]
					} else if cc.Call.IsInvoke() && cc.Call.Method.Name() == "PutUint32" && len(cc.Call.Args) == 2 {
						arg = cc.Call.Args[1]
					}
					if arg == nil {
						continue
					}
					if v, ok := constUint(arg); ok && v != 0 {
						words[v&^0x20000000] = true
					}
				}
			}
			if len(words) == 1 {
				for w := range words {
					writer[kind] = w
					writerFn[kind] = cal
				}
			} else if len(words) > 1 {
				c.R.Bad("T1-kind-codes", "writer:"+kind, p.Pos(cal.Pos()), fmt.Sprintf("%s writes more than one type word: %v", cal.Name(), words))
			}
		}
	}
	unm := p.Func(wkbPkg + ".Unmarshal")
	dec := p.Func(wkbPkg + ".(*Decoder).Decode")
	if unm == nil || dec == nil {
		c.R.Unknown("T1-kind-codes", "wkbcommon.readers", "", "Unmarshal / Decoder.Decode not found")
		return
	}
	byteTab, byteCal := readerTable(p, unm)
	streamTab, streamCal := readerTable(p, dec)
	var kinds []string
	for k := range writer {
		kinds = append(kinds, k)
	}
	sort.Strings(kinds)
	for _, k := range kinds {
		w := writer[k]
		cons := "wkb:" + k
		pos := p.Pos(writerFn[k].Pos())
		bk, bok := byteTab[w]
		sk, sok := streamTab[w]
		want := k
		okB := bok && (bk == want || bk == "(generic)" && k == "Collection")
		okS := sok && (sk == want || sk == "(generic)" && k == "Collection")
		switch {
		case !okB:
			c.R.Bad("T1-kind-codes", cons, pos, fmt.Sprintf("the writer emits type word %d for %s, but the byte-slice reader decodes %d as %q (%s)", w, k, w, bk, byteCal[w]))
		case !okS:
			c.R.Bad("T1-kind-codes", cons, pos, fmt.Sprintf("the writer emits type word %d for %s, but the stream reader decodes %d as %q (%s)", w, k, w, sk, streamCal[w]))
		default:
			c.R.OK("T1-kind-codes", cons, pos, fmt.Sprintf("type word %d: writer %s, byte reader %s, stream reader %s", w, writerFn[k].Name(), byteCal[w], streamCal[w]))
		}
	}
	c.R.Floor("T1-kind-codes", len(kinds), 7)
	// readers agree on every word they know
	for w, bk := range byteTab {
		if sk, ok := streamTab[w]; ok && sk != bk && !(bk == "(generic)" && sk == "Collection") {
			c.R.Bad("T1-kind-codes", fmt.Sprintf("readers:word%d", w), p.Pos(unm.Pos()), fmt.Sprintf("byte-slice reader decodes type word %d as %s, stream reader as %s", w, bk, sk))
		}
	}
	if len(byteTab) != len(streamTab) {
		c.R.Bad("T1-kind-codes", "readers:domain", p.Pos(unm.Pos()), fmt.Sprintf("byte-slice reader knows %d type words, stream reader %d", len(byteTab), len(streamTab)))
	}
	// Ring / Bound rewritten to Polygon before dispatch: no write function takes them
	for _, k := range []string{"Ring", "Bound"} {
		if _, ok := writer[k]; ok {
			c.R.Bad("T1-kind-codes", "writer:"+k, p.Pos(enc.Pos()), k+" has its own type word; WKB has none, it must be written as the polygon it denotes")
		}
	}
	// members are encoded with SRID 0
	nMember := 0
	for _, fn := range p.FuncsIn(wkbPkg) {
		if !strings.HasPrefix(fn.Name(), "write") {
			continue
		}
		for _, b := range fn.Blocks {
			for _, in := range b.Instrs {
				call, ok := in.(*ssa.Call)
				if !ok || call.Call.StaticCallee() != enc {
					continue
				}
				nMember++
				cons := fmt.Sprintf("%s#member-srid", ShortKey(FuncKey(fn)))
				if v, ok := constUint(call.Call.Args[2]); ok && v == 0 {
					c.R.OK("T1-member-srid", cons, p.InstrPos(call), "members are encoded without SRID")
				} else {
					c.R.Bad("T1-member-srid", cons, p.InstrPos(call), "a member geometry is encoded with the outer SRID: readers expect plain WKB members (sizes and headers would disagree)")
				}
			}
		}
	}
	c.R.Floor("T1-member-srid", nMember, 2)

	// T2: endianness arms
	nArms := 0
	for _, fn := range p.FuncsIn(wkbPkg) {
		for _, b := range fn.Blocks {
			ifi, ok := b.Instrs[len(b.Instrs)-1].(*ssa.If)
			if !ok {
				continue
			}
			bo, ok := ifi.Cond.(*ssa.BinOp)
			if !ok || (bo.Op != token.EQL && bo.Op != token.NEQ) {
				continue
			}
			nt, ok := bo.X.Type().(*types.Named)
			if !ok || nt.Obj().Name() != "byteOrder" {
				continue
			}
			cv, ok := constUint(bo.Y)
			if !ok {
				continue
			}
			// which constant is "little": read the declared constant littleEndian
			little := uint64(1)
			if lc, ok := p.Pkgs[wkbPkg].Types.Scope().Lookup("littleEndian").(*types.Const); ok {
				little, _ = constant.Uint64Val(lc.Val())
			}
			arms := [2]string{"LittleEndian", "BigEndian"}
			if (cv != little) != (bo.Op == token.NEQ) {
				arms = [2]string{"BigEndian", "LittleEndian"}
			}
			nArms++
			cons := fmt.Sprintf("%s#order-branch", ShortKey(FuncKey(fn)))
			bad := ""
			for ai, succ := range b.Succs {
				for _, bb := range fn.Blocks {
					if !succ.Dominates(bb) || len(succ.Preds) != 1 {
						continue
					}
					for _, in := range bb.Instrs {
						call, ok := in.(*ssa.Call)
						if !ok {
							continue
						}
						cal := call.Call.StaticCallee()
						if cal == nil || cal.Signature.Recv() == nil {
							continue
						}
						rt := cal.Signature.Recv().Type().String()
						if !strings.HasPrefix(rt, "encoding/binary.") {
							continue
						}
						wantT := "encoding/binary." + strings.ToLower(arms[ai][:1]) + arms[ai][1:]
						if rt != wantT {
							bad += fmt.Sprintf(" the %s arm calls %s.%s;", arms[ai], rt, cal.Name())
						}
					}
				}
			}
			if bad != "" {
				c.R.Bad("T2-endianness", cons, p.InstrPos(ifi), "byte-order arms are mixed:"+bad)
			} else {
				c.R.OK("T2-endianness", cons, p.InstrPos(ifi), "little arm uses binary.LittleEndian only, the other arm binary.BigEndian only")
			}
		}
	}
	c.R.Floor("T2-endianness", nArms, 4)
	ruleOrderByteReaders(c)
	// writer's order byte
	okByte := false
	for _, b := range enc.Blocks {
		ifi, ok := b.Instrs[len(b.Instrs)-1].(*ssa.If)
		if !ok {
			continue
		}
		bo, ok := ifi.Cond.(*ssa.BinOp)
		if !ok || bo.Op != token.EQL {
			continue
		}
		isLE := func(v ssa.Value) bool {
			// make interface <- load of global binary.LittleEndian
			mi, ok := v.(*ssa.MakeInterface)
			if !ok {
				return false
			}
			return strings.HasSuffix(mi.X.Type().String(), "binary.littleEndian")
		}
		if !isLE(bo.X) && !isLE(bo.Y) {
			continue
		}
		byteIn := func(blk *ssa.BasicBlock) (uint64, bool) {
			for _, in := range blk.Instrs {
				if st, ok := in.(*ssa.Store); ok {
					if v, ok := constUint(st.Val); ok {
						if bt, ok := st.Val.Type().Underlying().(*types.Basic); ok && bt.Kind() == types.Uint8 {
							return v, true
						}
					}
				}
			}
			return 0, false
		}
		t, tok := byteIn(b.Succs[0])
		f, fok := byteIn(b.Succs[1])
		if tok && fok && t == 1 && f == 0 {
			okByte = true
			c.R.OK("T2-order-byte", "wkbcommon.(*Encoder).Encode#order-byte", p.InstrPos(ifi), "order byte 1 for little endian, 0 otherwise")
		} else if tok && fok {
			c.R.Bad("T2-order-byte", "wkbcommon.(*Encoder).Encode#order-byte", p.InstrPos(ifi), fmt.Sprintf("order byte is %d on the little-endian arm and %d on the other; readers expect 1 and 0", t, f))
			okByte = true
		}
	}
	if !okByte {
		c.R.Unknown("T2-order-byte", "wkbcommon.(*Encoder).Encode#order-byte", p.Pos(enc.Pos()), "the order-byte branch was not recognised")
	}
}

// ruleOrderByteReaders: the readers map header byte 1 to little endian and 0 to
// big endian (the inverse of the writer), read from the syntax of every
// function that assigns a byteOrder under a test of a byte against a constant.
func ruleOrderByteReaders(c *Ctx) {
	p := c.P
	pk := p.Pkgs[wkbPkg]
	n := 0
	p.eachFuncDecl(func(pkg *packages.Package, fd *ast.FuncDecl) {
		if pkg != pk {
			return
		}
		key := ShortKey(funcDeclKey(pkg, fd))
		pairs := map[int64]string{}
		record := func(k int64, body []ast.Stmt) {
			for _, st := range body {
				as, ok := st.(*ast.AssignStmt)
				if !ok || len(as.Lhs) != 1 || len(as.Rhs) != 1 {
					continue
				}
				if t := pkg.TypesInfo.TypeOf(as.Lhs[0]); t == nil || !strings.HasSuffix(t.String(), ".byteOrder") {
					continue
				}
				if id, ok := as.Rhs[0].(*ast.Ident); ok {
					pairs[k] = id.Name
				}
			}
		}
		isByte := func(e ast.Expr) bool {
			t := pkg.TypesInfo.TypeOf(e)
			if t == nil {
				return false
			}
			b, ok := t.Underlying().(*types.Basic)
			return ok && b.Kind() == types.Uint8
		}
		ast.Inspect(fd.Body, func(nd ast.Node) bool {
			switch x := nd.(type) {
			case *ast.IfStmt:
				if be, ok := ast.Unparen(x.Cond).(*ast.BinaryExpr); ok && be.Op == token.EQL && isByte(be.X) {
					if k, ok := constInt(pkg, be.Y); ok {
						record(k, x.Body.List)
					}
				}
			case *ast.SwitchStmt:
				if x.Tag != nil && isByte(x.Tag) {
					for _, cl := range x.Body.List {
						cc := cl.(*ast.CaseClause)
						for _, ce := range cc.List {
							if k, ok := constInt(pkg, ce); ok {
								record(k, cc.Body)
							}
						}
					}
				}
			}
			return true
		})
		if len(pairs) == 0 {
			return
		}
		n++
		if pairs[0] == "bigEndian" && pairs[1] == "littleEndian" && len(pairs) == 2 {
			c.R.OK("T2-order-byte", key+"#header-byte", p.Pos(fd.Pos()), "header byte 0 -> bigEndian, 1 -> littleEndian")
		} else {
			c.R.Bad("T2-order-byte", key+"#header-byte", p.Pos(fd.Pos()), fmt.Sprintf("header byte mapping %v; the writer emits 1 for little endian and 0 for big endian", pairs))
		}
	})
	c.R.Floor("T2-order-byte-readers", n, 2)
}

// ruleScanCoercion (T1c): in the typed scanners a multi geometry is coerced to
// its single member only when it has exactly one member.  Every x[0] taken from
// a value of a multi kind in a Scan* function must be dominated by the true
// edge of len(x) == 1.
func ruleScanCoercion(c *Ctx) {
	p := c.P
	c.R.Rule("T1c: in wkbcommon's Scan* functions every member extraction x[0] from a multi-kind value is dominated by the true edge of len(x) == 1 (one-member multi to single; anything else is a wrong-geometry error)")
	n := 0
	for _, fn := range p.FuncsIn(wkbPkg) {
		if !strings.HasPrefix(fn.Name(), "Scan") {
			continue
		}
		key := ShortKey(FuncKey(fn))
		ord := 0
		for _, b := range fn.Blocks {
			for _, in := range b.Instrs {
				ia, ok := in.(*ssa.IndexAddr)
				if !ok {
					continue
				}
				k := p.KindOf(ia.X.Type())
				if k != "MultiPoint" && k != "MultiLineString" && k != "MultiPolygon" && k != "Polygon" {
					continue
				}
				if v, ok := constUint(ia.Index); !ok || v != 0 {
					continue
				}
				n++
				cons := fmt.Sprintf("%s#first-member(%s)#%d", key, k, ord)
				ord++
				guarded := false
				for _, gb := range fn.Blocks {
					ifi, ok := gb.Instrs[len(gb.Instrs)-1].(*ssa.If)
					if !ok {
						continue
					}
					bo, ok := ifi.Cond.(*ssa.BinOp)
					if !ok || (bo.Op != token.EQL && bo.Op != token.NEQ) {
						continue
					}
					lc, ok := bo.X.(*ssa.Call)
					if !ok || !isBuiltin(lc, "len") || lc.Call.Args[0] != ia.X {
						continue
					}
					eqSucc := 0
					if bo.Op == token.NEQ {
						eqSucc = 1
					}
					if v, ok := constUint(bo.Y); ok && v == 1 && gb.Succs[eqSucc].Dominates(b) {
						guarded = true
					}
				}
				if guarded {
					c.R.OK("T1c-scan-coercion", cons, p.InstrPos(ia), "taken only when the multi geometry has exactly one member")
				} else {
					c.R.Bad("T1c-scan-coercion", cons, p.InstrPos(ia), "the first member of a "+k+" is returned without requiring len == 1: a multi geometry with several members is silently truncated instead of reported as the wrong geometry")
				}
			}
		}
	}
	c.R.Floor("T1c-scan-coercion", n, 4)
}
